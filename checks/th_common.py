"""C16 / C17: spec/TestHarness.tla and spec/Argv.tla bound to libcnb-test via stand-in docker/pack."""
import json
import os
import vlib

XSS = {"JAVA_TOOL_OPTIONS": "-Xss64m"}


def _mismatch_index(out):
    for line in open(out, errors="replace"):
        if "TRACE_MISMATCH" in line:
            return int(line.split(",")[1].strip(" >\n")), line.strip()
    return None, None


def run(ctx, prop):
    vlib.cargo_build(ctx)
    quick = ctx.tier == "quick"
    mc = vlib.tlc(ctx, "TestHarness.tla", "TestHarness.cfg" if quick else "TestHarness_t.cfg", "scenarios", workers=4, coverage=True, env=XSS, timeout=3000, heap="12g")
    vlib.tlc_must_pass(ctx, mc, "TestHarness scope machine")
    needed = ["StartBuild", "ImageStep", "StartContainer", "ContainerStep", "Rebuild", "PanicStep", "ReturnStep", "Unwind", "Finish"]
    missing = [a for a in needed if mc["coverage"].get(a, 0) == 0]
    if mc["ok"] and missing:
        raise vlib.ToolError(f"vacuity guard: actions never taken: {missing}")
    ctx.add("states", mc["distinct"])
    ctx.add("transitions", mc["generated"])
    if prop == "C17":
        law = vlib.tlc(ctx, "Argv.tla", "Argv_law.cfg" if quick else "Argv_law_t.cfg", "argv-law", workers=1, env=XSS, timeout=1800)
        if not law["ok"]:
            if any("Assumption" in e for e in law["errors"]):
                ctx.violation("spec:argv round trip", "Parse(Argv(cfg)) # cfg inside the specification", {"tlc_output": law["out"]}, "tlc")
            else:
                raise vlib.ToolError(f"TLC failed on Argv.tla: {law['errors'][:2]}")
    # locally packaged buildpacks: every reference list of LocalPackaging.tla; the pinned tree's
    # behaviour (no wipe) must violate NeverFails in the same model (negative control)
    lp = vlib.tlc(ctx, "LocalPackaging.tla", "LocalPackaging.cfg" if quick else "LocalPackaging_t.cfg", "localpkg", workers=1, env=XSS, timeout=900)
    vlib.tlc_must_pass(ctx, lp, "LocalPackaging model")
    neg = vlib.tlc(ctx, "LocalPackaging.tla", "LocalPackaging_negative.cfg", "localpkg-negative", workers=1, env=XSS, timeout=900)
    if not (neg["violated"] and "NeverFails" in neg["violated"]):
        raise vlib.ToolError("vacuity guard: packaging twice without wiping does not violate NeverFails in the model")
    ctx.add("states", lp["distinct"])
    ctx.add("transitions", lp["generated"])
    wd = ctx.workdir("th")
    t16 = os.path.join(wd, "c16.ndjson")
    t17 = os.path.join(wd, "c17.ndjson")
    env = {"VERIF_LP": lp["out"], "VERIF_LOCAL": "48" if quick else "400", "VERIF_NOPACK": "60" if quick else "100000"}
    s = vlib.harness(ctx, "th_replay", [mc["out"], t16, t17], env=env, timeout=7200)
    os.remove(mc["out"])
    if s["evaluations"] < 1000 or s["extra"].get("local_buildpack_scenarios", 0) < 100:
        raise vlib.ToolError(f"too few scenarios: {s['evaluations']} {s['extra']}")
    ctx.cov["local_buildpack_scenarios"] = s["extra"]["local_buildpack_scenarios"]
    mine = [m for m in s["mismatches"] if m["signature"].startswith(prop + ":")]
    if len(mine) != len(s["mismatches"]):
        ctx.note(f"{len(s['mismatches']) - len(mine)} disagreement(s) belong to the other libcnb-test property")
    for m in mine:
        ctx.violation(m["signature"], m["detail"], m["case"], "th_replay")
    for x in s["samples"]:
        ctx.sample(x)
    # direction B
    if prop == "C16":
        r = vlib.tlc(ctx, "TestHarness.tla", "TestHarness_trace.cfg", "trace", workers=1, env=dict(XSS, TRACE=t16), timeout=1800, heap="6g")
        trace, label = t16, "argv log is not accepted by the resource automaton"
    else:
        r = vlib.tlc(ctx, "Argv.tla", "Argv_trace.cfg", "trace", workers=1, env=dict(XSS, TRACE=t17), timeout=1800, heap="6g")
        trace, label = t17, "recorded command line does not decode to the configuration"
    i, line = _mismatch_index(r["out"])
    if i is not None:
        ev = json.loads(open(trace).read().splitlines()[i - 1])
        ctx.violation(f"{prop}:trace", f"{label}: {line}; {json.dumps(ev)[:600]}", {"event": ev}, "trace")
    elif not r["ok"]:
        raise vlib.ToolError(f"TLC failed on the recorded traces: {r['errors'][:2]}")
    else:
        # self-test of the binding: a corrupted record must be rejected
        evs = [json.loads(x) for x in open(trace).read().splitlines()]
        k = len(evs) // 2
        if prop == "C16":
            k = next(j for j in range(k, len(evs)) if any(c["cmd"] == "rmi" for c in evs[j]["cmds"]))
            evs[k]["cmds"] = [c for c in evs[k]["cmds"] if c["cmd"] != "rmi"]
        else:
            evs[k]["argv"] = evs[k]["argv"] + [{"s": "--privileged", "dash": True, "eqname": "", "eqval": ""}] if evs[k]["kind"] == "pack-build" else [evs[k]["argv"][0], {"s": "--privileged", "dash": True, "eqname": "", "eqval": ""}] + evs[k]["argv"][1:]
        bad = os.path.join(wd, "corrupted.ndjson")
        vlib.write_ndjson(bad, evs)
        r2 = vlib.tlc(ctx, "TestHarness.tla" if prop == "C16" else "Argv.tla", "TestHarness_trace.cfg" if prop == "C16" else "Argv_trace.cfg",
                      "selftest", workers=1, env=dict(XSS, TRACE=bad), timeout=1800, heap="6g")
        j, _ = _mismatch_index(r2["out"])
        if j != k + 1:
            raise vlib.ToolError(f"binding self-test failed: corrupted record {k + 1}, TLC reported {j}")
        ctx.cov["binding_selftest"] = f"corrupted record {k + 1} rejected"
        ctx.add("traces_validated_against_impl", len(evs))
    ctx.add("evaluations", s["evaluations"])
    ctx.add("distinct_nontrivial", s["distinct_nontrivial"])
    ctx.cov["argv_events"] = s["extra"]["argv_events"]
    ctx.assumptions += [
        "docker and pack are stand-in executables first on PATH (harness/src/bin/standin.rs) that log argv with boundaries "
        "preserved and succeed/fail as the scenario scripts; `docker rm/rmi/volume remove --force` always succeed (a failing "
        "cleanup command is outside the property's fault model)",
        "scenarios are interpreted by harness/src/bin/scenario.rs with the real TestRunner; BuildpackReference::Other only, "
        "so no buildpack is compiled; the default target triple is used (it only selects --platform)",
        "the reference option grammars of `pack build` and `docker run` are those written in Argv.tla / th_replay.rs",
    ]
    if prop == "C16":
        rule = ("every scenario of the scope machine with at most %d scripted steps (TLC, exhaustive) is run in a fresh process with the "
                "real TestRunner; its resource commands must be the predicted ones, TMPDIR must be empty, and the whole argv log must "
                "be accepted by the resource automaton (TLC); distinct = distinct scripts" % (5 if quick else 7))
    else:
        rule = ("the same runs with seeded adversarial configurations (values that look like options, contain spaces, '=', quotes, "
                "non-ASCII, empty strings; relative/absolute app dirs; preprocessor); every recorded pack build / docker run argv is "
                "decoded by reference parsers (Rust and, independently, Argv.tla under TLC) and compared with the configuration")
    return vlib.finish(ctx, rule=rule, exhaustive=(prop == "C16"))


def replay(ctx, path):
    vlib.cargo_build(ctx)
    r = json.load(open(path))
    tmp = os.path.join(vlib.WORK, "replay-case.json")
    json.dump(r["case"], open(tmp, "w"))
    s = vlib.harness(ctx, "th_replay", [tmp, os.path.join(vlib.WORK, "r16.ndjson"), os.path.join(vlib.WORK, "r17.ndjson"), "--single"])
    for m in s["mismatches"]:
        if m["signature"].startswith(ctx.id + ":"):
            ctx.violation(m["signature"], m["detail"], m["case"], "th_replay")
    ctx.add("evaluations", 1)
    return vlib.finish(ctx, rule="replay of one recorded scenario")
