"""C18: spec/Inventory.tla bound to libherokubuildpack::inventory."""
import os
import vlib


def run(ctx):
    vlib.cargo_build(ctx)
    quick = ctx.tier == "quick"
    r = vlib.tlc(ctx, "Inventory.tla", "Inventory_q.cfg" if quick else "Inventory_t.cfg", "inventory", workers=1, env={"JAVA_TOOL_OPTIONS": "-Xss64m"}, timeout=3000, heap="12g")
    if not r["ok"]:
        if any("Assumption" in e for e in r["errors"]):
            ctx.violation("spec:fold vs maximality", "the implementation-shaped folds do not return a maximal matching artifact inside the specification", {"tlc_output": r["out"]}, "tlc")
        else:
            raise vlib.ToolError(f"TLC failed on Inventory.tla: {r['errors'][:2]}")
    s = vlib.harness(ctx, "inventory_replay", [r["out"]], timeout=7200)
    os.remove(r["out"])
    if s["extra"]["inventories"] < 10000 or s["extra"]["checksum_shapes"] < 400 or s["extra"].get("queries_per_inventory") != 4:
        raise vlib.ToolError(f"too few cases: {s['extra']}")
    vlib.take_summary(ctx, s, "inventory_replay")
    ctx.add("evaluations", s["evaluations"])
    ctx.add("distinct_nontrivial", s["distinct_nontrivial"])
    ctx.cov.update(s["extra"])
    ctx.assumptions += ["versions are a harness type ordered by the specification's poset (diamond plus an incomparable element; the chain "
                        "bot<l<top for the Ord-based API); any maximal matching artifact is accepted (no tie-break is imposed)",
                        "checksum strings are described by shape (algorithm name, number of colons, hex length around 64/128, character class)"]
    return vlib.finish(ctx, rule="TLC proves the filter+max_by_key and partial fold return an element of Acceptable (matching, not exceeded) and "
                       "nothing only when nothing matches, for every inventory (ordered, with duplicates) of <= 2 (thorough 3) artifacts over "
                       "version x {match, wrong OS, wrong arch, wrong metadata, fails requirement} and <= 4 (thorough 5) over version x "
                       "{match, fails requirement} and <= 6 all-matching artifacts (the stated bound; every order, duplicates, incomparable "
                       "and NaN-like versions), for the total and the partial order; each is built with the real Inventory once per "
                       "query (linux|darwin x amd64|arm64; the classes are relative to the query, so a resolver that ignores or "
                       "hard-wires an argument is seen), resolved with resolve / partial_resolve, rendered and parsed back; 480 checksum shapes are parsed as Checksum<Sha256> and "
                       "Checksum<Sha512>. Non-trivial: >= 2 matching artifacts / checksum near a valid length.", exhaustive=True)


def replay(ctx, path):
    raise vlib.ToolError("replay: build the inventory of the case file and call resolve / partial_resolve")
