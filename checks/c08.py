"""C08: spec/Schemas.tla (CNB document formats as data, instances, single-point mutations) bound to the
deserialisers of libcnb-data."""
import os
import vlib


def run(ctx):
    vlib.cargo_build(ctx)
    r = vlib.tlc(ctx, "Schemas.tla", "Schemas.cfg" if ctx.tier == "quick" else "Schemas_t.cfg", "schemas", workers=1, env={"JAVA_TOOL_OPTIONS": "-Xss64m"}, timeout=1800)
    if not r["ok"]:
        raise vlib.ToolError(f"TLC failed on Schemas.tla (schema well-formedness?): {r['errors'][:2]}")
    s = vlib.harness(ctx, "schema_replay", [r["out"]], env={"VERIF_VARIATIONS": "2" if ctx.tier == "quick" else "6"}, timeout=3600)
    os.remove(r["out"])
    v = s["extra"]["verdicts"]
    if sum(v.values()) < 1500 or not all(any(k.startswith(n + ":reject") for k in v) for n in ("component", "composite", "plan", "layer", "launch", "store", "package")):
        raise vlib.ToolError(f"vacuity guard: too few cases / a schema without reject cases: {v}")
    vlib.take_summary(ctx, s, "schema_replay")
    ctx.add("evaluations", s["evaluations"])
    ctx.add("distinct_nontrivial", s["distinct_nontrivial"])
    ctx.cov["verdicts"] = v
    ctx.assumptions += [
        "the formats are transcribed from the CNB specification text into Schemas.tla; instances are the minimal document, the full document, "
        "the minimal plus each optional part and the full minus each optional part (thorough tier: plus / minus every pair of optional parts; arrays of tables with one element)",
        "don't-care: store.toml without [metadata]; [platform] without os in package.toml; deleting name/version of targets.distros",
        "documents are rendered by the harness's own emitter in several equivalent notations (inline tables, headers, literal / multi-line strings)",
    ]
    return vlib.finish(ctx, rule="for every format (component and composite buildpack.toml, buildpack plan, layer content metadata, launch.toml, "
                       "store.toml, package.toml) TLC enumerates every instance x every single-point mutation {unknown key in each table, unknown key "
                       "inside free-form metadata, delete each required key, retype each scalar, add order / targets / stacks} with the verdict the spec "
                       "demands; each is rendered, parsed with the public type, the verdict compared and, on acceptance, every parsed value compared "
                       "with the document (omitted optional keys = spec defaults); descriptors are also classified through BuildpackDescriptor. "
                       "Non-trivial: mutated documents.", exhaustive=True)


def replay(ctx, path):
    raise vlib.ToolError("replay: the case file holds schema, instance and mutation; re-run ./check C08")
