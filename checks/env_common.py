"""C03 / C04 / C10: spec/LayerEnv.tla bound to libcnb::layer_env."""
import json
import os
import vlib

XSS = {"JAVA_TOOL_OPTIONS": "-Xss64m"}


def _replay(ctx, mode, tlc_out):
    s = vlib.harness(ctx, "env_replay", [mode, tlc_out])
    if s["evaluations"] == 0:
        raise vlib.ToolError("TLC emitted no vectors")
    vlib.take_summary(ctx, s, f"env_replay:{mode}")
    ctx.add("evaluations", s["evaluations"])
    ctx.add("distinct_nontrivial", s["distinct_nontrivial"])
    os.remove(tlc_out)
    return s


def _trace(ctx, n):
    """random large environments, real apply / write+read+apply, TLC recomputes each result"""
    wd = ctx.workdir("envtrace")
    trace = os.path.join(wd, "env.ndjson")
    d = vlib.harness(ctx, "env_drive", [trace, str(n)])
    r = vlib.tlc(ctx, "LayerEnvMC.tla", "LayerEnv_trace.cfg", "trace", workers=1, env=dict(XSS, TRACE=trace), timeout=900)
    bad = None
    with open(r["out"], errors="replace") as f:
        for line in f:
            if "TRACE_MISMATCH" in line:
                bad = int(line.split(",")[1].strip(" >\n"))
    lines = open(trace).read().splitlines()
    if bad is not None:
        ev = json.loads(lines[bad - 1])
        ctx.violation(f"trace:{ev['kind']}:{ev['q']}",
                      f"recorded {ev['kind']} for scope {ev['q']} gave {ev['result']}, the specification computes something else",
                      {"mode": "trace", "event": ev}, "env_trace")
    elif not r["ok"]:
        raise vlib.ToolError(f"TLC failed on the env trace: {r['errors'][:2]}")
    else:
        # self-test of the oracle binding: a corrupted result must be caught
        evs = [json.loads(x) for x in lines]
        i = next(k for k in range(len(evs) // 2, len(evs)) if any(v["set"] for v in evs[k]["result"].values()))
        name = next(k for k, v in evs[i]["result"].items() if v["set"])
        evs[i]["result"][name]["v"] = evs[i]["result"][name]["v"] + ["zzz"]
        badf = os.path.join(wd, "bad.ndjson")
        vlib.write_ndjson(badf, evs)
        r2 = vlib.tlc(ctx, "LayerEnvMC.tla", "LayerEnv_trace.cfg", "trace-selftest", workers=1, env=dict(XSS, TRACE=badf), timeout=900)
        hit = any(f"\"TRACE_MISMATCH\", {i + 1}>>" in l for l in open(r2["out"], errors="replace"))
        if not hit:
            raise vlib.ToolError("binding self-test failed: corrupted trace event was not rejected")
        ctx.cov["binding_selftest"] = f"corrupted result of event {i + 1} rejected"
        ctx.add("traces_validated_against_impl", 1)
    if any(json.loads(x)["extra"] for x in lines):
        ctx.violation("trace:extra-variable", "apply returned a variable that is neither in the input nor in the layer env",
                      {"mode": "trace"}, "env_trace")
    ctx.cov["trace_events"] = len(lines)
    ctx.add("evaluations", len(lines))
    ctx.sample({"trace_kinds": d["extra"]["kinds"]})


COMMON_ASSUMPTIONS = [
    "names/values are tokens mapped to byte strings by the harness (4 name mappings incl. dots, non-UTF-8, spaces; "
    "value suffix with non-UTF-8 byte and newline)",
    "TLC 1.8.0 evaluates the specification correctly",
]


def run_c04(ctx):
    vlib.cargo_build(ctx)
    ctx.assumptions += COMMON_ASSUMPTIONS
    mode = "c04q" if ctx.tier == "quick" else "c04t"
    r = vlib.tlc(ctx, "LayerEnvMC.tla", f"LayerEnv_{mode}.cfg", mode, workers=1, env=XSS, timeout=1800)
    if not r["ok"]:
        if any("Assumption" in e for e in r["errors"]):
            ctx.violation("spec:laws", "the implementation-shaped fold and the CNB laws disagree inside the specification", {"tlc_output": r["out"]}, "tlc")
        else:
            raise vlib.ToolError(f"TLC failed: {r['errors'][:2]}")
    _replay(ctx, "v4", r["out"])
    _trace(ctx, 3000 if ctx.tier == "quick" else 40000)
    return vlib.finish(ctx, rule="TLC enumerates all-delta x scope-delta behaviour subsets on one variable (values tagged by "
                       "delta and behaviour) x scope of the second delta x bystander-variable variants x previous value "
                       "{unset, empty, non-empty}; checks fold = CNB laws for all 5 query scopes and prints each case; the "
                       "real LayerEnv is built by insert (seeded order) and chainable_insert (reverse) under 4 name mappings "
                       "and apply/apply_to_empty compared for every query scope. Non-trivial: >= 2 entries.",
                       exhaustive=True)


def run_c10(ctx):
    vlib.cargo_build(ctx)
    ctx.assumptions += COMMON_ASSUMPTIONS
    r = vlib.tlc(ctx, "LayerEnvMC.tla", "LayerEnv_c10.cfg", "c10", workers=1, env=XSS, timeout=1800)
    if not r["ok"]:
        if any("Assumption" in e for e in r["errors"]):
            ctx.violation("spec:laws", "implicit path law violated inside the specification", {"tlc_output": r["out"]}, "tlc")
        else:
            raise vlib.ToolError(f"TLC failed: {r['errors'][:2]}")
    _replay(ctx, "v10", r["out"])
    return vlib.finish(ctx, rule="all 6^4 assignments of {absent, dir, file, link->dir, link->file, dangling} to bin/lib/include/"
                       "pkgconfig x explicit entries {none, append+delim in scope all, override in build+launch} x starting env "
                       "with/without the variables; each materialised with real directories/files/symlinks, read with "
                       "read_from_layer_dir, applied for 5 query scopes and compared with the specification; then 3 read->write "
                       "cycles must leave the whole layer byte-identical. Non-trivial: at least one path not absent.",
                       exhaustive=True)


def run_c03(ctx):
    vlib.cargo_build(ctx)
    ctx.assumptions += COMMON_ASSUMPTIONS + [
        "suffix-less files whose name contains a dot are don't-care (libcnb splits at the last dot, the reference "
        "lifecycle at the first) and are not generated; two files denoting the same entry are not generated"]
    cfg = "LayerEnv_c03q.cfg" if ctx.tier == "quick" else "LayerEnv_c03t.cfg"
    r = vlib.tlc(ctx, "LayerEnvMC.tla", cfg, "c03", workers=4, env=XSS, timeout=3000)
    vlib.tlc_must_pass(ctx, r, "LayerEnv disk model")
    ctx.add("states", r["distinct"])
    ctx.add("transitions", r["generated"])
    _replay(ctx, "tw", r["out"])
    _trace(ctx, 3000 if ctx.tier == "quick" else 40000)
    return vlib.finish(ctx, rule="TLC explores the disk model (write of each environment of EnvSet over whatever an earlier "
                       "write or a foreign tool left: suffix-less, unknown suffix, sub-directory, unknown process dir); every "
                       "transition is materialised in a real layer directory next to non-env files, write_to_layer_dir is "
                       "called, the env files must be exactly the prescribed ones with raw value bytes, everything else "
                       "byte-identical, and read_from_layer_dir + apply must equal the specification for 5 scopes x 2 starting "
                       "envs. Non-trivial: some env file before or after.", exhaustive=True)


def replay(ctx, path):
    vlib.cargo_build(ctx)
    r = json.load(open(path))
    case = r["case"]
    if case.get("mode") in ("v4", "v10", "tw"):
        tmp = os.path.join(vlib.WORK, "replay-case.json")
        json.dump(case["vector"], open(tmp, "w"))
        s = vlib.harness(ctx, "env_replay", [case["mode"], tmp, "--single"])
        vlib.take_summary(ctx, s, r["engine"])
    elif case.get("mode") == "trace":
        tmp = os.path.join(vlib.WORK, "replay-trace.ndjson")
        vlib.write_ndjson(tmp, [case["event"]])
        t = vlib.tlc(ctx, "LayerEnvMC.tla", "LayerEnv_trace.cfg", "replay", workers=1, env=dict(XSS, TRACE=tmp))
        if not t["ok"]:
            ctx.violation(r["signature"], "recorded event still disagrees with the specification", case, "env_trace")
    else:
        raise vlib.ToolError("cannot replay this case")
    ctx.add("evaluations", 1)
    return vlib.finish(ctx, rule="replay of one recorded case")
