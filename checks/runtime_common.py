"""C05 / C06: spec/Runtime.tla bound to libcnb_runtime through the scripted buildpack `vbp`."""
import json
import os
import vlib


def run(ctx, prop):
    vlib.cargo_build(ctx)
    r = vlib.tlc(ctx, "Runtime.tla", "Runtime.cfg", "paths", workers=1, coverage=True, timeout=900)
    vlib.tlc_must_pass(ctx, r, "Runtime model")
    needed = ["ApiCheck", "ApiCheck2", "Dispatch", "DetectArgs", "BuildArgs", "DetectUser", "DetectWrite", "BuildUser",
              "BuildPlan", "BuildStore", "Done"]
    missing = [a for a in needed if r["coverage"].get(a, 0) == 0]
    if r["ok"] and missing:
        raise vlib.ToolError(f"vacuity guard: actions never taken: {missing}")
    ctx.add("states", r["distinct"])
    ctx.add("transitions", r["generated"])
    variations = "2" if ctx.tier == "quick" else "12"
    s = vlib.harness(ctx, "runtime_replay", [r["out"]], env={"VERIF_VARIATIONS": variations})
    if s["extra"]["paths"] < 1000 or (not s["mismatches"] and s["extra"]["contexts_compared"] < 1000):
        raise vlib.ToolError(f"vacuity guard: too few paths / contexts: {s['extra']}")
    mine = [m for m in s["mismatches"] if m["signature"].startswith(prop + ":")]
    other = len(s["mismatches"]) - len(mine)
    if other:
        ctx.note(f"{other} disagreement(s) belong to the other runtime property and are reported by its own check")
    for m in mine:
        ctx.violation(m["signature"], m["detail"], m["case"], "runtime_replay")
    for x in s["samples"]:
        ctx.sample(x)
    if prop == "C06":
        # the previous store is handed to the next build: multi-build histories through the real executable
        wd = ctx.workdir("hist")
        h = vlib.harness(ctx, "history_drive", [os.path.join(wd, "hist.ndjson"), "3" if ctx.tier == "quick" else "20", "5", "5"])
        for m in h["mismatches"]:
            if m["signature"].startswith("C06:"):
                ctx.violation(m["signature"], m["detail"], m["case"], "history_drive")
        ctx.cov["store_round_trips"] = h["evaluations"]
    ctx.add("evaluations", s["evaluations"])
    ctx.add("distinct_nontrivial", s["distinct_nontrivial"])
    ctx.add("traces_validated_against_impl", s["evaluations"])
    ctx.cov["paths"] = s["extra"]["paths"]
    ctx.cov["exit_classes"] = s["extra"]["exits"]
    ctx.cov["contexts_compared"] = s["extra"]["contexts_compared"]
    os.remove(r["out"])
    ctx.assumptions += [
        "the buildpack executable is harness/src/bin/vbp.rs around the real libcnb_runtime, started via symlinks "
        "named detect/build/foo with a cleared environment",
        "inputs a path never consulted are filled from the seed (they must be irrelevant) and every path is run with "
        f"{variations} different fillings/payloads",
        "payload TOML (descriptor metadata, buildpack plan, store) is rendered by the harness's own emitter "
        "(harness/src/tomlgen.rs, several notations), not by the toml crate",
    ]
    rule = ("every root-to-exit path of the decision tree in Runtime.tla (TLC, exhaustive) is one case; each is set up for real "
            "and run in a fresh process; distinct = distinct paths; all are non-trivial (each differs in at least one consulted input)")
    return vlib.finish(ctx, rule=rule, exhaustive=True)


def replay(ctx, path):
    vlib.cargo_build(ctx)
    r = json.load(open(path))
    tmp = os.path.join(vlib.WORK, "replay-case.json")
    json.dump(r["case"], open(tmp, "w"))
    s = vlib.harness(ctx, "runtime_replay", [tmp, "--single"], env={"VERIF_VARIATIONS": "1"})
    for m in s["mismatches"]:
        if m["signature"].startswith(ctx.id + ":"):
            ctx.violation(m["signature"], m["detail"], m["case"], "runtime_replay")
    ctx.add("evaluations", 1)
    return vlib.finish(ctx, rule="replay of one recorded case")
