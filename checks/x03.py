"""X03 (extension, not a listed property): the telemetry part of spec/Runtime.tla (out.telemetry,
TelemetryMatchesExit) bound to libcnb built with its `trace` feature."""
import os
import subprocess
import time
import vlib

TRACE = os.path.join(vlib.ROOT, "harness-trace")


def run(ctx):
    vlib.cargo_build(ctx)
    t = time.time()
    lock = os.path.join(TRACE, "Cargo.lock")
    if not os.path.exists(lock):
        import shutil
        shutil.copy("/repo/Cargo.lock", lock)
    p = subprocess.run(["cargo", "build", "--offline"], cwd=TRACE, env=dict(os.environ, CARGO_NET_OFFLINE="true"),
                       stdout=subprocess.PIPE, stderr=subprocess.STDOUT, text=True)
    if p.returncode != 0:
        print(p.stdout[-3000:])
        raise vlib.ToolError("cargo build of harness-trace (libcnb with the trace feature) failed")
    ctx.note(f"harness-trace built in {time.time() - t:.1f}s")
    r = vlib.tlc(ctx, "Runtime.tla", "Runtime.cfg", "paths", workers=1, timeout=900)
    vlib.tlc_must_pass(ctx, r, "Runtime model")
    ctx.add("states", r["distinct"])
    ctx.add("transitions", r["generated"])
    s = vlib.harness(ctx, "runtime_replay", [r["out"]], env={"VERIF_VARIATIONS": "1" if ctx.tier == "quick" else "4",
                                                            "VERIF_TELEMETRY_VBP": os.path.join(TRACE, "target", "debug", "vbp_trace")})
    os.remove(r["out"])
    if s["extra"]["paths"] < 1000:
        raise vlib.ToolError(f"too few paths: {s['extra']}")
    mine = [m for m in s["mismatches"] if m["signature"].startswith("X03:")]
    for m in mine:
        ctx.violation(m["signature"], m["detail"], m["case"], "runtime_replay")
    ctx.note(f"{len(s['mismatches']) - len(mine)} disagreement(s) of other kinds are ignored here (C05 / C06 report them)")
    ctx.add("evaluations", s["evaluations"])
    ctx.add("distinct_nontrivial", s["distinct_nontrivial"])
    ctx.add("traces_validated_against_impl", s["evaluations"])
    ctx.assumptions += ["libcnb writes its telemetry to the fixed directory /tmp/libcnb-telemetry, one file per buildpack id and phase; every run "
                        "uses a buildpack id of its own and removes its files afterwards",
                        "tracing installs a process-global subscriber, so the decoy invocation of the scripted buildpack is switched off here"]
    return vlib.finish(ctx, rule="every root-to-exit path of Runtime.tla carries the telemetry the `trace` feature must leave (none before the "
                       "descriptor is read; otherwise exactly one appended line with one span libcnb-<phase> and exactly one outcome event: "
                       "detect-passed / detect-failed / build-success / <phase>-error, matching the exit status: TelemetryMatchesExit); each path "
                       "is run with the scripted buildpack built against libcnb with the trace feature, over a telemetry file that already holds "
                       "the line of an earlier run", exhaustive=True)


def replay(ctx, path):
    raise vlib.ToolError("replay: re-run ./check X03")
