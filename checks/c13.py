from checks import pkg_common


def run(ctx):
    return pkg_common.run_c13(ctx)


def replay(ctx, path):
    return pkg_common.replay(ctx, path)
