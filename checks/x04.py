"""X04 (extension, not a listed property): spec/TomlSelect.tla bound to
libherokubuildpack::toml::toml_select_value and libherokubuildpack::error::on_error."""
import os
import vlib


def run(ctx):
    vlib.cargo_build(ctx)
    r = vlib.tlc(ctx, "TomlSelect.tla", "TomlSelect.cfg", "select", workers=1, env={"JAVA_TOOL_OPTIONS": "-Xss64m"}, timeout=900)
    if not r["ok"]:
        if any("Assumption" in e for e in r["errors"]):
            ctx.violation("spec:selection law", "recursive selection differs from the address reading inside the specification", {"tlc_output": r["out"]}, "tlc")
            return vlib.finish(ctx, rule="-", exhaustive=True)
        raise vlib.ToolError(f"TLC failed on TomlSelect.tla: {r['errors'][:2]}")
    s = vlib.harness(ctx, "select_replay", [r["out"]], timeout=1800)
    os.remove(r["out"])
    if s["evaluations"] < 16000 or s["extra"]["selected_some"] < 2000:
        raise vlib.ToolError(f"too few cases: {s['evaluations']} {s['extra']}")
    vlib.take_summary(ctx, s, "select_replay")
    ctx.add("evaluations", s["evaluations"])
    ctx.add("distinct_nontrivial", s["distinct_nontrivial"])
    ctx.cov.update(s["extra"])
    return vlib.finish(ctx, rule="TLC proves recursive selection equal to the address reading (the node whose key path through tables only "
                       "equals the path; addresses unique) for every TOML tree of depth <= 2 over two keys with leaves, arrays and tables "
                       "(403 trees) x every path of <= 3 keys over three (40), and prints each case; each is replayed into "
                       "toml_select_value with Vec<&str> / Vec<String> / slice key containers, also in two steps; every libcnb::Error "
                       "kind of the model goes through on_error and must reach the handler the model names", exhaustive=True)


def replay(ctx, path):
    raise vlib.ToolError("replay: the case file holds tree and path; call toml_select_value")
