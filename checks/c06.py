from checks import runtime_common


def run(ctx):
    return runtime_common.run(ctx, "C06")


def replay(ctx, path):
    return runtime_common.replay(ctx, path)
