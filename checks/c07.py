"""C07: spec/Documents.tla (builders as state machines) + independent decoding with Python tomllib."""
import json
import os
import shutil
import subprocess
import vlib


def run(ctx):
    vlib.cargo_build(ctx)
    quick = ctx.tier == "quick"
    r = vlib.tlc(ctx, "Documents.tla", "Documents_q.cfg" if quick else "Documents_t.cfg", "builders", workers=1, env={"JAVA_TOOL_OPTIONS": "-Xss64m"}, timeout=3000)
    if not r["ok"]:
        if any("Assumption" in e for e in r["errors"]):
            ctx.violation("spec:or grouping", "accumulator machine and declarative grouping disagree inside the specification", {"tlc_output": r["out"]}, "tlc")
        else:
            raise vlib.ToolError(f"TLC failed on Documents.tla: {r['errors'][:2]}")
    outdir = os.path.join(vlib.SCRATCH, "docs")
    shutil.rmtree(outdir, ignore_errors=True)
    s = vlib.harness(ctx, "doc_write", [r["out"], outdir], env={"VERIF_DOCS": "400" if quick else "4000"}, timeout=3600)
    os.remove(r["out"])
    vlib.take_summary(ctx, s, "doc_write")
    p = subprocess.run(["python3", os.path.join(vlib.ROOT, "tools", "toml_check.py"), outdir], stdout=subprocess.PIPE, stderr=subprocess.PIPE, text=True, timeout=3600)
    line = next((l for l in p.stdout.splitlines() if l.startswith("SUMMARY ")), None)
    if line is None:
        raise vlib.ToolError("toml_check.py failed: " + p.stderr[-800:])
    t = json.loads(line[8:])
    ctx.note(f"toml_check: {t['evaluations']} files, {t['mismatches_total']} mismatches")
    if t["evaluations"] < 5000 or t["evaluations"] != s["extra"]["files"]:
        raise vlib.ToolError(f"file count mismatch: {t['evaluations']} decoded vs {s['extra']['files']} written")
    for m in t["mismatches"]:
        ctx.violation(m["signature"], m["detail"], m["case"], "toml_check")
    shutil.rmtree(outdir, ignore_errors=True)
    ctx.add("evaluations", t["evaluations"])
    ctx.add("distinct_nontrivial", t["evaluations"])
    ctx.cov["kinds"] = t["extra"]["kinds"]
    ctx.sample({"kinds": t["extra"]["kinds"]})
    ctx.assumptions += ["Python 3.11 tomllib is the independent TOML 1.0 reader; CNB field names and defaults are applied in tools/toml_check.py",
                        "payload tokens are mapped to strings with quotes, backslashes, control characters, CR/LF, Unicode and empty strings; metadata "
                        "tables are generated with every TOML value kind (strings, integers incl. i64 bounds, floats incl. inf, booleans, all four "
                        "datetime kinds, arrays, nested tables, awkward keys)",
                        "package descriptor URIs are constructed by parsing lower-case-scheme URI texts (uriparse canonicalises the scheme's "
                        "case at construction, which is not a property of the writer); hosts, dot segments and percent escapes are deliberately "
                        "not in RFC 3986 normal form and must be written as constructed; a working directory that is not UTF-8 must make the "
                        "write fail",
                        "the TLA+ part decides structure (order preservation, or-grouping incl. empty groups, last-write-wins of process options); "
                        "escaping fidelity is decided by the independent decoder"]
    return vlib.finish(ctx, rule="TLC enumerates every BuildPlanBuilder call sequence of length <= 5 (thorough 6) over {provides x2, requires, requires with "
                       "metadata, or}, every ProcessBuilder sequence <= 4 (5) and every LaunchBuilder sequence <= 4 (5), proving the accumulator machine "
                       "equal to the declarative grouping; each sequence is run on the real builders and written with write_toml_file; plus 400 (4000) "
                       "seeded layer content metadata / store / package descriptor / exec.d-output (through fd 3 of a helper process) documents; every "
                       "file is decoded by tomllib and compared; types with Deserialize are read back with libcnb.", exhaustive=True)


def replay(ctx, path):
    raise vlib.ToolError("replay: see the recorded file text and intended document in the case file")
