"""X05 (extension, not a listed property): spec/PlatformNames.tla bound to FromStr / Display /
Deserialize / Serialize of libherokubuildpack::inventory::artifact::{Os, Arch}."""
import os
import vlib


def run(ctx):
    vlib.cargo_build(ctx)
    r = vlib.tlc(ctx, "PlatformNames.tla", "PlatformNames.cfg", "names", workers=1, timeout=600)
    if not r["ok"]:
        if any("Assumption" in e for e in r["errors"]):
            ctx.violation("spec:name laws", "the name tables of the specification break a law (round trip, alias uniqueness, disjoint kinds)", {"tlc_output": r["out"]}, "tlc")
            return vlib.finish(ctx, rule="-", exhaustive=True)
        raise vlib.ToolError(f"TLC failed on PlatformNames.tla: {r['errors'][:2]}")
    s = vlib.harness(ctx, "names_replay", [r["out"]], timeout=600)
    os.remove(r["out"])
    x = s["extra"]
    if s["evaluations"] < 60 or x["accepted_by_from_str"] != 7 or x["accepted_by_deserialize"] != 4 or x["inventory_documents_read"] != 4:
        raise vlib.ToolError(f"unexpected case counts: {s['evaluations']} {x}")
    vlib.take_summary(ctx, s, "names_replay")
    ctx.add("evaluations", s["evaluations"])
    ctx.add("distinct_nontrivial", s["distinct_nontrivial"])
    ctx.cov.update(x)
    return vlib.finish(ctx, rule="TLC checks the laws of the name tables (every canonical name reads back to its value under FromStr and under "
                       "Deserialize; an alias names one value and is no canonical name; the kinds share no accepted string; every near miss "
                       "is refused) and prints every (kind, string) case over names, aliases and near misses; each is replayed into "
                       "FromStr (value and refusal text), Display, Serialize, Deserialize from TOML and JSON, and into a whole inventory "
                       "document, which must be read exactly when the model decodes the string and must survive rendering and parsing",
                       exhaustive=True)


def replay(ctx, path):
    raise vlib.ToolError("replay: the case file holds kind and string; call str::parse::<Os|Arch>")
