"""C13 / C14: spec/Packaging.tla bound to libcnb-package."""
import json
import os
import vlib

XSS = {"JAVA_TOOL_OPTIONS": "-Xss64m"}


def _assume_run(ctx, cfg, name, what):
    r = vlib.tlc(ctx, "Packaging.tla", cfg, name, workers=4, env=XSS, timeout=3000, heap="12g")
    if not r["ok"]:
        if r["violated"] or any("Assumption" in e for e in r["errors"]):
            ctx.violation(f"spec:{what}", f"TLC: {r['violated'] or r['errors'][:1]}", {"tlc_output": r["out"]}, "tlc")
        else:
            raise vlib.ToolError(f"TLC failed on {what}: {r['errors'][:2]}")
    return r


def _validate(ctx, trace, label):
    r = vlib.tlc(ctx, "Packaging.tla", "Packaging_trace.cfg", "trace-" + label, workers=1, env=dict(XSS, TRACE=trace), timeout=1800, heap="6g")
    bad = None
    with open(r["out"], errors="replace") as f:
        for line in f:
            if "TRACE_MISMATCH" in line:
                bad = int(line.split(",")[1].strip(" >\n"))
    if bad is None and not r["ok"]:
        raise vlib.ToolError(f"TLC failed on the {label} trace: {r['errors'][:2]}")
    return bad


def _selftest(ctx, trace, mutate, label):
    lines = open(trace).read().splitlines()
    evs = [json.loads(x) for x in lines]
    i = mutate(evs)
    bad = os.path.join(os.path.dirname(trace), "corrupted.ndjson")
    vlib.write_ndjson(bad, evs)
    got = _validate(ctx, bad, label + "-selftest")
    if got != i + 1:
        raise vlib.ToolError(f"binding self-test failed: corrupted event {i + 1}, TLC reported {got}")
    ctx.cov["binding_selftest"] = f"corrupted event {i + 1} rejected"


def command_orders(ctx, n_ws):
    """the order in which the real `cargo libcnb package` packages: random composite-only workspaces whose
    buildpack ids / directory names sort in an order unrelated to the dependency order; the printed
    `[i/n] Building <id>` sequence is recorded (also when the command fails part-way: kind order-prefix)"""
    import random
    import re
    import shutil
    from concurrent.futures import ThreadPoolExecutor
    from checks import c12, c15
    cargo_libcnb = c15.build_cargo_libcnb(ctx)
    so = c12.build_shim()
    env = dict(os.environ, CARGO=shutil.which("cargo"), CARGO_NET_OFFLINE="true")
    env.pop("CI", None)
    rng = random.Random(ctx.seed * 7919 + 13)
    base = os.path.join(vlib.SCRATCH, f"c13-cmd-{os.getpid()}")
    shutil.rmtree(base, ignore_errors=True)
    os.makedirs(base)
    cases = []
    for i in range(n_ws):
        n = rng.randint(2, 7)
        names = rng.sample(["a", "b", "c", "d", "e", "f", "g", "h", "m", "z"], n)
        topo = names[:]
        rng.shuffle(topo)          # dependency order is independent of the lexicographic order of the ids
        deps = {x: [] for x in names}
        for k, x in enumerate(topo):
            for y in topo[:k]:
                if rng.random() < (0.6 if k == len(topo) - 1 else 0.4):
                    deps[x].append(y)
            rng.shuffle(deps[x])
        dirs = {}
        pool = [f"{p}{q}" for p in ("", "k/", "k/l/", "y/") for q in ("p1", "p2", "p3", "p4", "p5", "p6", "p7")]
        for x, d in zip(names, rng.sample(pool, n)):
            dirs[x] = d
        cwd = "" if i % 3 else dirs[rng.choice(names)]
        cases.append({"i": i, "deps": deps, "dirs": dirs, "cwd": cwd})

    def one(c):
        root = os.path.join(base, str(c["i"]))
        os.makedirs(root)
        open(os.path.join(root, "Cargo.toml"), "w").write('[workspace]\nresolver = "2"\nmembers = []\n')
        open(os.path.join(root, ".ignore"), "w").write("packaged/\n")
        for x, d in c["dirs"].items():
            p = os.path.join(root, d)
            os.makedirs(p)
            open(os.path.join(p, "buildpack.toml"), "w").write(
                f'api = "0.10"\n\n[buildpack]\nid = "v/{x}"\nversion = "1.0.0"\n\n[[order]]\n[[order.group]]\nid = "x/y"\nversion = "1.0.0"\n')
            open(os.path.join(p, "package.toml"), "w").write(
                '[buildpack]\nuri = "."\n' + "".join(f'\n[[dependencies]]\nuri = "libcnb:v/{y}"\n' for y in c["deps"][x]))
        # the order is observed at the file system (first call beneath each buildpack's output directory, logged by
        # the LD_PRELOAD shim in log-only mode), so it does not depend on the wording of the progress messages
        out = os.path.join(root, "packaged")
        logf = os.path.join(root, "calls.log")
        penv = dict(env, LD_PRELOAD=so, FAULT_PREFIX=out, FAULT_ACTIVE="1", FAULT_K="0", FAULT_LOG=logf)
        pr = c15.sh([cargo_libcnb, "libcnb", "package", "--target", c15.TARGET, "--no-cross-compile-assistance"], cwd=os.path.join(root, c["cwd"]), env=penv)
        order = []
        if os.path.exists(logf):
            for line in open(logf, errors="replace"):
                m = re.search(r"/packaged/[^/]+/[^/]+/v_([a-z])(/|$)", line.rstrip("\n"))
                if m and m.group(1) not in order:
                    order.append(m.group(1))
        printed = [m.group(1)[2:] for m in re.finditer(r"\[\d+/\d+\] Building (\S+)", pr.stderr)]
        shutil.rmtree(root, ignore_errors=True)
        return c, pr.returncode, order, pr.stderr[-300:], printed

    events = []
    with ThreadPoolExecutor(max_workers=16) as ex:
        for c, rc, order, err, printed in ex.map(one, cases):
            roots = sorted(c["dirs"]) if c["cwd"] == "" else [x for x, d in c["dirs"].items() if d == c["cwd"]]
            events.append({"kind": "order" if rc == 0 else "order-prefix", "deps": c["deps"], "roots": roots, "order": order, "ok": True,
                           "rc": rc, "stderr": "" if rc == 0 else err, "printed": printed})
    shutil.rmtree(base, ignore_errors=True)
    return events


def run_c13(ctx):
    vlib.cargo_build(ctx)
    quick = ctx.tier == "quick"
    m = _assume_run(ctx, "Packaging_graphlaw_q.cfg" if quick else "Packaging_graphlaw_t.cfg", "dfs-law", "DFS post-order refines the emit machine")
    cases = _assume_run(ctx, "Packaging_graphcases_q.cfg" if quick else "Packaging_graphcases_t.cfg", "graph-cases", "emit machine")
    ctx.add("states", cases["distinct"] + m["distinct"])
    ctx.add("transitions", cases["generated"] + m["generated"])
    wd = ctx.workdir("graph")
    trace = os.path.join(wd, "orders.ndjson")
    s = vlib.harness(ctx, "pkg_replay", ["graph", cases["out"], trace], env={"VERIF_RANDOM_DAGS": "60" if quick else "2000"}, timeout=7200)
    os.remove(cases["out"])
    if s["evaluations"] < 1000:
        raise vlib.ToolError("too few graph cases")
    vlib.take_summary(ctx, s, "pkg_replay:graph")
    bad = _validate(ctx, trace, "orders")
    if bad is not None:
        ev = json.loads(open(trace).read().splitlines()[bad - 1])
        if ev["kind"] == "dangling":
            ctx.violation("dangling dependency accepted", f"a dependency of {ev['who']} on {ev['what']}, which is not a buildpack of the workspace, "
                          f"was not reported", {"event": ev}, "pkg_trace")
        else:
            ctx.violation("build order invalid", f"graph {ev['deps']} roots {ev['roots']}: order {ev['order']} (ok={ev['ok']}) is not a "
                          "dependency order of exactly the closure", {"event": ev}, "pkg_trace")
    else:
        def mut(evs):
            i = next(k for k in range(len(evs) // 2, len(evs)) if evs[k]["kind"] == "order" and len(evs[k]["order"]) >= 2)
            evs[i]["order"] = list(reversed(evs[i]["order"]))
            return i
        _selftest(ctx, trace, mut, "orders")
        ctx.add("traces_validated_against_impl", s["evaluations"])
    # the same law one level up: the order in which `cargo libcnb package` itself packages
    cmd = command_orders(ctx, 120 if quick else 1500)
    # (the observation itself must work: commands that succeeded must have been seen touching their output)
    blind = [e for e in cmd if e["rc"] == 0 and not e["order"]]
    if len(blind) > len(cmd) // 10:
        raise vlib.ToolError(f"the file-system observer saw nothing for {len(blind)} successful runs: {blind[:1]}")
    ctrace = os.path.join(wd, "command-orders.ndjson")
    vlib.write_ndjson(ctrace, cmd)
    bad = _validate(ctx, ctrace, "command-orders")
    if bad is not None:
        ev = cmd[bad - 1]
        ctx.violation("command packages a buildpack before its dependency", f"`cargo libcnb package` with dependencies {ev['deps']} (selected {ev['roots']}) "
                      f"packaged in the order {ev['order']}" + (f" and then failed: {ev['stderr']}" if ev["rc"] else ""), {"event": ev}, "pkg_trace")
    else:
        ctx.add("traces_validated_against_impl", len(cmd))
    ctx.cov["command_orders"] = len(cmd)
    ctx.cov["command_orders_complete"] = sum(1 for e in cmd if e["kind"] == "order")
    ctx.add("evaluations", s["evaluations"] + len(cmd))
    ctx.add("distinct_nontrivial", s["distinct_nontrivial"] + sum(1 for e in cmd if len(e["order"]) >= 2))
    ctx.assumptions += ["graphs are written to disk as real buildpack directories (composite with package.toml libcnb: dependencies, "
                        "libcnb.rs leaves, a shell buildpack and a non-buildpack directory that must be ignored) and read back through "
                        "build_libcnb_buildpacks_dependency_graph",
                        "the recorded order is validated against the abstract emit machine only, so any correct algorithm passes"]
    return vlib.finish(ctx, rule="every labelled DAG on <= 4 nodes (543) x every ordered duplicate-free root selection (64) [thorough: all "
                       "29 281 DAGs on 5 nodes x 9 selections] built as a real workspace; get_dependencies' order validated by TLC "
                       "(ValidOrder: no duplicates, exactly the closure, dependencies first); per DAG two workspaces with a dangling "
                       "dependency must fail; plus 60 (thorough 2000) seeded random DAGs on 6-12 nodes with 6 random root selections each. "
                       "Also 120 (thorough 1500) random composite-only workspaces of 2-7 buildpacks (ids and directories sorting independently "
                       "of the dependency order) packaged by the real `cargo libcnb package` from the root / from one buildpack's directory: "
                       "the printed build order is validated by TLC (a complete valid order, or, when the command failed, a prefix of a "
                       "behaviour of the emit machine). Non-trivial: order of length >= 2; distinct = (graph, roots).", exhaustive=True)


def run_c14(ctx):
    vlib.cargo_build(ctx)
    quick = ctx.tier == "quick"
    r = _assume_run(ctx, "Packaging_path_q.cfg" if quick else "Packaging_path_t.cfg", "paths", "push/pop normalisation = POSIX lexical resolution")
    wd = ctx.workdir("paths")
    trace = os.path.join(wd, "paths.ndjson")
    s = vlib.harness(ctx, "pkg_replay", ["path", r["out"], trace])
    vlib.take_summary(ctx, s, "pkg_replay:path")
    d = vlib.harness(ctx, "pkg_replay", ["deps", r["out"]])
    vlib.take_summary(ctx, d, "pkg_replay:deps")
    os.remove(r["out"])
    if s["evaluations"] < 1000 or d["evaluations"] < 50:
        raise vlib.ToolError("too few cases")
    bad = _validate(ctx, trace, "paths")
    if bad is not None:
        ev = json.loads(open(trace).read().splitlines()[bad - 1])
        ctx.violation("relative path normalised wrongly", f"{'/'.join(ev['segs'])} relative to /{'/'.join(ev['parent'])} became "
                      f"/{'/'.join(ev['result'])}", {"event": ev}, "pkg_trace")
    else:
        def mut(evs):
            i = next(k for k in range(len(evs) // 2, len(evs)) if len(evs[k]["result"]) >= 1)
            evs[i]["result"] = evs[i]["result"][:-1]
            return i
        _selftest(ctx, trace, mut, "paths")
        ctx.add("traces_validated_against_impl", s["evaluations"])
    ctx.add("evaluations", s["evaluations"] + d["evaluations"])
    ctx.add("distinct_nontrivial", s["distinct_nontrivial"] + d["distinct_nontrivial"])
    ctx.assumptions += ["relative paths are sequences over {a, b, ., .., empty segment}; URI-unsafe characters are out of scope",
                        "paths climbing above the file-system root are produced by prefixing depth+1 '..' segments"]
    return vlib.finish(ctx, rule="TLC proves push/pop normalisation equal to right-to-left POSIX resolution for all relative paths of <= 4 "
                       "(thorough 6) segments x 3 parents and prints each path; each is put into a real composite package.toml at 3 "
                       "nesting depths (and once climbing above the root), package_composite_buildpack is run and TLC recomputes every "
                       "written path; all dependency-kind lists of length <= 2 (thorough 3) over 7 URI kinds x platform x buildpack "
                       "uri variants are packaged and compared (count, order, verbatim copies, replaced ids, error on unknown id). "
                       "Non-trivial: path has a dot/empty segment, list has >= 2 dependencies.", exhaustive=True)


def replay(ctx, path):
    raise vlib.ToolError("replay: re-run `harness/target/debug/pkg_replay` on the recorded case (see the case file)")
