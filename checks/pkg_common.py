"""C13 / C14: spec/Packaging.tla bound to libcnb-package."""
import json
import os
import vlib

XSS = {"JAVA_TOOL_OPTIONS": "-Xss64m"}


def _assume_run(ctx, cfg, name, what):
    r = vlib.tlc(ctx, "Packaging.tla", cfg, name, workers=4, env=XSS, timeout=3000, heap="12g")
    if not r["ok"]:
        if r["violated"] or any("Assumption" in e for e in r["errors"]):
            ctx.violation(f"spec:{what}", f"TLC: {r['violated'] or r['errors'][:1]}", {"tlc_output": r["out"]}, "tlc")
        else:
            raise vlib.ToolError(f"TLC failed on {what}: {r['errors'][:2]}")
    return r


def _validate(ctx, trace, label):
    r = vlib.tlc(ctx, "Packaging.tla", "Packaging_trace.cfg", "trace-" + label, workers=1, env=dict(XSS, TRACE=trace), timeout=1800, heap="6g")
    bad = None
    with open(r["out"], errors="replace") as f:
        for line in f:
            if "TRACE_MISMATCH" in line:
                bad = int(line.split(",")[1].strip(" >\n"))
    if bad is None and not r["ok"]:
        raise vlib.ToolError(f"TLC failed on the {label} trace: {r['errors'][:2]}")
    return bad


def _selftest(ctx, trace, mutate, label):
    lines = open(trace).read().splitlines()
    evs = [json.loads(x) for x in lines]
    i = mutate(evs)
    bad = os.path.join(os.path.dirname(trace), "corrupted.ndjson")
    vlib.write_ndjson(bad, evs)
    got = _validate(ctx, bad, label + "-selftest")
    if got != i + 1:
        raise vlib.ToolError(f"binding self-test failed: corrupted event {i + 1}, TLC reported {got}")
    ctx.cov["binding_selftest"] = f"corrupted event {i + 1} rejected"


def run_c13(ctx):
    vlib.cargo_build(ctx)
    quick = ctx.tier == "quick"
    m = _assume_run(ctx, "Packaging_graphlaw_q.cfg" if quick else "Packaging_graphlaw_t.cfg", "dfs-law", "DFS post-order refines the emit machine")
    cases = _assume_run(ctx, "Packaging_graphcases_q.cfg" if quick else "Packaging_graphcases_t.cfg", "graph-cases", "emit machine")
    ctx.add("states", cases["distinct"] + m["distinct"])
    ctx.add("transitions", cases["generated"] + m["generated"])
    wd = ctx.workdir("graph")
    trace = os.path.join(wd, "orders.ndjson")
    s = vlib.harness(ctx, "pkg_replay", ["graph", cases["out"], trace], env={"VERIF_RANDOM_DAGS": "60" if quick else "2000"}, timeout=7200)
    os.remove(cases["out"])
    if s["evaluations"] < 1000:
        raise vlib.ToolError("too few graph cases")
    vlib.take_summary(ctx, s, "pkg_replay:graph")
    bad = _validate(ctx, trace, "orders")
    if bad is not None:
        ev = json.loads(open(trace).read().splitlines()[bad - 1])
        if ev["kind"] == "dangling":
            ctx.violation("dangling dependency accepted", f"a dependency of {ev['who']} on {ev['what']}, which is not a buildpack of the workspace, "
                          f"was not reported", {"event": ev}, "pkg_trace")
        else:
            ctx.violation("build order invalid", f"graph {ev['deps']} roots {ev['roots']}: order {ev['order']} (ok={ev['ok']}) is not a "
                          "dependency order of exactly the closure", {"event": ev}, "pkg_trace")
    else:
        def mut(evs):
            i = next(k for k in range(len(evs) // 2, len(evs)) if evs[k]["kind"] == "order" and len(evs[k]["order"]) >= 2)
            evs[i]["order"] = list(reversed(evs[i]["order"]))
            return i
        _selftest(ctx, trace, mut, "orders")
        ctx.add("traces_validated_against_impl", s["evaluations"])
    ctx.add("evaluations", s["evaluations"])
    ctx.add("distinct_nontrivial", s["distinct_nontrivial"])
    ctx.assumptions += ["graphs are written to disk as real buildpack directories (composite with package.toml libcnb: dependencies, "
                        "libcnb.rs leaves, a shell buildpack and a non-buildpack directory that must be ignored) and read back through "
                        "build_libcnb_buildpacks_dependency_graph",
                        "the recorded order is validated against the abstract emit machine only, so any correct algorithm passes"]
    return vlib.finish(ctx, rule="every labelled DAG on <= 4 nodes (543) x every ordered duplicate-free root selection (64) [thorough: all "
                       "29 281 DAGs on 5 nodes x 9 selections] built as a real workspace; get_dependencies' order validated by TLC "
                       "(ValidOrder: no duplicates, exactly the closure, dependencies first); per DAG two workspaces with a dangling "
                       "dependency must fail; plus 60 (thorough 2000) seeded random DAGs on 6-12 nodes with 6 random root selections each. "
                       "Non-trivial: order of length >= 2; distinct = (graph, roots).", exhaustive=True)


def run_c14(ctx):
    vlib.cargo_build(ctx)
    quick = ctx.tier == "quick"
    r = _assume_run(ctx, "Packaging_path_q.cfg" if quick else "Packaging_path_t.cfg", "paths", "push/pop normalisation = POSIX lexical resolution")
    wd = ctx.workdir("paths")
    trace = os.path.join(wd, "paths.ndjson")
    s = vlib.harness(ctx, "pkg_replay", ["path", r["out"], trace])
    vlib.take_summary(ctx, s, "pkg_replay:path")
    d = vlib.harness(ctx, "pkg_replay", ["deps", r["out"]])
    vlib.take_summary(ctx, d, "pkg_replay:deps")
    os.remove(r["out"])
    if s["evaluations"] < 1000 or d["evaluations"] < 50:
        raise vlib.ToolError("too few cases")
    bad = _validate(ctx, trace, "paths")
    if bad is not None:
        ev = json.loads(open(trace).read().splitlines()[bad - 1])
        ctx.violation("relative path normalised wrongly", f"{'/'.join(ev['segs'])} relative to /{'/'.join(ev['parent'])} became "
                      f"/{'/'.join(ev['result'])}", {"event": ev}, "pkg_trace")
    else:
        def mut(evs):
            i = next(k for k in range(len(evs) // 2, len(evs)) if len(evs[k]["result"]) >= 1)
            evs[i]["result"] = evs[i]["result"][:-1]
            return i
        _selftest(ctx, trace, mut, "paths")
        ctx.add("traces_validated_against_impl", s["evaluations"])
    ctx.add("evaluations", s["evaluations"] + d["evaluations"])
    ctx.add("distinct_nontrivial", s["distinct_nontrivial"] + d["distinct_nontrivial"])
    ctx.assumptions += ["relative paths are sequences over {a, b, ., .., empty segment}; URI-unsafe characters are out of scope",
                        "paths climbing above the file-system root are produced by prefixing depth+1 '..' segments"]
    return vlib.finish(ctx, rule="TLC proves push/pop normalisation equal to right-to-left POSIX resolution for all relative paths of <= 4 "
                       "(thorough 6) segments x 3 parents and prints each path; each is put into a real composite package.toml at 3 "
                       "nesting depths (and once climbing above the root), package_composite_buildpack is run and TLC recomputes every "
                       "written path; all dependency-kind lists of length <= 2 (thorough 3) over 7 URI kinds x platform x buildpack "
                       "uri variants are packaged and compared (count, order, verbatim copies, replaced ids, error on unknown id). "
                       "Non-trivial: path has a dot/empty segment, list has >= 2 dependencies.", exhaustive=True)


def replay(ctx, path):
    raise vlib.ToolError("replay: re-run `harness/target/debug/pkg_replay` on the recorded case (see the case file)")
