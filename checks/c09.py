"""C09: spec/Grammar.tla bound to the validated string types and versions of libcnb-data."""
import json
import os
import vlib


def run(ctx):
    vlib.cargo_build(ctx)
    quick = ctx.tier == "quick"
    r = vlib.tlc(ctx, "Grammar.tla", "Grammar_q.cfg" if quick else "Grammar_t.cfg", "grammar", workers=1, env={"JAVA_TOOL_OPTIONS": "-Xss64m"}, timeout=3000)
    if not r["ok"]:
        raise vlib.ToolError(f"TLC failed on Grammar.tla (recogniser examples?): {r['errors'][:2]}")
    wd = ctx.workdir("grammar")
    trace = os.path.join(wd, "random.ndjson")
    s = vlib.harness(ctx, "grammar_replay", [r["out"]] + ([] if quick else ["--all-macros"]),
                     env={"VERIF_GRAMMAR_TRACE": trace, "VERIF_GRAMMAR_RANDOM": "3000" if quick else "60000"}, timeout=7200)
    os.remove(r["out"])
    if s["extra"]["name_strings"] < 2000 or s["extra"]["version_strings"] < 20000 or s["extra"]["macro_invocations"] < 1000:
        raise vlib.ToolError(f"too few cases: {s['extra']}")
    mv = s["extra"]["macro_verdicts"]
    # (vacuity guard - only meaningful when the macros agree with the specification: a tree on which every
    #  literal is accepted, or every one rejected, shows up as disagreements instead)
    if not s["mismatches"] and (mv.get("accepted", 0) == 0 or mv.get("rejected", 0) == 0):
        raise vlib.ToolError(f"vacuity guard: the literal macros were not exercised both ways: {mv}")
    for m in s["mismatches"]:
        if m["signature"].startswith("HARNESS"):
            raise vlib.ToolError(m["detail"][:600])
    vlib.take_summary(ctx, s, "grammar_replay")
    # direction B: random longer strings and u64 triples, judged by TLC with the same recognisers
    t = vlib.tlc(ctx, "Grammar.tla", "Grammar_trace.cfg", "trace", workers=1, env={"JAVA_TOOL_OPTIONS": "-Xss64m", "TRACE": trace}, timeout=3000)
    bad = [l for l in open(t["out"], errors="replace") if "TRACE_MISMATCH" in l]
    if bad:
        import json
        i = int(bad[0].split(",")[1].strip(" >\n"))
        ev = json.loads(open(trace).read().splitlines()[i - 1])
        ctx.violation("random string judged differently from the specification", f"{''.join(ev['s'])!r}: {ev}", {"event": ev}, "grammar_trace")
    elif not t["ok"]:
        raise vlib.ToolError(f"TLC failed on the random grammar trace: {t['errors'][:2]}")
    else:
        import json
        evs = [json.loads(x) for x in open(trace).read().splitlines()]
        k = next(j for j in range(len(evs) // 4, len(evs)) if evs[j]["kind"] == "name" and evs[j]["key"])
        evs[k]["key"] = False
        badf = os.path.join(wd, "corrupted.ndjson")
        vlib.write_ndjson(badf, evs)
        t2 = vlib.tlc(ctx, "Grammar.tla", "Grammar_trace.cfg", "selftest", workers=1, env={"JAVA_TOOL_OPTIONS": "-Xss64m", "TRACE": badf}, timeout=3000)
        if not any(f"\"TRACE_MISMATCH\", {k + 1}>>" in l for l in open(t2["out"], errors="replace")):
            raise vlib.ToolError("binding self-test failed: a flipped verdict was not rejected")
        ctx.cov["binding_selftest"] = f"flipped verdict of record {k + 1} rejected"
        ctx.add("traces_validated_against_impl", 1)
        ctx.cov["random_strings_validated"] = s["extra"].get("random_strings", 0)
    ctx.add("evaluations", s["evaluations"])
    ctx.add("distinct_nontrivial", s["distinct_nontrivial"])
    ctx.cov.update({k: s["extra"][k] for k in ("name_strings", "version_strings", "macro_invocations", "macro_verdicts")})
    ctx.assumptions += [
        "three-valued verdicts: non-ASCII letters in ids/process types, layer names containing '/', NUL or a line break, and version "
        "components beyond u64 are don't-care (the CNB spec is silent) but all entry points must agree on them",
        "exec.d output keys follow libcnb's documented rule (ASCII letters, digits, '_' and '-')",
        "compile-time macros are checked by one `cargo check` of a generated crate; an error whose expansion chain ends at line n "
        "means invocation n was rejected",
    ]
    return vlib.finish(ctx, rule="TLC enumerates every string of length <= 3 (thorough 4) over one representative per character class "
                       "{lower, upper, digit, '.', '_', '-', '/', '+', space, newline, non-ASCII letter, NUL, '!'} plus every reserved "
                       "word with each one-character prefix/suffix/deletion/substitution, and every version string of length <= 6 over "
                       "{0,1,.,+,space} and <= 4 over {0,1,9,.,+,-,space,a} (thorough 7/5), with verdicts from recognisers written from "
                       "the CNB text; each goes through parse/TryFrom, TOML deserialisation, Display/serialise round trip and the literal "
                       "macros (quick: all strings of length <= 2, all reserved-word neighbours, 20% of the rest); u64 boundary values "
                       "are added. distinct_nontrivial = distinct strings.", exhaustive=True)


def replay(ctx, path):
    raise vlib.ToolError("replay: parse the string in the case file with the named type")
