"""X01 (extension, not a listed property): spec/MoveContents.tla bound to
libherokubuildpack::fs::move_directory_contents."""
import os
import vlib


def run(ctx):
    vlib.cargo_build(ctx)
    r = vlib.tlc(ctx, "MoveContents.tla", "MoveContents.cfg", "move", workers=4, timeout=900, coverage=True)
    vlib.tlc_must_pass(ctx, r, "MoveContents model")
    ctx.add("states", r["distinct"])
    ctx.add("transitions", r["generated"])
    s = vlib.harness(ctx, "move_replay", [r["out"]], timeout=1800)
    os.remove(r["out"])
    if s["evaluations"] < 15000 or s["extra"]["runs_ending_in_error"] < 1000:
        raise vlib.ToolError(f"too few cases: {s['evaluations']} {s['extra']}")
    vlib.take_summary(ctx, s, "move_replay")
    ctx.add("evaluations", s["evaluations"])
    ctx.add("distinct_nontrivial", s["distinct_nontrivial"])
    ctx.add("traces_validated_against_impl", s["evaluations"])
    ctx.cov.update(s["extra"])
    return vlib.finish(ctx, rule="TLC checks Complete, FrameDst, NothingLost, ErrJustified, FailedTargetIntact in every state of the "
                       "rename-per-entry model (3 names x {absent, file, symlink, empty dir, non-empty dir} in src and dst, either "
                       "directory possibly missing, every read_dir order, stop at the first failing rename); every initial pair is "
                       "materialised and moved by the real function, and the resulting pair + verdict must be a terminal state the "
                       "model reaches from it", exhaustive=True)


def replay(ctx, path):
    raise vlib.ToolError("replay: materialise the case's src0/dst0 and call move_directory_contents")
