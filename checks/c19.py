"""C19: spec/Streams.tla (child with two bounded pipes, two copier threads) and spec/MappedWrite.tla
(marker-splitting writer) bound to libherokubuildpack::command / ::write."""
import json
import os
import vlib

XSS = {"JAVA_TOOL_OPTIONS": "-Xss64m"}


def run(ctx):
    vlib.cargo_build(ctx)
    quick = ctx.tier == "quick"
    st = vlib.tlc(ctx, "StreamsMC.tla", "Streams.cfg" if quick else "Streams_t.cfg", "streams", workers=4, timeout=6000, heap="12g")
    vlib.tlc_must_pass(ctx, st, "Streams model, spawn API (no deadlock, termination, delivery, returns once both streams close)")
    so = vlib.tlc(ctx, "StreamsMC.tla", "Streams_output.cfg" if quick else "Streams_output_t.cfg", "streams-output", workers=4, timeout=6000, heap="12g")
    vlib.tlc_must_pass(ctx, so, "Streams model, output API")
    os.remove(so["out"])
    neg = vlib.tlc(ctx, "StreamsMC.tla", "Streams_negative.cfg", "sequential-control", workers=2, timeout=600)
    if not (neg["violated"] and "Deadlock" in neg["violated"]):
        raise vlib.ToolError("vacuity guard: the sequential copier variant does not deadlock in the model")
    neg = vlib.tlc(ctx, "StreamsMC.tla", "Streams_neg_write.cfg", "single-write-control", workers=2, timeout=600)
    if not (neg["violated"] and ("InOrder" in neg["violated"] or "Delivered" in neg["violated"])):
        raise vlib.ToolError(f"vacuity guard: a copier that calls write once per chunk loses nothing in the model ({neg['violated']})")
    neg = vlib.tlc(ctx, "StreamsMC.tla", "Streams_neg_wait.cfg", "spawn-waits-control", workers=2, timeout=600)
    if not (neg["violated"] and "Returns" in neg["violated"]):
        raise vlib.ToolError(f"vacuity guard: a spawn API that waits for the child's exit satisfies Returns in the model ({neg['violated']})")
    ctx.add("states", st["distinct"] + so["distinct"])
    ctx.add("transitions", st["generated"] + so["generated"])
    mw = vlib.tlc(ctx, "MappedWrite.tla", "MappedWrite.cfg" if quick else "MappedWrite_t.cfg", "mapped", workers=1, env=XSS, timeout=3000)
    if not mw["ok"]:
        if any("Assumption" in e for e in mw["errors"]):
            ctx.violation("spec:chunking", "the buffer machine depends on chunking inside the specification", {"tlc_output": mw["out"]}, "tlc")
        else:
            raise vlib.ToolError(f"TLC failed on MappedWrite.tla: {mw['errors'][:2]}")
    s1 = vlib.harness(ctx, "stream_replay", ["mapped", mw["out"]])
    vlib.take_summary(ctx, s1, "stream_replay:mapped")
    os.remove(mw["out"])
    wd = ctx.workdir("streams")
    trace = os.path.join(wd, "streams.ndjson")
    s2 = vlib.harness(ctx, "stream_replay", ["child", st["out"], trace], timeout=7200)
    vlib.take_summary(ctx, s2, "stream_replay:child")
    os.remove(st["out"])
    if s1["evaluations"] < 1000 or s2["evaluations"] < 300:
        raise vlib.ToolError("too few cases")
    r = vlib.tlc(ctx, "StreamsMC.tla", "Streams_trace.cfg", "trace", workers=1, env=dict(XSS, TRACE=trace), timeout=900)
    bad = None
    for line in open(r["out"], errors="replace"):
        if "TRACE_MISMATCH" in line:
            bad = int(line.split(",")[1].strip(" >\n"))
    if bad is not None:
        ev = json.loads(open(trace).read().splitlines()[bad - 1])
        ctx.violation("stream delivery", f"{ev.get('api')}_and_write_streams, child script {ev['script']} (lingering={ev.get('linger')}, writer accepts "
                      f"{ev.get('writer_cap_bytes') or 'all'} bytes per call): Output/out={ev['out']} err={ev['err']} writers out={ev.get('writer_out')} "
                      f"err={ev.get('writer_err')} done={ev['done']} returned while the child was running={ev.get('returned_before_exit')}", {"event": ev}, "streams_trace")
    elif not r["ok"]:
        raise vlib.ToolError(f"TLC failed on the stream trace: {r['errors'][:2]}")
    else:
        evs = [json.loads(x) for x in open(trace).read().splitlines()]
        k = next(j for j in range(len(evs) // 2, len(evs)) if len(evs[j]["out"]) >= 2)
        evs[k]["out"] = list(reversed(evs[k]["out"]))
        badf = os.path.join(wd, "corrupted.ndjson")
        vlib.write_ndjson(badf, evs)
        r2 = vlib.tlc(ctx, "StreamsMC.tla", "Streams_trace.cfg", "selftest", workers=1, env=dict(XSS, TRACE=badf), timeout=900)
        if not any(f"\"TRACE_MISMATCH\", {k + 1}>>" in l for l in open(r2["out"], errors="replace")):
            raise vlib.ToolError("binding self-test failed: reordered units were not rejected")
        ctx.cov["binding_selftest"] = f"reordered stdout units of record {k + 1} rejected"
        ctx.add("traces_validated_against_impl", len(evs))
    ctx.add("evaluations", s1["evaluations"] + s2["evaluations"])
    ctx.add("distinct_nontrivial", s1["distinct_nontrivial"] + s2["distinct_nontrivial"])
    ctx.assumptions += [
        "child programs are scripts of up to 3 (thorough 4) writes of 0-3 units of 30 000 bytes to stdout/stderr (up to 90 000 bytes per "
        "write, i.e. more than a 64 KiB pipe), run with delays of 0 / 200 us / 2 ms between units; a 30 s watchdog counts as deadlock",
        "model writer capacity 1 = a writer that takes at most 1000 / 7777 / 1 bytes per write call, 3 = takes everything; a lingering child "
        "closes stdout and stderr and then blocks on its standard input, which the harness closes only after the call returned (no timing)",
        "MappedWrite is driven with a prefixing mapper (f(empty) is not empty) through an inner writer that accepts at most 3 bytes per "
        "write call; symbols are 'marker' and 'other byte'",
    ]
    return vlib.finish(ctx, rule="TLC: no deadlock / termination / exact in-order delivery for every script, sequential-copier negative "
                       "control must deadlock, single-write-per-chunk control must lose data, spawn-waits-for-exit control must violate Returns; "
                       "every (script, lingering, writer capacity) case executed by a real child through spawn_and_write_streams, and through "
                       "output_and_write_streams when the child exits by itself (writers and Output decoded to unit ids, validated by TLC; a "
                       "lingering child must still be running when the spawn API returns). TLC: chunking independence for every string over {marker, other} of "
                       "length <= 6 (thorough 8) and every chunking; each replayed into mapped (drop and unwrap), line_mapped and tee with "
                       "the inner bytes compared after every write. Non-trivial: >= 2 chunks / >= 3 units.", exhaustive=True)


def replay(ctx, path):
    raise vlib.ToolError("replay: run harness/target/debug/stream_replay on the recorded case")
