"""C15: `cargo libcnb package` writes complete buildpack directories, also over stale output.

spec/PackagingPipeline.tla: the per-buildpack pipeline (wipe, mkdir, descriptor, main binary,
detect link, additional binaries, package.toml) over an output directory that persists between
runs, with Crash after any step and EditSource between runs; TLC checks CompleteAfterRun and
emits every state an interrupted/earlier run can leave behind. Each such state is seeded into
the real output directory of generated Cargo workspaces and the real cargo-libcnb (built from
/repo) must produce exactly the tree of a fresh packaging run. The build order printed on
stderr is validated against the emit machine of Packaging.tla.
"""
import hashlib
import json
import os
import random
import re
import shutil
import subprocess
import tomllib
import vlib

TARGET = "x86_64-unknown-linux-gnu"   # no musl target is installed in this sandbox (DESIGN §6)


def sh(cmd, cwd=None, env=None, timeout=1800):
    return subprocess.run(cmd, cwd=cwd, env=env, stdout=subprocess.PIPE, stderr=subprocess.PIPE, text=True, timeout=timeout)


def build_cargo_libcnb(ctx):
    tdir = os.path.join(vlib.HARNESS, "target", "repo")
    p = sh(["cargo", "build", "--offline", "--manifest-path", "/repo/libcnb-cargo/Cargo.toml", "--target-dir", tdir],
           env=dict(os.environ, CARGO_NET_OFFLINE="true"))
    if p.returncode != 0:
        raise vlib.ToolError("cannot build cargo-libcnb from /repo: " + p.stderr[-1500:])
    return os.path.join(tdir, "debug", "cargo-libcnb")


class Workspace:
    """A generated Cargo workspace of libcnb.rs buildpacks, composites and a shell buildpack."""

    def __init__(self, root, rng, n_crates, n_composites):
        self.root = root
        self.rng = rng
        shutil.rmtree(root, ignore_errors=True)
        os.makedirs(root)
        self.crates = {}      # id -> dict(dir, pkg, bins, main)
        self.composites = {}  # id -> dict(dir, deps=[(kind, value)])
        members = []
        for i in range(n_crates):
            pkg = f"bp-crate-{i}"
            bid = f"verif/crate-{i}"
            d = os.path.join("buildpacks", pkg) if i % 2 == 0 else os.path.join("nested", "deep", pkg)
            nb = 1 + (i % 3)
            bins = [pkg] + [f"extra-{i}-{k}" for k in range(nb - 1)]
            if nb == 1 and (i // 3) % 2 == 0:
                bins = [f"only-bin-{i}"]   # a single target need not be named like the package
            self.crates[bid] = {"dir": d, "pkg": pkg, "bins": bins, "main": bins[0], "rev": 0}
            members.append(d)
            self._write_crate(bid)
        # a buildpack directory nested inside another buildpack's directory (a composite that keeps one of
        # its members below itself): selecting by directory must pick the innermost one
        self.crates["verif/nested/inner"] = {"dir": os.path.join("outer", "inner"), "pkg": "bp-inner", "bins": ["bp-inner"], "main": "bp-inner", "rev": 0}
        members.append(os.path.join("outer", "inner"))
        self._write_crate("verif/nested/inner")
        ids = list(self.crates)
        self.composites["verif/outer"] = {"dir": "outer", "deps": [("libcnb", ids[0])], "os": "linux"}
        self._write(os.path.join("outer", "buildpack.toml"), f'api = "0.10"\n\n[buildpack]\nid = "verif/outer"\nversion = "0.1.0"\n\n[[order]]\n[[order.group]]\nid = "{ids[0]}"\nversion = "0.0.1"\n')
        self._write(os.path.join("outer", "package.toml"), f'[buildpack]\nuri = "."\n\n[[dependencies]]\nuri = "libcnb:{ids[0]}"\n')
        for j in range(n_composites):
            bid = f"verif/meta-{j}"
            d = os.path.join("meta", f"composite-{j}")
            deps = [("libcnb", rng.choice(ids))]
            if j > 0:
                deps.append(("libcnb", f"verif/meta-{j - 1}"))      # composites may depend on composites
            if len(ids) > 1:
                deps.append(("libcnb", rng.choice(ids)))
            deps.append(("relative", "../../vendor/./some-bp/../other-bp"))
            deps.append(("verbatim", "docker://docker.io/heroku/procfile-cnb:2.0.0"))
            rng.shuffle(deps)
            self.composites[bid] = {"dir": d, "deps": deps, "os": "windows" if j % 2 == 1 else "linux"}
            os.makedirs(os.path.join(root, d))
            self._write(os.path.join(d, "buildpack.toml"),
                        f'api = "0.10"\n\n[buildpack]\nid = "{bid}"\nversion = "0.{j}.0"\n# composite {j}\n\n[[order]]\n[[order.group]]\nid = "{ids[0]}"\nversion = "0.0.1"\n')
            txt = '[buildpack]\nuri = "."\n'
            for kind, v in deps:
                txt += f'\n[[dependencies]]\nuri = "{"libcnb:" + v if kind == "libcnb" else v}"\n'
            if j % 2 == 1:
                txt += '\n[platform]\nos = "windows"\n'
            self._write(os.path.join(d, "package.toml"), txt)
        # a shell buildpack and a directory that only looks interesting: both must be ignored
        os.makedirs(os.path.join(root, "buildpacks", "shell-bp", "bin"))
        self._write("buildpacks/shell-bp/buildpack.toml", 'api = "0.10"\n\n[buildpack]\nid = "verif/shell"\nversion = "1.0.0"\n\n[[targets]]\nos = "linux"\n')
        self._write("buildpacks/shell-bp/bin/build", "#!/bin/sh\n")
        # (default-members: what a bare `cargo build` at the workspace root builds is not every buildpack)
        self._write("Cargo.toml", "[workspace]\nresolver = \"2\"\nmembers = [\n" + "".join(f'  "{m}",\n' for m in members) + "]\n"
                    + f'default-members = ["{members[-1]}"]\n')
        self._write(".ignore", "packaged/\ncustom-out/\nrel-out/\nalt-target/\n")

    def _write(self, rel, text):
        p = os.path.join(self.root, rel)
        os.makedirs(os.path.dirname(p), exist_ok=True)
        with open(p, "w") as f:
            f.write(text)

    def _write_crate(self, bid):
        c = self.crates[bid]
        d = c["dir"]
        toml = f'[package]\nname = "{c["pkg"]}"\nversion = "0.0.1"\nedition = "2021"\n\n'
        for b in c["bins"]:
            toml += f'[[bin]]\nname = "{b}"\npath = "src/{b}.rs"\n\n'
            self._write(os.path.join(d, "src", f"{b}.rs"), f'fn main() {{ println!("{bid} {b} rev {c["rev"]}"); }}\n')
        self._write(os.path.join(d, "Cargo.toml"), toml)
        self._write(os.path.join(d, "buildpack.toml"),
                    f'api = "0.10"\n\n[buildpack]\nid = "{bid}"\nversion = "0.0.{c["rev"] + 1}"\n# revision {c["rev"]}\n\n[[targets]]\nos = "linux"\narch = "amd64"\n')

    def edit_source(self, bid):
        self.crates[bid]["rev"] += 1
        self._write_crate(bid)

    def all_ids(self):
        return list(self.crates) + list(self.composites)

    def deps_of(self, bid):
        if bid in self.composites:
            return sorted({v for k, v in self.composites[bid]["deps"] if k == "libcnb"})
        return []

    def closure(self, roots):
        seen, todo = set(), list(roots)
        while todo:
            n = todo.pop()
            if n not in seen:
                seen.add(n)
                todo += self.deps_of(n)
        return seen

    def dir_of(self, bid):
        return (self.crates.get(bid) or self.composites[bid])["dir"]


def out_dir(pkgdir, profile, bid):
    return os.path.join(pkgdir, TARGET, profile, bid.replace("/", "_"))


def snapshot(path):
    """relative path -> ('file', sha) | ('link', target) | ('dir',)"""
    snap = {}
    for base, dirs, files in os.walk(path, followlinks=False):
        for n in dirs + files:
            p = os.path.join(base, n)
            rel = os.path.relpath(p, path)
            if os.path.islink(p):
                snap[rel] = ("link", os.readlink(p))
            elif os.path.isdir(p):
                snap[rel] = ("dir",)
            else:
                snap[rel] = ("file", hashlib.sha256(open(p, "rb").read()).hexdigest())
    return snap


def expected_tree(ws, bid, pkgdir, profile):
    """what the property prescribes for the output directory of bid (None = cannot tell)"""
    exp = {}
    sha = lambda p: hashlib.sha256(open(p, "rb").read()).hexdigest()
    src = os.path.join(ws.root, ws.dir_of(bid))
    exp["buildpack.toml"] = ("file", sha(os.path.join(src, "buildpack.toml")))
    if bid in ws.crates:
        c = ws.crates[bid]
        tdir = os.path.join(getattr(ws, "target_dir", None) or os.path.join(ws.root, "target"), TARGET, profile)
        exp["bin"] = ("dir",)
        exp["bin/build"] = ("file", sha(os.path.join(tdir, c["main"])))
        exp["bin/detect"] = ("link", "build")
        extras = [b for b in c["bins"] if b != c["main"]]
        if extras:
            exp[".libcnb-cargo"] = ("dir",)
            exp[".libcnb-cargo/additional-bin"] = ("dir",)
            for b in extras:
                exp[f".libcnb-cargo/additional-bin/{b}"] = ("file", sha(os.path.join(tdir, b)))
        exp["package.toml"] = ("file", hashlib.sha256(b'[buildpack]\nuri = "."\n').hexdigest())
    else:
        exp["package.toml"] = ("composite",)
    return exp


def check_composite_package_toml(ws, bid, path, pkgdir, profile):
    try:
        t = tomllib.load(open(path, "rb"))
    except Exception as e:  # noqa
        return f"package.toml of {bid} is not TOML: {e}"
    want = []
    src = os.path.join(ws.root, ws.composites[bid]["dir"])
    for kind, v in ws.composites[bid]["deps"]:
        if kind == "libcnb":
            want.append(out_dir(pkgdir, profile, v))
        elif kind == "relative":
            want.append(os.path.normpath(os.path.join(src, v)))
        else:
            want.append(v)
    got = [d.get("uri") for d in t.get("dependencies", [])]
    if got != want:
        return f"package.toml of {bid}: dependencies {got}, expected {want}"
    if t.get("buildpack", {}).get("uri") != ".":
        return f"package.toml of {bid}: buildpack uri {t.get('buildpack')}"
    if t.get("platform", {}).get("os", "linux") != ws.composites[bid].get("os", "linux"):
        return f"package.toml of {bid}: platform {t.get('platform')}, the source says os = {ws.composites[bid].get('os')}"
    return None


# entry names a fresh packaging run (into an empty directory) produced, per buildpack id: anything beyond
# the prescribed entries is judged against these ("the same as packaging into an empty directory"),
# so an implementation that legitimately writes an additional file is not reported
FRESH_ENTRIES = {}


def compare(ws, bid, pkgdir, profile, fresh_run=False):
    d = out_dir(pkgdir, profile, bid)
    if not os.path.isdir(d):
        return [f"{bid}: output directory {d} missing"]
    got = snapshot(d)
    exp = expected_tree(ws, bid, pkgdir, profile)
    problems = []
    for k, v in exp.items():
        if v == ("composite",):
            if got.get(k, ("",))[0] != "file":
                problems.append(f"{bid}: package.toml missing")
            else:
                e = check_composite_package_toml(ws, bid, os.path.join(d, k), pkgdir, profile)
                if e:
                    problems.append(e)
        elif got.get(k) != v:
            problems.append(f"{bid}: {k} is {got.get(k)}, expected {v}")
    if fresh_run:
        FRESH_ENTRIES[(ws.root, profile, bid)] = set(got)
    allowed = FRESH_ENTRIES.get((ws.root, profile, bid), set())
    for k in got:
        if k not in exp and k not in allowed:
            problems.append(f"{bid}: unexpected entry {k} {got[k]} in the packaged buildpack (a fresh run does not produce it)")
    return problems


def seed_output(ws, bid, pkgdir, profile, seed, fresh_copy):
    """puts the output directory of bid into the state `seed` (a record printed by TLC)"""
    d = out_dir(pkgdir, profile, bid)
    shutil.rmtree(d, ignore_errors=True)
    if not seed["exists"]:
        return
    os.makedirs(d)
    name_map = {"buildpack.toml": "buildpack.toml", "bin/build": "bin/build", "bin/detect": "bin/detect",
                "additional-bin/extra": ".libcnb-cargo/additional-bin", "package.toml": "package.toml"}
    for e in seed["cur"]:
        rel = name_map[e]
        src = os.path.join(fresh_copy, rel)
        if os.path.lexists(src):
            dst = os.path.join(d, rel)
            os.makedirs(os.path.dirname(dst), exist_ok=True)
            if os.path.islink(src):
                os.symlink(os.readlink(src), dst)
            elif os.path.isdir(src):
                shutil.copytree(src, dst, symlinks=True)
            else:
                shutil.copy2(src, dst)
    for e in seed["stale"]:
        if e == "junk":
            os.makedirs(os.path.join(d, "leftover-dir", "deep"), exist_ok=True)
            open(os.path.join(d, "leftover-dir", "deep", "file"), "w").write("foreign\n")
            open(os.path.join(d, "README.old"), "w").write("foreign\n")
            continue
        rel = name_map[e[4:]]
        dst = os.path.join(d, rel)
        os.makedirs(os.path.dirname(dst), exist_ok=True)
        if rel == "bin/detect":
            if not os.path.lexists(dst):
                os.symlink("some-older-binary", dst)      # a stale link: creating the new one hits EEXIST
        elif rel.endswith("additional-bin"):
            os.makedirs(dst, exist_ok=True)
            open(os.path.join(dst, "removed-in-this-version"), "w").write("old binary\n")
        else:
            if not os.path.lexists(dst):
                open(dst, "w").write(f"# written by an older run: {rel}\n")


def command_cases(ctx, cargo_libcnb, env, base):
    """every (dependency DAG, placement of the buildpacks in possibly nested directories, directory the
    command runs in) case of Packaging.tla's command model, on composite-only workspaces (nothing compiles)"""
    from concurrent.futures import ThreadPoolExecutor
    r = vlib.tlc(ctx, "Packaging.tla", "Packaging_command.cfg", "command", workers=1, env={"JAVA_TOOL_OPTIONS": "-Xss64m"}, timeout=900)
    if not r["ok"]:
        if any("Assumption" in e for e in r["errors"]):
            ctx.violation("spec:command selection law", "first-path-match-else-root differs from the declarative selection inside the specification", {"tlc_output": r["out"]}, "tlc")
            return [], 0
        raise vlib.ToolError(f"TLC failed on the command model: {r['errors'][:2]}")
    cases = []
    for line in open(r["out"], errors="replace"):
        if line.startswith('<<"CV", "'):
            cases.append(json.loads(line[len('<<"CV", "'):].rstrip("\n")[:-3].replace('\\"', '"').replace("\\\\", "\\")))
    os.remove(r["out"])
    if len(cases) < 2500:
        raise vlib.ToolError(f"the command model emitted only {len(cases)} cases")
    root0 = os.path.join(base, "cmd")
    os.makedirs(root0, exist_ok=True)

    def one(ic):
        i, c = ic
        root = os.path.join(root0, str(i))
        for d in ("docs", "d1/in", "d2"):
            os.makedirs(os.path.join(root, d))
        open(os.path.join(root, "Cargo.toml"), "w").write('[workspace]\nresolver = "2"\nmembers = []\n')
        open(os.path.join(root, ".ignore"), "w").write("packaged/\n")
        for n, d in c["place"].items():
            p = os.path.join(root, d)
            os.makedirs(p, exist_ok=True)
            open(os.path.join(p, "buildpack.toml"), "w").write(
                f'api = "0.10"\n\n[buildpack]\nid = "v/{n}"\nversion = "1.0.0"\n\n[[order]]\n[[order.group]]\nid = "x/y"\nversion = "1.0.0"\n')
            open(os.path.join(p, "package.toml"), "w").write(
                '[buildpack]\nuri = "."\n' + "".join(f'\n[[dependencies]]\nuri = "libcnb:v/{x}"\n' for x in c["deps"][n]))
        p = sh([cargo_libcnb, "libcnb", "package", "--target", TARGET, "--no-cross-compile-assistance"], cwd=os.path.join(root, c["cwd"]), env=env)
        out = os.path.join(root, "packaged", TARGET, "debug")
        written = sorted(x[2:] for x in os.listdir(out)) if os.path.isdir(out) else []
        problems = []
        sel, want = sorted(c["selected"]), sorted(c["written"])
        if not sel:
            if p.returncode == 0 or written:
                problems.append(f"nothing is selected from {c['cwd']!r} but the command exited {p.returncode} and wrote {written}")
        else:
            if p.returncode != 0:
                problems.append(f"the command failed: {p.stderr[-300:]}")
            else:
                printed = sorted(os.path.basename(x)[2:] for x in p.stdout.split())
                if printed != sel:
                    problems.append(f"printed {printed}, selected {sel}")
                if written != want:
                    problems.append(f"wrote output directories for {written}, the selection and its dependencies are {want}")
                for n in written:
                    try:
                        t = tomllib.load(open(os.path.join(out, "v_" + n, "package.toml"), "rb"))
                        got = [d.get("uri") for d in t.get("dependencies", [])]
                        exp = [os.path.join(out, "v_" + x) for x in c["deps"].get(n, [])]
                        if got != exp:
                            problems.append(f"package.toml of {n}: dependencies {got}, expected {exp}")
                    except Exception as e:  # noqa
                        problems.append(f"package.toml of {n} unreadable: {e}")
        order = [m.group(1)[2:] for m in re.finditer(r"\[\d+/\d+\] Building (\S+)", p.stderr)]
        shutil.rmtree(root, ignore_errors=True)
        return c, problems, order

    events = []
    with ThreadPoolExecutor(max_workers=16) as ex:
        for c, problems, order in ex.map(one, enumerate(cases)):
            for e in problems:
                ctx.violation("command selection: " + e.split(",")[0].split(":")[0][:60], f"cwd {c['cwd']!r}, placement {c['place']}, deps {c['deps']}: {e}", {"case": c}, "cargo_libcnb")
            if c["selected"] and order:
                events.append({"kind": "order", "deps": c["deps"], "roots": sorted(c["selected"]), "order": order, "ok": True})
    ctx.cov["command_cases"] = len(cases)
    return events, len(cases)


def run(ctx):
    vlib.cargo_build(ctx)
    quick = ctx.tier == "quick"
    r = vlib.tlc(ctx, "PackagingPipeline.tla", "PackagingPipeline.cfg", "pipeline", workers=1, timeout=600)
    vlib.tlc_must_pass(ctx, r, "packaging pipeline model")
    ctx.add("states", r["distinct"])
    ctx.add("transitions", r["generated"])
    seeds = []
    for line in open(r["out"], errors="replace"):
        if line.startswith('<<"SV", "'):
            js = line[len('<<"SV", "'):].rstrip("\n")[:-3].replace('\\"', '"').replace("\\\\", "\\")
            if js not in seeds:
                seeds.append(js)
    seeds = [json.loads(s) for s in seeds]
    if len(seeds) < 10:
        raise vlib.ToolError("the pipeline model emitted too few leftover states")
    cargo_libcnb = build_cargo_libcnb(ctx)
    cargo = shutil.which("cargo")
    rng = random.Random(ctx.seed)
    base = os.path.join(vlib.SCRATCH, "c15")
    shutil.rmtree(base, ignore_errors=True)
    os.makedirs(base)
    env = dict(os.environ, CARGO=cargo, CARGO_NET_OFFLINE="true")
    env.pop("CI", None)
    evaluations = 0
    distinct = 0
    order_events = []

    def package(ws, cwd, extra=(), expect_ok=True, env_extra=None):
        nonlocal evaluations
        evaluations += 1
        p = sh([cargo_libcnb, "libcnb", "package", "--target", TARGET, "--no-cross-compile-assistance", *extra], cwd=cwd, env=dict(env, **(env_extra or {})))
        if expect_ok and p.returncode != 0:
            ctx.violation("packaging failed", f"cargo libcnb package failed in {os.path.relpath(cwd, ws.root)} {extra}: {p.stderr[-600:]}",
                          {"cwd": cwd, "extra": list(extra)}, "cargo_libcnb")
        return p

    def progress_order(stderr):
        return [m.group(1) for m in re.finditer(r"\[\d+/\d+\] Building (\S+)", stderr)]

    cmd_events, n_cmd = command_cases(ctx, cargo_libcnb, env, base)
    order_events += cmd_events
    evaluations += n_cmd
    workspaces = [(2, 1), (3, 2)] if quick else [(1, 0), (2, 1), (3, 2), (4, 3), (5, 3), (3, 1), (2, 2), (5, 2)]
    for wi, (nc, nm) in enumerate(workspaces):
        ws = Workspace(os.path.join(base, f"ws{wi}"), rng, nc, nm)
        for profile, extra_args, pkgdir in [("debug", [], os.path.join(ws.root, "packaged")),
                                            ("release", ["--release", "--package-dir", "custom-out/here"], os.path.join(ws.root, "custom-out", "here"))]:
            if profile == "release" and quick and wi > 0:
                continue
            label = f"ws{wi}/{profile}"
            # (a) fresh packaging of everything from the workspace root
            p = package(ws, ws.root, extra_args)
            if p.returncode != 0:
                continue
            printed = sorted(p.stdout.split())
            want = sorted(out_dir(pkgdir, profile, b) for b in ws.all_ids())
            if printed != want:
                ctx.violation("stdout is not the selected buildpacks", f"{label}: printed {printed}, selected {want}", {"label": label}, "cargo_libcnb")
            order = progress_order(p.stderr)
            if order:   # (informational here; C13 observes the order at the file system, independent of the wording)
                order_events.append({"kind": "order", "deps": {b: ws.deps_of(b) for b in ws.all_ids()}, "roots": ws.all_ids(), "order": order, "ok": True})
            for b in ws.all_ids():
                for e in compare(ws, b, pkgdir, profile, fresh_run=True):
                    ctx.violation("fresh output incomplete", f"{label}: {e}", {"label": label, "buildpack": b}, "cargo_libcnb")
            if os.path.exists(out_dir(pkgdir, profile, "verif/shell")):
                ctx.violation("non-libcnb buildpack packaged", f"{label}: the shell buildpack was packaged", {"label": label}, "cargo_libcnb")
            fresh = os.path.join(base, f"fresh-{wi}-{profile}")
            shutil.rmtree(fresh, ignore_errors=True)
            shutil.copytree(os.path.join(pkgdir, TARGET, profile), fresh, symlinks=True)
            # (b) every state an earlier / interrupted run can leave behind, for a crate and a composite
            victims = [rng.choice(list(ws.crates))] + ([rng.choice(list(ws.composites))] if ws.composites else [])
            multi = [b for b in ws.crates if len(ws.crates[b]["bins"]) > 1]
            if multi and multi[0] not in victims:
                victims.append(multi[0])
            for si, seed in enumerate(seeds):
                for b in victims:
                    seed_output(ws, b, pkgdir, profile, seed, os.path.join(fresh, b.replace("/", "_")))
                p = package(ws, ws.root, extra_args)
                distinct += 1
                if p.returncode != 0:
                    continue
                for b in ws.all_ids():
                    for e in compare(ws, b, pkgdir, profile):
                        ctx.violation(f"stale output survives: seed exists={seed['exists']} cur={len(seed['cur'])} stale={len(seed['stale'])}",
                                      f"{label}: after pre-seeding {victims} with {seed}: {e}", {"label": label, "seed": seed, "buildpack": b}, "cargo_libcnb")
            # (b2) real interruption: the packaging process is killed at its k-th file-system call beneath
            # the package directory (LD_PRELOAD shim in kill mode); a clean rerun must converge
            if profile == "debug" and wi == 0:
                from checks import c12
                so = c12.build_shim()
                logf = os.path.join(base, "calls.log")
                if os.path.exists(logf):
                    os.remove(logf)
                penv = dict(env, LD_PRELOAD=so, FAULT_PREFIX=pkgdir, FAULT_ACTIVE="1", FAULT_K="0", FAULT_LOG=logf)
                sh([cargo_libcnb, "libcnb", "package", "--target", TARGET, "--no-cross-compile-assistance", *extra_args], cwd=ws.root, env=penv)
                n_calls = sum(1 for _ in open(logf)) if os.path.exists(logf) else 0
                if n_calls < 10:
                    raise vlib.ToolError(f"the shim saw only {n_calls} file-system calls beneath the package directory")
                ks = list(range(1, n_calls + 1))
                if quick:
                    ks = sorted(set(rng.sample(ks, min(10, len(ks))) + [1, n_calls]))
                killed = 0
                for k in ks:
                    penv = dict(env, LD_PRELOAD=so, FAULT_PREFIX=pkgdir, FAULT_ACTIVE="1", FAULT_K=str(k), FAULT_KILL="1")
                    pk = sh([cargo_libcnb, "libcnb", "package", "--target", TARGET, "--no-cross-compile-assistance", *extra_args], cwd=ws.root, env=penv)
                    killed += pk.returncode != 0
                    p = package(ws, ws.root, extra_args)
                    distinct += 1
                    if p.returncode != 0:
                        continue
                    for b in ws.all_ids():
                        for e in compare(ws, b, pkgdir, profile):
                            ctx.violation("output differs after an interrupted run", f"{label}: packaging killed at file-system call {k} of {n_calls}, "
                                          f"then re-run: {e}", {"label": label, "k": k, "buildpack": b}, "cargo_libcnb")
                if killed < len(ks) // 2:
                    raise vlib.ToolError(f"interruption did not take effect ({killed} of {len(ks)} runs died)")
                ctx.cov["interrupted_runs"] = len(ks)
                ctx.cov["fs_calls_beneath_package_dir"] = n_calls
            # (c) packaging from one buildpack's own directory
            for b in ([rng.choice(list(ws.composites))] if ws.composites else []) + [rng.choice(list(ws.crates))] + ["verif/nested/inner"]:
                others_before = {o: snapshot(out_dir(pkgdir, profile, o)) for o in ws.all_ids() if o not in ws.closure([b])}
                pd = [a if a != "custom-out/here" else pkgdir for a in extra_args]
                p = package(ws, os.path.join(ws.root, ws.dir_of(b)), pd)
                if p.returncode != 0:
                    continue
                if p.stdout.split() != [out_dir(pkgdir, profile, b)]:
                    ctx.violation("stdout is not the selected buildpack", f"{label}: from {ws.dir_of(b)} printed {p.stdout.split()}", {"label": label, "buildpack": b}, "cargo_libcnb")
                order = progress_order(p.stderr)
                if order:
                    order_events.append({"kind": "order", "deps": {x: ws.deps_of(x) for x in ws.all_ids()}, "roots": [b], "order": order, "ok": True})
                for o, before in others_before.items():
                    if snapshot(out_dir(pkgdir, profile, o)) != before:
                        ctx.violation("unselected buildpack touched", f"{label}: packaging {b} changed the output of {o}", {"label": label}, "cargo_libcnb")
                for x in ws.closure([b]):
                    for e in compare(ws, x, pkgdir, profile):
                        ctx.violation("output incomplete (single buildpack)", f"{label}: {e}", {"label": label, "buildpack": x}, "cargo_libcnb")
            # (c2) a relative --package-dir is relative to where the command is run
            if profile == "debug":
                b = rng.choice(list(ws.crates))
                cwd = os.path.join(ws.root, ws.dir_of(b))
                rel_pkgdir = os.path.join(cwd, "rel-out", "x")
                p = package(ws, cwd, ["--package-dir", "rel-out/x"])
                if p.returncode == 0:
                    if p.stdout.split() != [out_dir(rel_pkgdir, profile, b)]:
                        ctx.violation("relative package dir misplaced", f"{label}: `--package-dir rel-out/x` run in {ws.dir_of(b)} printed {p.stdout.split()}, "
                                      f"expected {out_dir(rel_pkgdir, profile, b)}", {"label": label, "buildpack": b}, "cargo_libcnb")
                    for e in compare(ws, b, rel_pkgdir, profile):
                        ctx.violation("relative package dir misplaced", f"{label}: {e}", {"label": label, "buildpack": b}, "cargo_libcnb")
                shutil.rmtree(os.path.join(cwd, "rel-out"), ignore_errors=True)
            # (d) the sources change between runs
            b = rng.choice(list(ws.crates))
            ws.edit_source(b)
            p = package(ws, ws.root, extra_args)
            if p.returncode == 0:
                for x in ws.all_ids():
                    for e in compare(ws, x, pkgdir, profile):
                        ctx.violation("output not refreshed after a source change", f"{label}: {e}", {"label": label, "buildpack": x}, "cargo_libcnb")
            # (e) ... and once more with Cargo told to build somewhere else (CARGO_TARGET_DIR): the binaries packaged
            # are the ones of this build, not what an earlier run left in <workspace>/target
            if profile == "debug":
                ws.edit_source(b)
                ws.target_dir = os.path.join(ws.root, "alt-target")
                p = package(ws, ws.root, extra_args, env_extra={"CARGO_TARGET_DIR": ws.target_dir})
                if p.returncode == 0:
                    for x in ws.all_ids():
                        for e in compare(ws, x, pkgdir, profile):
                            ctx.violation("output not from this build (other target directory)", f"{label}: {e}", {"label": label, "buildpack": x}, "cargo_libcnb")
                ws.target_dir = None
                package(ws, ws.root, extra_args)     # back to the default target directory for what follows
        ctx.sample({"workspace": wi, "crates": {k: v["bins"] for k, v in ws.crates.items()}, "composites": {k: v["deps"] for k, v in ws.composites.items()}})
    # the printed build orders are behaviours of the emit machine
    wd = ctx.workdir("orders")
    trace = os.path.join(wd, "orders.ndjson")
    vlib.write_ndjson(trace, order_events)
    t = vlib.tlc(ctx, "Packaging.tla", "Packaging_trace.cfg", "orders", workers=1, env={"JAVA_TOOL_OPTIONS": "-Xss64m", "TRACE": trace}, timeout=600)
    if not t["ok"]:
        bad = [l for l in open(t["out"], errors="replace") if "TRACE_MISMATCH" in l]
        if not bad:
            raise vlib.ToolError(f"TLC failed on the build-order trace: {t['errors'][:2]}")
        i = int(bad[0].split(",")[1].strip(" >\n"))
        ctx.violation("composite packaged before its dependency", f"printed build order {order_events[i - 1]['order']} for roots "
                      f"{order_events[i - 1]['roots']} is not a dependency order", {"event": order_events[i - 1]}, "pkg_trace")
    else:
        ctx.add("traces_validated_against_impl", len(order_events))
    shutil.rmtree(base, ignore_errors=True)
    ctx.add("evaluations", evaluations)
    ctx.add("distinct_nontrivial", distinct)
    ctx.cov["leftover_states"] = len(seeds)
    ctx.assumptions += [
        f"packaging uses --target {TARGET} --no-cross-compile-assistance because no musl target is installed offline",
        "the output directory is covered by an ignore file (precondition taken from the property's quantifier)",
        "crates are dependency-free `fn main` programs with distinguishing strings; the expected main/additional binaries are "
        "the files cargo left in target/<triple>/<profile>/",
    ]
    return vlib.finish(ctx, rule="generated workspaces (crates with 1-3 binary targets, composites with libcnb:/relative/docker dependencies "
                       "incl. composite-on-composite, a shell buildpack, an ignore file); fresh run, every leftover state of the TLC pipeline "
                       "model seeded into the output dirs of a crate, a multi-binary crate and a composite, packaging from a buildpack's "
                       "own directory, release profile with --package-dir, edited sources; distinct_nontrivial = reruns over a seeded "
                       "output directory", exhaustive=False)


def replay(ctx, path):
    raise vlib.ToolError("C15 cases are re-run by ./check C15 with the same VERIF_SEED")
