"""C20: identical inputs give byte-identical layer and phase outputs (paired fresh processes)."""
import json
import os
import subprocess
import vlib


def run(ctx):
    ctx.level = "exploration"
    vlib.cargo_build(ctx)
    quick = ctx.tier == "quick"
    # specification side: result and post-state are a function of pre-state, call and decisions
    em = vlib.tlc(ctx, "LayersMC.tla", "Layers_emit.cfg", "emit", workers=2, timeout=3000)
    vlib.tlc_must_pass(ctx, em, "Layers emission model")
    f = vlib.harness(ctx, "layers_replay", [em["out"], "--functional-only"])
    os.remove(em["out"])
    if f["extra"]["functional_conflicts"] != 0:
        ctx.violation("spec: transition relation is not functional", f"{f['extra']['functional_conflicts']} (pre, call, decisions) with two different outcomes", {}, "tlc")
    ctx.cov["spec_transitions_checked_functional"] = f["evaluations"]
    # implementation side 1: the C01/C02 histories, each in two fresh processes
    wd = ctx.workdir("det")
    pairs = 0
    events = 0
    for mode, hist, ev in ([("struct", 3, 300), ("trait", 3, 300), ("mixed", 3, 300)] if quick else [("struct", 20, 600), ("trait", 20, 600), ("mixed", 30, 600)]):
        outs = []
        for k in (1, 2):
            p = os.path.join(wd, f"{mode}-{k}.ndjson")
            scratch = os.path.join(vlib.SCRATCH, f"det-{mode}-{k}")    # a different temp root per run
            os.makedirs(scratch, exist_ok=True)
            e = dict(os.environ, VERIF_DIGESTS="1", VERIF_SEED=str(ctx.seed), VERIF_SCRATCH=scratch)
            r = subprocess.run([os.path.join(vlib.BIN, "layers_drive"), p, str(hist), str(ev), mode], env=e, stdout=subprocess.PIPE, stderr=subprocess.PIPE, text=True, timeout=3600)
            if r.returncode != 0:
                if r.returncode in (101, -6, 134):   # a panic in the process that runs the code under test is an observation
                    ctx.violation(f"layers_drive ({mode}): the process running the code under test panicked", r.stderr[-800:], {"mode": mode}, "paired_runs")
                raise vlib.ToolError(f"layers_drive failed: {r.stderr[-500:]}")
            outs.append([json.loads(x) for x in open(p)])
        a, b = outs
        if len(a) != len(b) or any(x["obs"] != y["obs"] for x, y in zip(a, b)):
            i = next((j for j, (x, y) in enumerate(zip(a, b)) if x["obs"] != y["obs"]), min(len(a), len(b)))
            ctx.violation(f"history diverges between two identical runs ({mode})", f"event {i + 1}: {json.dumps(a[i]['obs'])[:300]} vs {json.dumps(b[i]['obs'])[:300]}",
                          {"mode": mode, "event": i + 1}, "paired_runs")
        else:
            for i, (x, y) in enumerate(zip(a, b)):
                if x.get("raw") != y.get("raw"):
                    ctx.violation(f"<layers> bytes differ between two identical runs after {x['obs']['act']}",
                                  f"{mode} history, event {i + 1} ({x['obs']['act']} on {x['obs']['n']}): directory digests {x.get('raw')} vs {y.get('raw')}",
                                  {"mode": mode, "event": i + 1, "obs": x["obs"]}, "paired_runs")
                    break
        pairs += 1
        events += len(a)
    ctx.sample({"paired_histories": pairs, "events_compared": events})
    # implementation side 2: every detect/build path that writes outputs, twice
    r = vlib.tlc(ctx, "Runtime.tla", "Runtime.cfg", "paths", workers=1, timeout=900)
    vlib.tlc_must_pass(ctx, r, "Runtime model")
    s = vlib.harness(ctx, "runtime_replay", [r["out"], "--det"], timeout=3600)
    os.remove(r["out"])
    vlib.take_summary(ctx, s, "paired_runs")
    if s["extra"]["pairs"] < 1000 or events < 500:
        raise vlib.ToolError("too few paired runs")
    ctx.add("evaluations", s["evaluations"] + 2 * events)
    ctx.add("distinct_nontrivial", s["distinct_nontrivial"] + events)
    ctx.cov["paired_phase_runs"] = s["extra"]["pairs"]
    ctx.cov["paired_layer_events"] = events
    ctx.sample({"phase_pairs": s["extra"]["pairs"]})
    ctx.assumptions += ["each member of a pair is a fresh process (own hash seeds) with its own temp root; every 50th phase pair is separated by 1.1 s of wall clock",
                        "the scripted buildpack writes multi-key outputs (3 processes, labels, slices, a store with nested tables, a build plan with alternatives "
                        "and metadata, several SBOM formats); layer histories use multi-entry environments, several exec.d programs and SBOMs",
                        "differences in temp-path prefixes cannot appear because snapshots are relative and no output embeds a path"]
    return vlib.finish(ctx, rule="the seeded build histories of C01/C02 (struct, trait, mixed API; every event compared by a digest of the raw bytes, modes "
                       "and link targets of the whole <layers> directory) and every root-to-exit path of Runtime.tla that writes outputs (layers directory and "
                       "plan file compared byte for byte), each executed twice; distinct_nontrivial = pairs with at least two output files + compared layer "
                       "events. The specification's transition relation is checked to be functional over all emitted transitions.", exhaustive=False)


def replay(ctx, path):
    raise vlib.ToolError("replay: re-run ./check C20 with the same VERIF_SEED")
