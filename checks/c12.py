"""C12: every single failed file-system call in layer handling / output writing is reported.

LD_PRELOAD shim (tools/faultshim.c) fails the k-th watched libc call beneath the layers directory;
spec/FaultWrap.tla decides every recorded run and checks that the enumeration is complete."""
import json
import os
import subprocess
import vlib

TRACE_ENV = {"JAVA_TOOL_OPTIONS": "-Xss1g -Dtlc2.tool.queue.IStateQueue=StateDeque"}


def build_shim():
    so = os.path.join(vlib.ROOT, "tools", "faultshim.so")
    src = os.path.join(vlib.ROOT, "tools", "faultshim.c")
    if not os.path.exists(so) or os.path.getmtime(so) < os.path.getmtime(src):
        p = subprocess.run(["gcc", "-O2", "-shared", "-fPIC", "-o", so, src, "-ldl"], stdout=subprocess.PIPE, stderr=subprocess.STDOUT, text=True)
        if p.returncode != 0:
            raise vlib.ToolError("cannot build the fault shim: " + p.stdout[-800:])
    return so


def run(ctx):
    ctx.level = "fault_enumeration"
    vlib.cargo_build(ctx)
    so = build_shim()
    quick = ctx.tier == "quick"
    # the wrapper's design space must contain silent failures (otherwise the invariant is vacuous)
    neg = vlib.tlc(ctx, "FaultWrap.tla", "FaultWrap_mc.cfg", "design-space", workers=2, timeout=300)
    if not (neg["violated"] and "ReportedOrSame" in neg["violated"]):
        raise vlib.ToolError("vacuity guard: ReportedOrSame cannot be violated in the unconstrained wrapper model")
    em = vlib.tlc(ctx, "LayersMC.tla", "Layers_emit.cfg" if quick else "Layers_emit_thorough.cfg", "emit", workers=2 if quick else 4, timeout=3000)
    vlib.tlc_must_pass(ctx, em, "Layers emission model")
    wd = ctx.workdir("fault")
    trace = os.path.join(wd, "fault.ndjson")
    s = vlib.harness(ctx, "fault_drive", [em["out"], trace, "1" if quick else "4"], env={"VERIF_SHIM": so}, timeout=7200)
    os.remove(em["out"])
    vlib.take_summary(ctx, s, "fault_drive")
    if s["extra"]["injection_points"] < 1000:
        raise vlib.ToolError(f"too few injection points: {s['extra']}")
    for need in ("open", "write", "mkdir", "unlink", "rmdir", "read", "opendir", "chmod"):
        if s["extra"]["per_call"].get(need, 0) == 0 and not s["mismatches"]:
            raise vlib.ToolError(f"the shim never saw a {need} call: interposition is broken")
    r = vlib.tlc(ctx, "FaultWrap.tla", "FaultWrap_trace.cfg", "trace", workers=1, env=dict(TRACE_ENV, TRACE=trace), timeout=1800, heap="6g")
    if not r["ok"]:
        at = None
        inv = None
        with open(r["out"], errors="replace") as f:
            for line in f:
                if "TRACE_REJECTED_AT" in line:
                    at = int(line.split(",")[1].strip(" >\n"))
                if line.startswith("Error: Invariant"):
                    inv = line.strip()
        lines = open(trace).read().splitlines()
        if inv:
            if not s["mismatches"]:
                raise vlib.ToolError("TLC reports a silent failure the driver did not report")
        elif at is not None:
            raise vlib.ToolError(f"the injection enumeration is incomplete or inconsistent at trace event {at}: {lines[at - 1][:300]}")
        else:
            raise vlib.ToolError(f"TLC failed on the fault trace: {r['errors'][:2]}")
    ctx.add("evaluations", s["evaluations"])
    ctx.add("distinct_nontrivial", s["distinct_nontrivial"])
    ctx.cov["actions"] = s["extra"]["actions"]
    ctx.cov["injection_points"] = s["extra"]["injection_points"]
    ctx.cov["per_call"] = s["extra"]["per_call"]
    ctx.cov["errnos"] = ["EIO", "EACCES", "ENOSPC"]
    ctx.cov["trace_events_validated"] = r["generated"]
    ctx.cov["samples"] = s["samples"] + [json.loads(l) for l in open(trace).read().splitlines()[1:4]]
    ctx.assumptions += [
        "faults are injected by symbol interposition on glibc (open/open64/openat/creat/write/read/mkdir/unlink/unlinkat/rmdir/"
        "rename/chmod/fchmod/symlink/opendir/copy_file_range/sendfile) for paths beneath the layers directory; stat-like "
        "calls are not faulted; the harness's own callbacks run with the shim paused",
        "one action per (call, pre-state class, decisions) signature of the Layers.tla transition graph, the richest "
        "pre-state of each class, plus the build phase's output writing through the real runtime",
        "a process death (abort) under a fault counts as reported",
    ]
    return vlib.finish(ctx, rule="for each representative action: count the N watched libc calls of the fault-free run, then fail "
                       "call k for every k in 1..N x errno in {EIO, EACCES, ENOSPC} in a fresh process; violation = the call "
                       "returns Ok / the phase exits 0 (whether the directory then differs from the fault-free run - silent "
                       "corruption - or not - an ignored failure). "
                       "distinct_nontrivial = number of distinct injection points (action, k); FaultWrapTrace checks the "
                       "enumeration is complete.", exhaustive=True)


def replay(ctx, path):
    vlib.cargo_build(ctx)
    raise vlib.ToolError("replay of a fault case: run `harness/target/debug/fault_child` with FAULT_K/FAULT_ERRNO from the case "
                         "under LD_PRELOAD=tools/faultshim.so (see the case file)")
