from checks import layers_common


def run(ctx):
    return layers_common.run(ctx, layers_common.STRUCT_ACTS, "struct")


def replay(ctx, path):
    return layers_common.replay(ctx, path)
