"""X02 (extension, not a listed property): spec/Discovery.tla bound to libcnb-package's workspace
discovery (find_buildpack_dirs, build_libcnb_buildpacks_dependency_graph) and cross_compile_assistance."""
import os
import vlib


def run(ctx):
    vlib.cargo_build(ctx)
    r = vlib.tlc(ctx, "Discovery.tla", "Discovery.cfg", "discovery", workers=1, env={"JAVA_TOOL_OPTIONS": "-Xss64m"}, timeout=900)
    if not r["ok"]:
        if any("Assumption" in e for e in r["errors"]):
            ctx.violation("spec:discovery law", "the walk + filters differ from the declarative definition inside the specification", {"tlc_output": r["out"]}, "tlc")
        else:
            raise vlib.ToolError(f"TLC failed on Discovery.tla: {r['errors'][:2]}")
    s = vlib.harness(ctx, "discovery_replay", [r["out"]], timeout=1800)
    os.remove(r["out"])
    if s["extra"]["workspaces"] < 30000 or s["extra"]["cross_compile_rows_for_this_host"] < 6:
        raise vlib.ToolError(f"too few cases: {s['extra']}")
    vlib.take_summary(ctx, s, "discovery_replay")
    ctx.add("evaluations", s["evaluations"])
    ctx.add("distinct_nontrivial", s["distinct_nontrivial"])
    ctx.cov.update(s["extra"])
    ctx.assumptions += ["HOME / XDG_CONFIG_HOME point to an empty directory so that no global git ignore file takes part",
                        "only the rows of the cross-compile table for the host this runs on can be executed; the others are checked inside the specification only"]
    return vlib.finish(ctx, rule="TLC proves walk+filters = declarative definition for all 5^6 x 2 workspaces (6 positions: plain, nested in another "
                       "buildpack, under a hidden directory, matched by .ignore, matched by .gitignore with/without a git repository, a symlink to a directory outside the tree; contents: "
                       "absent, libcnb.rs, other component, composite, malformed descriptor) and states the cross-compile table with three laws; "
                       "every workspace is materialised and walked by the real functions; the table rows of this host are evaluated with the "
                       "compiler present and absent on PATH", exhaustive=True)


def replay(ctx, path):
    raise vlib.ToolError("replay: materialise the case's workspace and call find_buildpack_dirs")
