"""C01 / C02: spec/Layers.tla bound to the struct and trait layer APIs.

 1. TLC model-checks the two-layer model (all properties, -coverage 1 as vacuity guard).
 2. Direction A: TLC prints every transition of the one-layer model; each is executed on the real
    library from a materialised pre-state (bin layers_replay) next to bystander layers.
 3. Direction B: seeded random build histories on the real library (bin layers_drive) are
    validated by spec/LayersTrace.tla; a corrupted copy must be rejected (self-test).
"""
import json
import os
import shutil
import subprocess
import vlib

STRUCT_ACTS = {"cached_layer", "uncached_layer", "write_metadata", "write_env", "read_env", "write_sboms",
               "write_exec_d", "write_file"}
TRAIT_ACTS = {"handle_layer"}

TRACE_ENV = {"JAVA_TOOL_OPTIONS": "-Xss1g -Dtlc2.tool.queue.IStateQueue=StateDeque -Dfile.encoding=UTF-8"}


def validate_trace(ctx, trace, name):
    r = vlib.tlc(ctx, "LayersTrace.tla", "LayersTrace.cfg", name, workers=1, env=dict(TRACE_ENV, TRACE=trace),
                 timeout=1200, heap="4g")
    rejected_at = None
    prop = None
    with open(r["out"], errors="replace") as f:
        for line in f:
            if "TRACE_REJECTED_AT" in line:
                rejected_at = int(line.split(",")[1].strip(" >\n"))
            if line.startswith("Error:") and "is violated" in line:
                prop = line.strip()
    if r["ok"]:
        return None
    if rejected_at is None and prop is None:
        tail = subprocess.run(["tail", "-n", "30", r["out"]], stdout=subprocess.PIPE, text=True).stdout
        raise vlib.ToolError(f"TLC failed while validating {trace}:\n{tail}")
    if rejected_at is None:
        # a property of the spec is false on the trace; the violating step is the last state printed
        n = 0
        with open(r["out"], errors="replace") as f:
            for line in f:
                if line.startswith("State "):
                    n = int(line.split(":")[0].split()[1])
        rejected_at = max(n - 1, 1)
    return {"at": rejected_at, "property": prop, "states": r["generated"]}


def run(ctx, acts, api):
    quick = ctx.tier == "quick"
    vlib.cargo_build(ctx)
    ctx.assumptions += [
        "the lifecycle's cache restore is the one stated in the property (cache=true keeps directory, SBOMs and "
        "metadata without types; launch-only keeps the metadata file; others vanish) and is performed by the harness",
        "tokens stand for fixed byte strings chosen by the harness (env with all four scopes, non-UTF-8 values, "
        "metadata strings with quotes/backslashes/newlines)",
        "TLC 1.8.0 and the projection directory -> abstract state in harness/src/layers.rs are trusted",
    ]
    # 1. the design
    mc = vlib.tlc(ctx, "LayersMC.tla", "Layers_mc_quick.cfg", "mc", workers=8 if quick else 14, coverage=True, timeout=3000, heap="24g")
    vlib.tlc_must_pass(ctx, mc, "Layers model")
    if not quick:
        # the model with two full layers, more tokens, all flag combinations and foreign garbage has about
        # 10^6 states x 440 transitions: explored by random simulation instead (all properties checked)
        sim = vlib.tlc(ctx, "LayersMC.tla", "Layers_mc_thorough.cfg", "mc-sim", workers=14, simulate="num=4000", extra=["-depth", "60"],
                       timeout=3000, heap="24g")
        vlib.tlc_must_pass(ctx, sim, "Layers model (two full layers, simulation)")
        ctx.cov["simulated_behaviours"] = "4000 behaviours of depth 60 of Layers_mc_thorough.cfg"
    needed = ["StructRequest", "HandleLayerD", "WriteMetadata", "WriteEnv", "WriteSboms", "WriteExecD", "WriteFile",
              "ReadEnv", "LifecycleRestore", "CacheLost", "ForeignGarbage"]
    missing = [a for a in needed if mc["coverage"].get(a, 0) == 0]
    if mc["ok"] and missing:
        raise vlib.ToolError(f"vacuity guard: actions never taken in the model: {missing}")
    ctx.add("states", mc["distinct"])
    ctx.add("transitions", mc["generated"])

    # 2. direction A
    em = vlib.tlc(ctx, "LayersMC.tla", "Layers_emit.cfg" if quick else "Layers_emit_thorough.cfg", "emit",
                  workers=2 if quick else 4, timeout=3000, heap="8g")
    vlib.tlc_must_pass(ctx, em, "Layers emission model")
    s = vlib.harness(ctx, "layers_replay", [em["out"], "--acts", ",".join(sorted(acts))])
    if s["evaluations"] == 0:
        raise vlib.ToolError("no transitions were emitted for replay")
    kinds = s["extra"].get("ret_kinds", {})
    want = ["Restored", "Empty", "ErrBuildpack"] if api == "struct" else ["Data", "ErrBuildpack"]
    vlib.take_summary(ctx, s, "layers_replay")
    # (guards on what the real code answered only count when it agreed with the specification)
    if not s["mismatches"] and any(kinds.get(k, 0) == 0 for k in want):
        raise vlib.ToolError(f"vacuity guard: replay never saw results {want}: {kinds}")
    ctx.add("evaluations", s["evaluations"])
    ctx.add("distinct_nontrivial", s["distinct_nontrivial"])
    ctx.cov["replayed_transitions"] = s["evaluations"]
    ctx.cov["replay_per_action"] = s["extra"].get("per_action")
    os.remove(em["out"])

    # 3. direction B
    wd = ctx.workdir("traces")
    # ("runtime": every build is a run of the scripted buildpack executable through the real libcnb_runtime,
    #  the harness plays the lifecycle between builds)
    runs = [(api, 4, 400), ("mixed", 3, 400), ("runtime", 3, 5)] if quick else [(api, 30, 600), ("mixed", 20, 600), ("runtime", 20, 8)]
    validated = 0
    events = 0
    for (mode, hist, ev) in runs:
        trace = os.path.join(wd, f"{mode}.ndjson")
        if mode == "runtime":
            d = vlib.harness(ctx, "history_drive", [trace, str(hist), str(ev), "40"])
            for m in d["mismatches"]:
                if not m["signature"].startswith("C06:"):
                    ctx.violation(m["signature"], m["detail"], m["case"], "history_drive")
            d["extra"]["per_action"] = {"builds": d["evaluations"]}
        else:
            d = vlib.harness(ctx, "layers_drive", [trace, str(hist), str(ev), mode])
            for m in d["mismatches"]:
                ctx.violation(m["signature"], m["detail"], m["case"], "layers_drive")
        rej = validate_trace(ctx, trace, f"trace-{mode}")
        lines = open(trace).read().splitlines()
        if rej:
            e = json.loads(lines[rej["at"] - 1])
            act = e["obs"]["act"]
            mine = act in acts or act in ("restore", "cache_lost", "foreign_garbage", "reset")
            keep = os.path.join(vlib.ROOT, "replays", f"{ctx.id}-trace-{mode}.ndjson")
            os.makedirs(os.path.dirname(keep), exist_ok=True)
            open(keep, "w").write("\n".join(lines[:rej["at"]]) + "\n")
            if mine:
                ctx.violation(f"trace:{act}:{e['obs']['ret']['kind']}",
                              f"history recorded from the real code is not a behaviour of Layers.tla: event {rej['at']} "
                              f"({act} on {e['obs']['n']}) does not fit" + (f"; {rej['property']}" if rej["property"] else ""),
                              {"trace": keep, "event": e["obs"]}, "layers_trace")
            else:
                ctx.note(f"mixed trace rejected at event {rej['at']} ({act}), which belongs to the other layer API; "
                         f"not attributed to {ctx.id}")
            events += rej["at"] - 1
        else:
            validated += hist
            events += len(lines)
        ctx.sample({"trace_mode": mode, "events": d["evaluations"], "per_action": d["extra"]["per_action"]})
        # self-test of the binding (once): a corrupted copy must be rejected where it was corrupted
        if mode == api and not rej:
            evs = [json.loads(x) for x in lines]
            i = len(evs) // 2
            while i < len(evs) and evs[i]["obs"]["act"] not in ("cached_layer", "handle_layer", "uncached_layer"):
                i += 1
            if i < len(evs) and evs[i]["obs"]["ret"]["ok"]:
                n = evs[i]["obs"]["n"]
                evs[i]["L"][n]["toml"]["ty"]["launch"] = not evs[i]["L"][n]["toml"]["ty"]["launch"]
                bad = os.path.join(wd, "corrupted.ndjson")
                vlib.write_ndjson(bad, evs)
                rej2 = validate_trace(ctx, bad, "trace-selftest")
                if not rej2 or rej2["at"] != i + 1:
                    raise vlib.ToolError(f"binding self-test failed: corrupted event {i + 1} gave {rej2}")
                ctx.cov["binding_selftest"] = f"flipped launch flag in event {i + 1} -> rejected at {rej2['at']}"
    ctx.add("traces_validated_against_impl", validated)
    ctx.cov["trace_events_validated"] = events
    shutil.rmtree(wd, ignore_errors=True)
    return vlib.finish(
        ctx,
        rule="TLC enumerates every transition of the one-layer model of Layers.tla (pre-state, call, callback "
             "decisions drawn lazily, expected result/callback log/post-state); each is executed on the real library "
             "from a materialised pre-state beside bystander layers. Non-trivial = pre-state has a layer directory or "
             "metadata file; distinct = distinct (pre-state, call, decisions). Random histories are validated by "
             "LayersTrace.tla.",
        exhaustive=True,
        extra_cov={"model_constants": "quick: Layers_mc_quick.cfg / Layers_emit.cfg" if quick else "thorough: Layers_mc_thorough.cfg / Layers_emit_thorough.cfg"})


def replay(ctx, path):
    vlib.cargo_build(ctx)
    r = json.load(open(path))
    if r["engine"] == "layers_replay":
        tmp = os.path.join(vlib.WORK, "replay-case.json")
        json.dump(r["case"], open(tmp, "w"))
        s = vlib.harness(ctx, "layers_replay", [tmp, "--single"])
        vlib.take_summary(ctx, s, "layers_replay")
    elif r["engine"] == "layers_trace":
        rej = validate_trace(ctx, r["case"]["trace"], "replay")
        if rej:
            ctx.violation(r["signature"], f"trace rejected at event {rej['at']}", r["case"], "layers_trace")
    else:
        raise vlib.ToolError(f"cannot replay engine {r['engine']}")
    ctx.add("evaluations", 1)
    return vlib.finish(ctx, rule="replay of one recorded case")
