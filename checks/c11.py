"""C11: spec/FsTree.tla bound to layer deletion on real trees (as an unprivileged user)."""
import json
import os
import subprocess
import vlib

XSS = {"JAVA_TOOL_OPTIONS": "-Xss64m"}


def _run_replay(ctx, args):
    """fstree_replay as uid nobody when we are root, so that permission bits are real"""
    # the unprivileged user must be able to execute the binary and read its input wherever /verif lives
    import shutil
    binary = os.path.join(vlib.SCRATCH, "fstree_replay")
    shutil.copy(os.path.join(vlib.BIN, "fstree_replay"), binary)
    os.chmod(binary, 0o755)
    args = list(args)
    if os.path.exists(args[0]):
        inp = os.path.join(vlib.SCRATCH, "fstree-input")
        shutil.copy(args[0], inp)
        os.chmod(inp, 0o644)
        args[0] = inp
    cmd = [binary, *args]
    unpriv = False
    if os.geteuid() == 0:
        probe = subprocess.run(["setpriv", "--reuid=65534", "--regid=65534", "--clear-groups", "true"],
                               stdout=subprocess.DEVNULL, stderr=subprocess.DEVNULL)
        if probe.returncode == 0:
            cmd = ["setpriv", "--reuid=65534", "--regid=65534", "--clear-groups", *cmd]
            unpriv = True
    else:
        unpriv = True
    p = subprocess.run(cmd, stdout=subprocess.PIPE, stderr=subprocess.PIPE, text=True,
                       env=dict(os.environ, VERIF_SCRATCH=vlib.SCRATCH, VERIF_SEED=str(ctx.seed)), timeout=1800)
    for line in p.stdout.splitlines():
        if line.startswith("SUMMARY "):
            return json.loads(line[8:]), unpriv
    raise vlib.ToolError(f"fstree_replay gave no SUMMARY (rc={p.returncode}): {p.stderr[-1500:]}")


def run(ctx):
    vlib.cargo_build(ctx)
    r = vlib.tlc(ctx, "FsTree.tla", "FsTree.cfg" if ctx.tier == "quick" else "FsTree_t.cfg", "trees", workers=4, env=XSS, timeout=3000)
    vlib.tlc_must_pass(ctx, r, "FsTree model")
    # negative control / vacuity guard: the algorithm that follows a symlinked root must violate
    # OutsideUntouched in the same model
    neg = vlib.tlc(ctx, "FsTree.tla", "FsTree_negative.cfg", "negative", workers=2, env=XSS, timeout=900)
    if not (neg["violated"] and "OutsideUntouched" in neg["violated"]):
        raise vlib.ToolError("vacuity guard: the link-following variant does not violate OutsideUntouched in the model")
    ctx.add("states", r["distinct"])
    ctx.add("transitions", r["generated"])
    s, unpriv = _run_replay(ctx, [r["out"]])
    ctx.note(f"fstree_replay: {s['evaluations']} deletions, {len(s['mismatches'])} mismatches, euid {s['extra']['euid']}")
    if s["evaluations"] < 4000:
        raise vlib.ToolError("too few trees were replayed")
    vlib.take_summary(ctx, s, "fstree_replay")
    ctx.add("evaluations", s["evaluations"])
    ctx.add("distinct_nontrivial", s["distinct_nontrivial"])
    ctx.add("traces_validated_against_impl", s["evaluations"])
    ctx.cov["root_kinds"] = s["extra"]["root_kinds"]
    ctx.cov["ran_unprivileged"] = unpriv
    ctx.assumptions += [
        "trees are drawn from the grammar in FsTree.tla (layer root: directory with <= 2 entries + one nested entry, "
        "modes rwx/r-x/--- and rw-/r--, links to outside dirs/files, the sibling layer, the layers dir, the layer itself, "
        "nothing; or the layer root itself a link/dangling link) with a canary tree and a sibling layer beside it",
        "the replay runs as uid 65534 via setpriv when started as root; if that is impossible permission bits are not "
        "meaningful (ran_unprivileged=false) and only the symlink part is decided",
        "a dangling symlink as layer root is treated as don't-care for 'entries gone' (no deletion takes place), the frame "
        "property is still checked",
    ]
    os.remove(r["out"])
    return vlib.finish(ctx, rule="every tree of the grammar (TLC, exhaustive: 874) is materialised and deleted through "
                       "uncached_layer, cached_layer+delete decision and handle_layer+recreate (absolute and relative link "
                       "targets); snapshots (content, mode, link target) of everything outside the layer are compared; "
                       "non-trivial = at least two nodes in the layer", exhaustive=True)


def replay(ctx, path):
    vlib.cargo_build(ctx)
    r = json.load(open(path))
    tmp = os.path.join(vlib.WORK, "replay-case.json")
    json.dump(r["case"], open(tmp, "w"))
    os.chmod(tmp, 0o644)
    s, _ = _run_replay(ctx, [tmp, "--single"])
    vlib.take_summary(ctx, s, "fstree_replay")
    ctx.add("evaluations", 1)
    return vlib.finish(ctx, rule="replay of one recorded case")
