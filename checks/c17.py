from checks import th_common


def run(ctx):
    return th_common.run(ctx, "C17")


def replay(ctx, path):
    return th_common.replay(ctx, path)
