from checks import env_common


def run(ctx):
    return env_common.run_c04(ctx)


def replay(ctx, path):
    return env_common.replay(ctx, path)
