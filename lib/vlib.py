"""Shared runner plumbing for the checks in /verif/checks.

Exit codes of ./check: 0 = property held on everything explored, 1 = violation (with a
`VIOLATION property=<id> replay=<path>` line), 2 = tool error / timeout (never a pass).
"""
import json
import os
import re
import shutil
import subprocess
import sys
import time

ROOT = os.path.dirname(os.path.dirname(os.path.abspath(__file__)))
SPEC = os.path.join(ROOT, "spec")
HARNESS = os.path.join(ROOT, "harness")
WORK = os.path.join(ROOT, "work")
# (VERIF_BIN: an already built, e.g. coverage-instrumented, harness - used by tools/coverage.sh only)
BIN = os.environ.get("VERIF_BIN") or os.path.join(HARNESS, "target", "debug")
# per-process scratch area (tmpfs): concurrent checks never share fixed sub-directory names
SCRATCH_BASE = os.environ.get("VERIF_SCRATCH", "/dev/shm/verif-scratch")
SCRATCH = os.path.join(SCRATCH_BASE, f"run-{os.getpid()}")
TLA_JAR = "/opt/veriftools/tla/tla2tools.jar:/opt/veriftools/tla/CommunityModules-deps.jar"


class ToolError(Exception):
    pass


class Ctx:
    def __init__(self, pid, tier, seed):
        self.id = pid
        self.tier = tier
        self.seed = seed
        self.t0 = time.time()
        self.violations = []   # (signature, detail, case, engine)
        self.cov = {}          # evidence coverage keys
        self.assumptions = []
        self.level = "model_checking"
        self.log_lines = []
        os.makedirs(WORK, exist_ok=True)
        os.makedirs(SCRATCH, exist_ok=True)
        for d in (SCRATCH_BASE, SCRATCH):
            try:
                os.chmod(d, 0o1777)
            except OSError:
                pass
        import atexit
        atexit.register(lambda: subprocess.run(["rm", "-rf", SCRATCH]))

    def note(self, msg):
        print(f"[{self.id}] {msg}", flush=True)

    def add(self, key, n):
        self.cov[key] = self.cov.get(key, 0) + n

    def sample(self, s):
        self.cov.setdefault("samples", [])
        if len(self.cov["samples"]) < 12:
            self.cov["samples"].append(s)

    def violation(self, signature, detail, case, engine):
        self.violations.append((signature, detail, case, engine))

    def workdir(self, name):
        d = os.path.join(WORK, f"{self.id}-{name}")
        shutil.rmtree(d, ignore_errors=True)
        os.makedirs(d)
        return d


def cargo_build(ctx, extra=()):
    """Builds the harness against /repo's current working tree (path dependencies)."""
    env = dict(os.environ, CARGO_NET_OFFLINE="true")
    t = time.time()
    if os.environ.get("VERIF_BIN"):
        return
    p = subprocess.run(["cargo", "build", "--offline", *extra], cwd=HARNESS, env=env,
                       stdout=subprocess.PIPE, stderr=subprocess.STDOUT, text=True)
    if p.returncode != 0:
        sys.stdout.write(p.stdout[-6000:])
        raise ToolError("cargo build of the harness failed (does /repo still compile?)")
    ctx.note(f"harness built in {time.time() - t:.1f}s")


TLC_STATS = re.compile(r"^(\d+) states generated, (\d+) distinct states found, (\d+) states left on queue")
COV_LINE = re.compile(r"^<(\w+) line \d+, col \d+ to line \d+, col \d+ of module (\w+)(?: \([\d ]+\))?>: (\d+):(\d+)")


def tlc(ctx, module, cfg, out_name, workers=8, simulate=None, extra=(), env=None, timeout=1800,
        coverage=False, java_opts=None, heap="8g"):
    """Runs TLC; returns dict(ok, generated, distinct, violated, out, coverage)."""
    out_path = os.path.join(WORK, f"{ctx.id}-{out_name}.tlc.out")
    meta = os.path.join(WORK, "tlc-meta", f"{ctx.id}-{out_name}")
    shutil.rmtree(meta, ignore_errors=True)
    os.makedirs(meta, exist_ok=True)
    cmd = ["java", "-XX:+UseParallelGC", f"-Xmx{heap}"]
    if java_opts:
        cmd += java_opts
    cmd += ["-cp", TLA_JAR, "tlc2.TLC", "-workers", str(workers), "-metadir", meta, "-cleanup",
            "-noGenerateSpecTE", "-config", cfg]
    if coverage:
        cmd += ["-coverage", "1"]
    if simulate:
        cmd += ["-simulate", simulate]
    cmd += list(extra) + [module]
    e = dict(os.environ)
    if env:
        e.update(env)
    t = time.time()
    with open(out_path, "w") as f:
        try:
            p = subprocess.run(cmd, cwd=SPEC, stdout=f, stderr=subprocess.STDOUT, env=e, timeout=timeout)
        except subprocess.TimeoutExpired:
            raise ToolError(f"TLC timed out after {timeout}s on {module} {cfg}")
    res = {"out": out_path, "generated": 0, "distinct": 0, "violated": None, "coverage": {},
           "rc": p.returncode, "wall": time.time() - t, "errors": []}
    with open(out_path, errors="replace") as f:
        for line in f:
            if line.startswith("<<\"T"):
                continue
            m = TLC_STATS.match(line)
            if m:
                res["generated"], res["distinct"] = int(m.group(1)), int(m.group(2))
            m3 = re.match(r"^The number of states generated: (\d+)", line)
            if m3:
                res["generated"] = int(m3.group(1))
            m = COV_LINE.match(line)
            if m:
                k = m.group(1)
                res["coverage"][k] = res["coverage"].get(k, 0) + int(m.group(4))
            if line.startswith("Error:"):
                res["errors"].append(line.strip())
                m2 = re.search(r"(Invariant|Action property|Temporal properties?|property) (\w+)? ?(is|was|were) violated", line)
                if m2:
                    res["violated"] = line.strip()
            if "Deadlock reached" in line:
                res["violated"] = "Deadlock reached"
    shutil.rmtree(meta, ignore_errors=True)
    res["ok"] = p.returncode == 0 and not res["errors"]
    ctx.note(f"TLC {module} {os.path.basename(cfg)}: {res['generated']} generated, {res['distinct']} distinct, "
             f"rc={p.returncode}, {res['wall']:.1f}s")
    return res


def tlc_must_pass(ctx, res, what):
    """A TLC run over the specification itself: a property violation there is reported as a
    violation of the design; any other failure is a tool error."""
    if res["ok"]:
        return
    if res["violated"]:
        ctx.violation(f"spec:{what}:{res['violated']}", f"TLC reports: {res['violated']} (see {res['out']})",
                      {"tlc_output": res["out"]}, "tlc")
        return
    tail = subprocess.run(["tail", "-n", "25", res["out"]], stdout=subprocess.PIPE, text=True).stdout
    raise ToolError(f"TLC failed on {what}: {res['errors'][:3]}\n{tail}")


def harness(ctx, binary, args, env=None, timeout=3600, stdin=None):
    """Runs a harness binary; returns its SUMMARY json."""
    e = dict(os.environ, VERIF_SEED=str(ctx.seed), VERIF_SCRATCH=SCRATCH)
    if env:
        e.update(env)
    t = time.time()
    try:
        p = subprocess.run([os.path.join(BIN, binary), *args], stdout=subprocess.PIPE, stderr=subprocess.PIPE,
                           text=True, env=e, timeout=timeout, input=stdin)
    except subprocess.TimeoutExpired:
        raise ToolError(f"{binary} timed out after {timeout}s")
    summary = None
    for line in p.stdout.splitlines():
        if line.startswith("SUMMARY "):
            summary = json.loads(line[8:])
    if summary is None:
        sys.stdout.write(p.stdout[-3000:])
        sys.stdout.write(p.stderr[-3000:])
        if p.returncode in (101, -6, 134):
            # the driver shares its process with the code under test: a panic / abort in there is an
            # observation about that code (it never happens on a tree where the property holds), not a
            # defect of the tooling - reported as a violation, with the tail of stderr as the witness
            tail = " | ".join(l for l in p.stderr.splitlines()[-12:] if l.strip())
            ctx.violation(f"{binary}: the process running the code under test panicked", tail[-1500:],
                          {"binary": binary, "args": list(args), "returncode": p.returncode}, binary)
        raise ToolError(f"{binary} gave no SUMMARY (rc={p.returncode})")
    ctx.note(f"{binary}: {summary['evaluations']} evaluations, {summary.get('mismatches_total', len(summary['mismatches']))} "
             f"mismatches, {time.time() - t:.1f}s")
    return summary


def take_summary(ctx, summary, engine):
    for m in summary["mismatches"]:
        ctx.violation(m["signature"], m["detail"], m["case"], engine)
    for s in summary.get("samples", []):
        ctx.sample(s)


def load_known():
    p = os.path.join(ROOT, "known_findings.json")
    if not os.path.exists(p):
        return []
    return json.load(open(p))


def finish(ctx, rule, exhaustive=None, extra_cov=None):
    """Prints verdict lines, writes evidence, returns the exit code."""
    known = [k for k in load_known() if k["property"] == ctx.id and k["status"] == "known"]
    rep_dir = os.path.join(ROOT, "replays", ctx.id + ("-replayed" if getattr(ctx, "replay_mode", False) else ""))
    shutil.rmtree(rep_dir, ignore_errors=True)
    real = []
    seen_known = {}
    for (sig, detail, case, engine) in ctx.violations:
        k = next((k for k in known if k["signature"] == sig), None)
        if k:
            seen_known[sig] = k
        else:
            real.append((sig, detail, case, engine))
    for sig, k in seen_known.items():
        print(f"KNOWN-FINDING: property={ctx.id} {k['description']}")
    # one replay file per distinct signature (first case), at most 20
    by_sig = {}
    for v in real:
        by_sig.setdefault(v[0], v)
    if by_sig:
        os.makedirs(rep_dir, exist_ok=True)
    for i, (sig, (s, detail, case, engine)) in enumerate(list(by_sig.items())[:20]):
        path = os.path.join(rep_dir, f"{i}.json")
        json.dump({"property": ctx.id, "engine": engine, "signature": s, "detail": detail, "case": case},
                  open(path, "w"), indent=1)
        if ctx.id.startswith("X"):
            # an extension specification (behaviour outside the listed properties): never reported as a
            # violation of a listed property
            print(f"EXT-VIOLATION spec={ctx.id} replay={path}")
        else:
            print(f"VIOLATION property={ctx.id} replay={path}")
        print(f"  {s}: {detail[:700]}")
    cov = dict(ctx.cov)
    cov["rule"] = rule
    if exhaustive is not None:
        cov["exhaustive"] = exhaustive
    if extra_cov:
        cov.update(extra_cov)
    cov.setdefault("samples", [])
    if ctx.level == "model_checking" and cov.get("states", 0) > 0:
        for k in ("transitions", "traces_validated_against_impl"):
            cov.setdefault(k, 0)
    cov.setdefault("evaluations", 0)
    cov.setdefault("distinct_nontrivial", 0)
    ev = {"property_id": ctx.id, "tier": ctx.tier, "seed": ctx.seed, "level": ctx.level, "coverage": cov,
          "assumptions": ctx.assumptions, "wall_s": round(time.time() - ctx.t0, 1),
          "violations": len(real), "known_findings_reproduced": sorted(seen_known)}
    if not getattr(ctx, "replay_mode", False) and not os.environ.get("VERIF_NO_EVIDENCE"):   # a --replay run is not evidence
        evdir = os.path.join(ROOT, "evidence_ext" if ctx.id.startswith("X") else "evidence")
        os.makedirs(evdir, exist_ok=True)
        json.dump(ev, open(os.path.join(evdir, f"{ctx.id}.json"), "w"), indent=1)
    ctx.note(f"done in {ev['wall_s']}s: {len(real)} violation(s), {len(seen_known)} known finding(s)")
    return 1 if real else 0


def write_ndjson(path, events):
    with open(path, "w") as f:
        for e in events:
            f.write(json.dumps(e) + "\n")
