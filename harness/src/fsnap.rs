//! Raw file-system snapshots (path -> kind, mode, bytes / link target), used for frame checks
//! and byte-for-byte comparisons.
use serde::Serialize;
use std::collections::BTreeMap;
use std::fs;
use std::os::unix::ffi::OsStrExt;
use std::os::unix::fs::PermissionsExt;
use std::path::Path;

#[derive(Serialize, Clone, Debug, PartialEq, Eq)]
pub enum Node {
    Dir { mode: u32 },
    File { mode: u32, hex: String },
    Link { target: String },
    Other,
    Unreadable { what: String },
}

pub type Snap = BTreeMap<String, Node>;

pub fn lossy(p: &Path) -> String {
    // injective, printable rendering of an arbitrary path ('/' is kept)
    p.as_os_str().as_bytes().escape_ascii().to_string()
}

/// Snapshot of everything below `root` (not following symlinks). Keys are relative paths.
pub fn snapshot(root: &Path) -> Snap {
    let mut m = Snap::new();
    walk(root, root, &mut m);
    m
}

fn walk(root: &Path, p: &Path, m: &mut Snap) {
    let rel = lossy(p.strip_prefix(root).unwrap_or(p));
    let md = match fs::symlink_metadata(p) {
        Ok(md) => md,
        Err(e) => {
            m.insert(rel, Node::Unreadable { what: e.kind().to_string() });
            return;
        }
    };
    let ft = md.file_type();
    if ft.is_symlink() {
        let t = fs::read_link(p).map(|t| lossy(&t)).unwrap_or_default();
        m.insert(rel, Node::Link { target: t });
    } else if ft.is_dir() {
        m.insert(rel.clone(), Node::Dir { mode: md.permissions().mode() & 0o7777 });
        match fs::read_dir(p) {
            Ok(rd) => {
                let mut kids: Vec<_> = rd.filter_map(Result::ok).map(|e| e.path()).collect();
                kids.sort();
                for k in kids {
                    walk(root, &k, m);
                }
            }
            Err(e) => {
                m.insert(format!("{rel}/?"), Node::Unreadable { what: e.kind().to_string() });
            }
        }
    } else if ft.is_file() {
        match fs::read(p) {
            Ok(b) => {
                m.insert(rel, Node::File { mode: md.permissions().mode() & 0o7777, hex: crate::util::hex(&b) });
            }
            Err(e) => {
                m.insert(rel, Node::Unreadable { what: e.kind().to_string() });
            }
        }
    } else {
        m.insert(rel, Node::Other);
    }
}

/// Human-readable difference of two snapshots (empty = equal).
pub fn diff(a: &Snap, b: &Snap) -> Vec<String> {
    let mut d = Vec::new();
    for (k, v) in a {
        match b.get(k) {
            None => d.push(format!("- {k} {v:?}")),
            Some(w) if w != v => d.push(format!("~ {k} {v:?} -> {w:?}")),
            _ => {}
        }
    }
    for (k, v) in b {
        if !a.contains_key(k) {
            d.push(format!("+ {k} {v:?}"));
        }
    }
    d
}
