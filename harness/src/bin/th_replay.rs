//! Direction A+B for TestHarness.tla (C16) and Argv.tla (C17): every scenario TLC generated is
//! run with the real libcnb-test TestRunner against stand-in docker/pack executables; the argv
//! log is compared with the command sequence the specification predicts, written out for trace
//! validation (resource automaton), and decoded against the configuration that was used.
use serde_json::{json, Value};
use std::collections::{BTreeMap, BTreeSet};
use std::fs;
use std::io::Write;
use std::path::{Path, PathBuf};
use std::process::Command;
use verif_harness::fsnap;
use verif_harness::util::*;

const NASTY: [&str; 10] = ["plain", "--rm", "-e", "a=b=c", "with space", "\u{fc}ml\u{e4}ut", "--env=X=1", "", "'quoted'", "$HOME;ls"];

fn gen_cfg(r: &mut fastrand::Rng, absolute_app: Option<&Path>) -> Value {
    let s = |r: &mut fastrand::Rng| NASTY[r.usize(..NASTY.len())].to_string();
    let nonempty = |r: &mut fastrand::Rng| loop { let x = NASTY[r.usize(..NASTY.len())]; if !x.is_empty() { return x.to_string(); } };
    let kv = |r: &mut fastrand::Rng, n: usize| -> Vec<Value> {
        let mut m = BTreeMap::new();
        for i in 0..n { m.insert(format!("{}{i}", ["KEY", "key_with_underscore", "K"][r.usize(..3)]), s(r)); }
        m.into_iter().map(|(k, v)| json!([k, v])).collect()
    };
    let nb = r.usize(1..4);
    let ne = r.usize(0..6);
    let nce = r.usize(0..3);
    let builder = ["heroku/builder:24", "builder with space", "--builder-looking"][r.usize(..3)];
    json!({
        "builder": builder,
        "app_dir": absolute_app.map_or("fixture app".to_string(), |p| p.to_string_lossy().to_string()),
        "buildpacks": (0..nb).map(|i| format!("{}{}", ["heroku/procfile", "docker://x/y:1", "--buildpack-looking", "../relative dir"][r.usize(..4)], i)).collect::<Vec<_>>(),
        "build_env": kv(r, ne),
        "shell": s(r),
        "container": {
            "entrypoint": if r.bool() { Value::Null } else { json!(nonempty(r)) },
            "command": if r.bool() { Value::Null } else { json!((0..r.usize(0..3)).map(|_| s(r)).collect::<Vec<_>>()) },
            "env": kv(r, nce),
            "ports": (0..r.usize(0..3)).map(|_| [80u16, 443, 12345, 1][r.usize(..4)]).collect::<BTreeSet<_>>(),
            // (sources may repeat: bind_mount keeps one target per source, the last one)
            "mounts": (0..r.usize(0..4)).map(|i| json!([format!("/host/{}{}", ["a", "with space", "--x"][r.usize(..3)], i % 2), format!("/in/{}{i}", ["b", "t t"][r.usize(..2)])])).collect::<Vec<_>>(),
        }
    })
}

/// pack build <image> [flags]: interspersed flags; returns (positional, multi-map of flag -> values, bool flags)
fn parse_pack_build(argv: &[String]) -> Result<(Vec<String>, Vec<(String, String)>, BTreeSet<String>), String> {
    let value_flags = ["--builder", "-B", "--cache", "--path", "-p", "--pull-policy", "--buildpack", "-b", "--env", "-e"];
    let bool_flags = ["--trust-builder", "--trust-extra-buildpacks"];
    if argv.first().map(String::as_str) != Some("build") { return Err("not a pack build".into()); }
    let (mut pos, mut vals, mut flags) = (vec![], vec![], BTreeSet::new());
    let canon = |f: &str| match f { "-B" => "--builder", "-p" => "--path", "-b" => "--buildpack", "-e" => "--env", o => o }.to_string();
    let mut i = 1;
    while i < argv.len() {
        let a = argv[i].as_str();
        if value_flags.contains(&a) {
            let v = argv.get(i + 1).ok_or(format!("{a} without a value"))?;
            vals.push((canon(a), v.clone()));
            i += 2;
        } else if bool_flags.contains(&a) {
            flags.insert(a.to_string());
            i += 1;
        } else if a.starts_with("--") && a.contains('=') && value_flags.contains(&a.split('=').next().unwrap()) {
            let (k, v) = a.split_once('=').unwrap();
            vals.push((k.to_string(), v.to_string()));
            i += 1;
        } else if a.starts_with('-') && a != "-" {
            return Err(format!("unknown pack flag {a:?}"));
        } else {
            pos.push(a.to_string());
            i += 1;
        }
    }
    Ok((pos, vals, flags))
}

/// docker run [OPTIONS] IMAGE [COMMAND] [ARG...]: options are not interspersed
fn parse_docker_run(argv: &[String]) -> Result<(Vec<(String, String)>, BTreeSet<String>, String, Vec<String>), String> {
    let value_opts = ["--name", "--platform", "--entrypoint", "--env", "-e", "--publish", "-p", "--mount", "--volume", "-v"];
    let bool_opts = ["--detach", "-d", "--rm"];
    if argv.first().map(String::as_str) != Some("run") { return Err("not a docker run".into()); }
    let (mut vals, mut flags) = (vec![], BTreeSet::new());
    let canon = |f: &str| match f { "-e" => "--env", "-p" => "--publish", "-v" => "--volume", "-d" => "--detach", o => o }.to_string();
    let mut i = 1;
    while i < argv.len() {
        let a = argv[i].as_str();
        if value_opts.contains(&a) {
            let v = argv.get(i + 1).ok_or(format!("{a} without a value"))?;
            vals.push((canon(a), v.clone()));
            i += 2;
        } else if bool_opts.contains(&a) {
            flags.insert(canon(a));
            i += 1;
        } else if a.starts_with("--") && a.contains('=') && value_opts.contains(&a.split('=').next().unwrap()) {
            let (k, v) = a.split_once('=').unwrap();
            vals.push((k.to_string(), v.to_string()));
            i += 1;
        } else if a.starts_with('-') && a.len() > 1 {
            return Err(format!("unknown docker run option {a:?}"));
        } else {
            return Ok((vals, flags, a.to_string(), argv[i + 1..].to_vec()));
        }
    }
    Err("no image".into())
}

struct Outcome {
    problems16: Vec<String>,
    problems17: Vec<String>,
    event: Value,
    argv_events: Vec<Value>,
}

fn tok(a: &str) -> Value {
    let (n, v) = if a.starts_with("--") { a.split_once('=').unwrap_or(("", "")) } else { ("", "") };
    json!({"s": a, "dash": a.starts_with('-') && a.len() > 1, "eqname": n, "eqval": v})
}

fn run_scenario(sc: &Value, idx: usize, bin: &Path, scratch: &Path, local: bool) -> Outcome {
    let mut r = fastrand::Rng::with_seed(seed().wrapping_mul(7919).wrapping_add(idx as u64));
    let tmp = tempfile::tempdir_in(scratch).unwrap();
    let d = tmp.path().canonicalize().unwrap();
    for s in ["bin", "state", "tmp", "proj/fixture app/sub", "decoy cwd/fixture app"] { fs::create_dir_all(d.join(s)).unwrap(); }
    // the working directory of a test process need not be the manifest directory: a same-named
    // relative directory there must never be mistaken for the fixture
    fs::write(d.join("decoy cwd/fixture app/WRONG-DIRECTORY"), "x").unwrap();
    fs::write(d.join("proj/fixture app/Procfile"), "web: run\n").unwrap();
    fs::write(d.join("proj/fixture app/sub/file"), "x").unwrap();
    for n in ["docker", "pack"] { std::os::unix::fs::symlink(bin.join("standin"), d.join("bin").join(n)).unwrap(); }
    let absolute = r.bool();
    let abs_app = d.join("proj/fixture app");
    let mut cfg = gen_cfg(&mut r, if absolute { Some(&abs_app) } else { None });
    // every third relative configuration names the fixture through a symlinked directory and "..":
    // what that path denotes is for the OS to say (<link target>/../fixture app), not for string surgery
    let via_link = !absolute && !local && idx % 3 == 0;
    if via_link {
        for s in ["elsewhere/sub", "elsewhere/fixture app/sub"] { fs::create_dir_all(d.join(s)).unwrap(); }
        fs::write(d.join("elsewhere/fixture app/Procfile"), "web: run\n").unwrap();
        fs::write(d.join("elsewhere/fixture app/sub/file"), "x").unwrap();
        fs::write(d.join("elsewhere/fixture app/the-right-one"), "x").unwrap();
        std::os::unix::fs::symlink("../elsewhere/sub", d.join("proj/via-link")).unwrap();
        cfg["app_dir"] = json!("via-link/../fixture app");
    }
    // every third configuration also mounts sources that exist: a symlink, the directory it points to (two
    // different sources, two mounts) and a spelling of it with ".." - what is configured is what docker gets
    if idx % 3 == 1 {
        fs::create_dir_all(d.join("mnt/releases/v1")).unwrap();
        std::os::unix::fs::symlink("releases/v1", d.join("mnt/current")).unwrap();
        let m = cfg["container"]["mounts"].as_array_mut().unwrap();
        m.push(json!([d.join("mnt/current").to_string_lossy(), "/srv/current"]));
        if idx % 2 == 1 { m.push(json!([d.join("mnt/releases/v1").to_string_lossy(), "/srv/v1"])); }
        if idx % 4 == 1 { m.push(json!([d.join("mnt/releases/../releases/v1").to_string_lossy(), "/srv/dotted"])); }
    }
    // every other configuration rebuilds with the context's own configuration (`ctx.config.clone()`), and sets
    // the container's command before its entrypoint
    cfg["rebuild_from_context"] = json!(idx % 2 == 0 && !local);
    cfg["command_first"] = json!(idx % 4 >= 2);
    // local mode: the manifest directory is a buildpack crate in a Cargo workspace with a second
    // crate and a composite buildpack; buildpack references mix CurrentCrate / WorkspaceBuildpack /
    // Other and the (dependency-free) crates are really compiled and packaged
    let mut toolchain_bin = String::new();
    if local {
        let w = |rel: &str, text: &str| { let p = d.join(rel); fs::create_dir_all(p.parent().unwrap()).unwrap(); fs::write(p, text).unwrap(); };
        w("Cargo.toml", "[workspace]\nresolver = \"2\"\nmembers = [\"proj\", \"bp-b\"]\n");
        for (dir, pkg, id) in [("proj", "bp-a", "verif/a"), ("bp-b", "bp-b", "verif/b")] {
            w(&format!("{dir}/Cargo.toml"), &format!("[package]\nname = \"{pkg}\"\nversion = \"0.0.1\"\nedition = \"2021\"\n"));
            w(&format!("{dir}/src/main.rs"), &format!("fn main() {{ println!(\"VERIF-MARKER<{id}>\"); }}\n"));
            w(&format!("{dir}/buildpack.toml"), &format!("api = \"0.10\"\n\n[buildpack]\nid = \"{id}\"\nversion = \"0.0.1\"\n\n[[targets]]\nos = \"linux\"\n"));
        }
        w("meta/buildpack.toml", "api = \"0.10\"\n\n[buildpack]\nid = \"verif/meta\"\nversion = \"0.0.1\"\n\n[[order]]\n[[order.group]]\nid = \"verif/a\"\nversion = \"0.0.1\"\n");
        w("meta/package.toml", "[buildpack]\nuri = \".\"\n\n[[dependencies]]\nuri = \"libcnb:verif/b\"\n\n[[dependencies]]\nuri = \"libcnb:verif/a\"\n");
        w(".ignore", "tmp/\nstate/\nbin/\n");
        let refs = [json!({"current": true}), json!({"workspace": "verif/meta"}), json!({"workspace": "verif/b"}), json!("heroku/procfile"), json!("docker://x/y:1")];
        let n = r.usize(1..4);
        let mut bps: Vec<Value> = (0..n).map(|_| refs[r.usize(..refs.len())].clone()).collect();
        if !bps.iter().any(|b| !b.is_string()) { bps[0] = refs[idx % 3].clone(); }
        // a reference list enumerated by LocalPackaging.tla
        if let Some(rs) = sc["refs"].as_array() {
            bps = rs.iter().map(|x| match x.as_str().unwrap() { "current" => json!({"current": true}), "other" => json!("heroku/procfile"), ws => json!({"workspace": ws.trim_start_matches("ws:")}) }).collect();
        }
        cfg["buildpacks"] = json!(bps);
        // every fourth local configuration builds for the other musl target, every third with the release profile
        if idx % 4 == 1 { cfg["target_triple"] = json!(if std::env::consts::ARCH == "x86_64" { "aarch64-unknown-linux-musl" } else { "x86_64-unknown-linux-musl" }); }
        if idx % 3 == 2 { cfg["release"] = json!(true); }
        let cargo = Command::new("rustup").args(["which", "cargo"]).output().ok().filter(|o| o.status.success()).map(|o| String::from_utf8_lossy(&o.stdout).trim().to_string()).or_else(|| {
            // no rustup: the first cargo on PATH
            std::env::var_os("PATH").and_then(|p| std::env::split_paths(&p).map(|d| d.join("cargo")).find(|c| c.is_file())).map(|c| c.to_string_lossy().to_string())
        }).unwrap_or_else(|| "/usr/bin/cargo".into());
        toolchain_bin = Path::new(&cargo).parent().unwrap().to_string_lossy().to_string();
        // the musl targets libcnb-test builds for are not installed in this sandbox: like docker and
        // pack, the cross toolchain is a stand-in - a `cargo` on PATH that builds for the host's gnu
        // target instead (the output directory of the musl target is a link to it) and C compilers
        // that only have to exist
        let host = format!("{}-unknown-linux-gnu", std::env::consts::ARCH);
        let wrapper = format!("#!/bin/sh\nif [ \"$1\" = build ] && [ -f \"$STANDIN_STATE/cargo-fail-at\" ]; then\n  done_builds=$(cat \"$STANDIN_STATE/count-pack-build\" 2>/dev/null || echo 0)\n  if [ \"$done_builds\" = \"$(cat \"$STANDIN_STATE/cargo-fail-at\")\" ]; then echo 'error: scripted compile failure' >&2; exit 101; fi\nfi\nn=$#\nwhile [ $n -gt 0 ]; do a=\"$1\"; shift; n=$((n-1))\n  case \"$a\" in *-unknown-linux-musl) a={host};; esac\n  set -- \"$@\" \"$a\"\ndone\nexec {cargo} \"$@\"\n");
        w("bin/cargo", &wrapper);
        for n in ["cargo", "musl-gcc", "x86_64-linux-gnu-gcc", "aarch64-linux-gnu-gcc"] {
            use std::os::unix::fs::PermissionsExt;
            if n != "cargo" { w(&format!("bin/{n}"), "#!/bin/sh\nexec cc \"$@\"\n"); }
            fs::set_permissions(d.join("bin").join(n), fs::Permissions::from_mode(0o755)).unwrap();
        }
        fs::create_dir_all(d.join("target")).unwrap();
        for musl in ["x86_64-unknown-linux-musl", "aarch64-unknown-linux-musl"] { std::os::unix::fs::symlink(&host, d.join("target").join(musl)).unwrap(); }
    }
    // plan: outcome queues per command kind, in script order
    let mut plan: BTreeMap<&str, Vec<String>> = BTreeMap::new();
    let script = sc["script"].as_array().unwrap();
    for s in script {
        let step = s["step"].as_str().unwrap();
        let o = &s["outcome"];
        let mut push = |k: &'static str, v: &str| plan.entry(k).or_default().push(v.to_string());
        match step {
            "build" | "rebuild" => { if !["nopack", "missing", "nocopy"].contains(&o["pack"].as_str().unwrap()) { push("pack-build", o["pack"].as_str().unwrap()) } }
            "shell" => push("run-oneshot", o.as_str().unwrap()),
            "sbom" => push("sbom", o.as_str().unwrap()),
            "start_container" => push("run-detached", o.as_str().unwrap()),
            "logs" => push("logs", o.as_str().unwrap()),
            "exec" => push("exec", o.as_str().unwrap()),
            "port" => { push("port", o.as_str().unwrap()); if o == "fail" { push("logs", "ok"); } }
            _ => {}
        }
    }
    if let Some(k) = script.iter().filter(|s| s["step"] == "build" || s["step"] == "rebuild").position(|s| s["outcome"]["pack"] == "nopack") {
        fs::write(d.join("state/cargo-fail-at"), k.to_string()).unwrap();
    }
    // pack = "missing": no pack executable anywhere on PATH
    if script[0]["outcome"]["pack"] == "missing" { fs::remove_file(d.join("bin/pack")).unwrap(); }
    // pack = "nocopy": the fixture holds something the private copy cannot be made of
    if script[0]["outcome"]["pack"] == "nocopy" {
        let true_fixture = if via_link { d.join("elsewhere/fixture app") } else { d.join("proj/fixture app") };
        std::os::unix::fs::symlink("points/nowhere", true_fixture.join("dangling link")).unwrap();
    }
    fs::write(d.join("state/plan.json"), json!(plan).to_string()).unwrap();
    // what the daemon holds besides this run's resources: a stopped container, a tagged and a dangling image, a volume
    fs::create_dir_all(d.join("state/foreign")).unwrap();
    for f in ["container", "image", "dangling-image", "volume"] { fs::write(d.join("state/foreign").join(f), "not created by this run").unwrap(); }
    fs::write(d.join("scenario.json"), json!({"script": script, "cfg": cfg}).to_string()).unwrap();
    let fixture_root = if local { d.join("proj/fixture app") } else { d.join("proj") };
    let fixture_before = (fsnap::snapshot(&fixture_root), fsnap::snapshot(&d.join("elsewhere")));
    let mut command = Command::new(bin.join("scenario"));
    command.arg(d.join("scenario.json")).current_dir(d.join("decoy cwd")).env_clear().envs(std::env::var_os("LLVM_PROFILE_FILE").map(|v| ("LLVM_PROFILE_FILE", v)))
        .env("PATH", format!("{}:/usr/bin:/bin", d.join("bin").display())).env("STANDIN_STATE", d.join("state"))
        .env("TMPDIR", d.join("tmp")).env("CARGO_MANIFEST_DIR", d.join("proj")).env("HOME", &d);
    if local {
        command.env("PATH", format!("{}:{toolchain_bin}:/usr/bin:/bin", d.join("bin").display())).env("CARGO", format!("{toolchain_bin}/cargo"))
            .env("CARGO_NET_OFFLINE", "true").env("CARGO_HOME", d.join("cargo-home")).env("CARGO_TERM_QUIET", "true");
        // (should that cargo be a rustup proxy after all, it finds its toolchains although HOME is the temp dir)
        let real_home = std::env::var_os("HOME").map(PathBuf::from).unwrap_or_default();
        command.env("RUSTUP_HOME", std::env::var_os("RUSTUP_HOME").map(PathBuf::from).unwrap_or_else(|| real_home.join(".rustup")));
        if let Some(tc) = std::env::var_os("RUSTUP_TOOLCHAIN") { command.env("RUSTUP_TOOLCHAIN", tc); }
    }
    let out = command.output().expect("scenario");
    let code = out.status.code();
    let stderr = String::from_utf8_lossy(&out.stderr).to_string();
    let log: Vec<Value> = fs::read_to_string(d.join("state/log.ndjson")).unwrap_or_default().lines().map(|l| serde_json::from_str(l).unwrap()).collect();
    let mut p16 = vec![];
    let mut p17 = vec![];
    if stderr.contains("HARNESS:") { p16.push(format!("HARNESS problem: {}", stderr.lines().find(|l| l.contains("HARNESS")).unwrap_or(""))); }
    let expected_panic = sc["panics"] == true;
    // a configuration whose buildpacks cannot even be packaged never reaches pack: that is C17's
    // business ("every build configuration results in one pack build invocation"), not C16's
    let nopack = script.iter().any(|s| s["outcome"]["pack"] == "nopack");
    if script[0]["outcome"]["pack"] == "nocopy" && !stderr.contains("Error copying app fixture") { p16.push(format!("the fixture cannot be copied, yet the build went on: {}", stderr.lines().rev().take(3).collect::<Vec<_>>().join(" | "))); }
    if nopack && !stderr.contains("Error packaging") { p16.push("the scripted compile failure of a local buildpack did not stop the build".into()); }
    let packaging_failed = local && stderr.contains("Error packaging") && !nopack;
    if packaging_failed {
        p17.push(format!("pack build: never invoked because a configured buildpack could not be packaged: references {}: {}", cfg["buildpacks"], stderr.lines().find(|l| l.contains("Error packaging")).unwrap_or("")));
    }
    match code {
        _ if packaging_failed => {}
        Some(0) if expected_panic => p16.push("the scenario was expected to panic but the process exited 0".into()),
        Some(0) => {}
        Some(101) if expected_panic => {}
        Some(101) => p16.push(format!("the test process panicked although nothing failed: {}", stderr.lines().rev().take(6).collect::<Vec<_>>().join(" | "))),
        other => p16.push(format!("the test process died abnormally ({other:?}): {}", stderr.lines().rev().take(4).collect::<Vec<_>>().join(" | "))),
    }
    // canonicalise the argv log
    let mut image: Option<String> = None;
    let mut vols: BTreeSet<String> = BTreeSet::new();
    // the run's own names first (whatever the order of the commands): the image is pack's positional
    // argument or - when pack was never reached - the generated libcnbtest_ name it removes, the
    // volumes are pack's --cache names or the two derived from the image name
    for e in &log {
        let argv: Vec<String> = e["argv"].as_array().unwrap().iter().map(|x| x.as_str().unwrap().to_string()).collect();
        match e["kind"].as_str().unwrap() {
            "pack-build" => if let Ok((pos, vals, _)) = parse_pack_build(&argv) {
                if image.is_none() { image = pos.first().cloned(); }
                for (k, v) in &vals { if k == "--cache" { if let Some(n) = v.split("name=").nth(1) { vols.insert(n.to_string()); } } }
            },
            _ => {}
        }
    }
    if image.is_none() {
        image = log.iter().filter(|e| e["kind"] == "rmi").find_map(|e| e["argv"].as_array().and_then(|a| a.iter().filter_map(|x| x.as_str()).find(|n| n.starts_with("libcnbtest_")).map(str::to_string)));
    }
    if vols.is_empty() { if let Some(i) = &image { vols = [format!("{i}.build-cache"), format!("{i}.launch-cache")].into_iter().collect(); } }
    let mut containers: Vec<String> = vec![];
    let mut cmds: Vec<Value> = vec![];
    let mut argv_events = vec![];
    for e in &log {
        let argv: Vec<String> = e["argv"].as_array().unwrap().iter().map(|x| x.as_str().unwrap().to_string()).collect();
        let kind = e["kind"].as_str().unwrap();
        fn own(image: &Option<String>, name: &str) -> String { if Some(name) == image.as_deref() { "img".to_string() } else { name.to_string() } }
        match kind {
            "pack-build" => {
                match parse_pack_build(&argv) {
                    Ok((pos, vals, flags)) => {
                        if image.is_none() { image = pos.first().cloned(); }
                        for (k, v) in &vals { if k == "--cache" { if let Some(n) = v.split("name=").nth(1) { vols.insert(n.to_string()); } } }
                        // C17: exactly the configured builder / path / buildpacks in order / env pairs once
                        let get = |f: &str| vals.iter().filter(|(k, _)| k == f).map(|(_, v)| v.clone()).collect::<Vec<_>>();
                        if pos.len() != 1 { p17.push(format!("pack build: positional arguments {pos:?} (user values leaked out of value positions?)")); }
                        if get("--builder") != vec![cfg["builder"].as_str().unwrap().to_string()] { p17.push(format!("pack build: builder {:?}, configured {}", get("--builder"), cfg["builder"])); }
                        let want_bps: Vec<String> = if local { get("--buildpack") } else { cfg["buildpacks"].as_array().unwrap().iter().map(|b| b.as_str().unwrap().to_string()).collect() };
                        if get("--buildpack") != want_bps { p17.push(format!("pack build: buildpacks {:?}, configured {want_bps:?}", get("--buildpack"))); }
                        if local {
                            // every reference, in order: Other verbatim; CurrentCrate / WorkspaceBuildpack as a directory that
                            // holds that buildpack, completely packaged (binary of the right crate, detect link, dependencies)
                            let got = get("--buildpack");
                            let refs = cfg["buildpacks"].as_array().unwrap();
                            let dirs = e["buildpack_dirs"].as_array().cloned().unwrap_or_default();
                            let complete = |x: &Value, id: &str| -> Option<String> {
                                if x["is_dir"] != true { return Some("is not a directory".into()); }
                                if x["id"] != id { return Some(format!("holds buildpack {} instead of {id}", x["id"])); }
                                if id == "verif/meta" { return None; }
                                if x["build"] != true || x["marker"] != id { return Some(format!("bin/build is not the binary of {id} (marker {})", x["marker"])); }
                                if x["detect"] != "build" { return Some(format!("bin/detect is {} instead of a link to build", x["detect"])); }
                                None
                            };
                            if got.len() != refs.len() { p17.push(format!("pack build: {} --buildpack arguments for {} configured references", got.len(), refs.len())); }
                            for (k, (g, want)) in got.iter().zip(refs).enumerate() {
                                if let Some(s) = want.as_str() {
                                    if g != s { p17.push(format!("pack build: buildpack #{k} is {g:?}, configured {s:?}")); }
                                    continue;
                                }
                                let id = want["workspace"].as_str().unwrap_or("verif/a");
                                match dirs.iter().find(|x| x["arg"] == g.as_str()) {
                                    None => p17.push(format!("pack build: buildpack #{k} ({id}) was passed as {g:?}, which is not a packaged buildpack directory")),
                                    Some(x) => {
                                        if let Some(why) = complete(x, id) { p17.push(format!("pack build: buildpack #{k}: the directory passed for {id} {why}")); }
                                        if id == "verif/meta" {
                                            let deps = x["deps"].as_array().cloned().unwrap_or_default();
                                            let ids: Vec<&str> = deps.iter().map(|dd| dd["id"].as_str().unwrap_or("?")).collect();
                                            if ids != ["verif/b", "verif/a"] { p17.push(format!("pack build: buildpack #{k}: package.toml of verif/meta lists {ids:?}, declared [verif/b, verif/a]")); }
                                            for dd in &deps {
                                                if let Some(why) = complete(dd, dd["id"].as_str().unwrap_or("?")) { p17.push(format!("pack build: buildpack #{k}: dependency {} of verif/meta {why}", dd["uri"])); }
                                            }
                                        }
                                    }
                                }
                            }
                        }
                        let want_env: Vec<String> = cfg["build_env"].as_array().unwrap().iter().map(|kv| format!("{}={}", kv[0].as_str().unwrap(), kv[1].as_str().unwrap())).collect();
                        let mut got_env = get("--env"); got_env.sort();
                        let mut we = want_env.clone(); we.sort();
                        if got_env != we { p17.push(format!("pack build: env {got_env:?}, configured {we:?}")); }
                        let path = get("--path");
                        let fixture = if via_link { d.join("elsewhere/fixture app") } else { d.join("proj/fixture app") }.to_string_lossy().to_string();
                        let first_build = cmds.iter().all(|c| c["cmd"] != "pack-build");
                        let preproc = script[0]["outcome"]["preproc"] == true && (first_build || cfg["rebuild_from_context"] == true);
                        if path.len() != 1 { p17.push(format!("pack build: --path given {} times", path.len())); }
                        else if !preproc && fs::canonicalize(&path[0]).ok() != fs::canonicalize(&fixture).ok() { p17.push(format!("pack build: app path {:?} is not the configured fixture {fixture:?}", path[0])); }
                        else if preproc {
                            let listing: Vec<String> = e["path_listing"].as_array().map(|a| a.iter().map(|x| x.as_str().unwrap().to_string()).collect()).unwrap_or_default();
                            if fs::canonicalize(&path[0]).ok() == fs::canonicalize(&fixture).ok() { p17.push("pack build: a preprocessor is configured but the fixture itself was passed as app path".into()); }
                            else if !(listing.contains(&"added-by-preprocessor".to_string()) && listing.contains(&"sub".to_string()) && !listing.contains(&"Procfile".to_string()) && listing.contains(&"sub/file=rewritten+appended".to_string()) && listing.contains(&"count=+p".to_string()) && (!via_link || listing.contains(&"the-right-one".to_string()))) { p17.push(format!("pack build: the private app copy does not carry the preprocessor's changes: {listing:?}")); }
                        }
                        let _ = flags;
                        argv_events.push(json!({"kind": "pack-build", "argv": argv.iter().map(|a| tok(a)).collect::<Vec<_>>(),
                            "cfg": {"builder": cfg["builder"], "buildpacks": want_bps, "env": want_env, "path": path.first()}}));
                    }
                    Err(e) => p17.push(format!("pack build argv does not parse under pack's grammar: {e}: {argv:?}")),
                }
                cmds.push(json!({"cmd": "pack-build", "arg": own(&image, &parse_pack_build(&argv).map(|p| p.0.first().cloned().unwrap_or_default()).unwrap_or_default())}));
            }
            "run-detached" | "run-oneshot" => {
                match parse_docker_run(&argv) {
                    Ok((vals, flags, img, command)) => {
                        let get = |f: &str| vals.iter().filter(|(k, _)| k == f).map(|(_, v)| v.clone()).collect::<Vec<_>>();
                        let name = get("--name").first().cloned().unwrap_or_default();
                        if kind == "run-detached" {
                            containers.push(name.clone());
                            let k = &cfg["container"];
                            let want_ep: Vec<String> = k["entrypoint"].as_str().map(|s| vec![s.to_string()]).unwrap_or_default();
                            if get("--entrypoint") != want_ep { p17.push(format!("docker run: entrypoint {:?}, configured {want_ep:?}", get("--entrypoint"))); }
                            let mut want_env: Vec<String> = k["env"].as_array().unwrap().iter().map(|kv| format!("{}={}", kv[0].as_str().unwrap(), kv[1].as_str().unwrap())).collect();
                            want_env.sort();
                            let mut got_env = get("--env"); got_env.sort();
                            if got_env != want_env { p17.push(format!("docker run: env {got_env:?}, configured {want_env:?}")); }
                            let mut want_ports: BTreeSet<u16> = k["ports"].as_array().unwrap().iter().map(|p| p.as_u64().unwrap() as u16).collect();
                            want_ports.insert(8080);
                            let got_ports: Result<BTreeSet<u16>, _> = get("--publish").iter().map(|p| p.rsplit(':').next().map(|x| x.trim_end_matches("/tcp")).ok_or(()).and_then(|x| x.parse::<u16>().map_err(|_| ()))).collect();
                            if got_ports != Ok(want_ports.clone()) { p17.push(format!("docker run: published ports {:?}, configured {want_ports:?}", get("--publish"))); }
                            let mut by_source: BTreeMap<String, String> = BTreeMap::new();
                            for m in k["mounts"].as_array().unwrap() { by_source.insert(m[0].as_str().unwrap().to_string(), m[1].as_str().unwrap().to_string()); }
                            let mut want_m: Vec<String> = by_source.iter().map(|(s, t)| format!("type=bind,source={s},target={t}")).collect();
                            want_m.sort();
                            let mut got_m = get("--mount"); got_m.sort();
                            if got_m != want_m { p17.push(format!("docker run: mounts {got_m:?}, configured {want_m:?}")); }
                            let want_cmd: Vec<String> = k["command"].as_array().map(|a| a.iter().map(|x| x.as_str().unwrap().to_string()).collect()).unwrap_or_default();
                            if command != want_cmd { p17.push(format!("docker run: command {command:?}, configured {want_cmd:?}")); }
                            if Some(img.as_str()) != image.as_deref() { p17.push(format!("docker run: image {img:?}, built image {image:?}")); }
                            if !flags.contains("--detach") { p17.push("docker run: container not detached".into()); }
                            argv_events.push(json!({"kind": "docker-run", "argv": argv.iter().map(|a| tok(a)).collect::<Vec<_>>(),
                                "cfg": {"entrypoint": want_ep, "env": want_env, "mounts": want_m, "image": img, "command": want_cmd}}));
                            let cname = format!("c{}", containers.len());
                            cmds.push(json!({"cmd": "run-detached", "arg": cname}));
                        } else {
                            let want_cmd = vec![cfg["shell"].as_str().unwrap().to_string()];
                            if command != want_cmd { p17.push(format!("docker run (shell): command {command:?}, configured {want_cmd:?}")); }
                            if get("--entrypoint") != vec!["launcher".to_string()] { p17.push(format!("docker run (shell): entrypoint {:?}", get("--entrypoint"))); }
                            cmds.push(json!({"cmd": "run-oneshot", "arg": own(&image, &img)}));
                        }
                    }
                    Err(e) => { p17.push(format!("docker run argv does not parse under docker's grammar: {e}: {argv:?}")); cmds.push(json!({"cmd": kind, "arg": "?"})); }
                }
            }
            "logs" | "port" | "exec" | "rm" => {
                let name = argv.get(1).cloned().unwrap_or_default();
                let c = containers.iter().position(|n| *n == name).map_or(name.clone(), |i| format!("c{}", i + 1));
                let forced = |argv: &[String]| argv.iter().any(|a| a == "--force" || a == "-f");
                if kind == "rm" && !forced(&argv) { p16.push("docker rm without --force".into()); }
                cmds.push(json!({"cmd": kind, "arg": c}));
            }
            "rmi" => {
                if !argv.iter().any(|a| a == "--force" || a == "-f") { p16.push("docker rmi without --force".into()); }
                // no pack build was logged (packaging failed first): the run's own names are the generated ones
                if image.is_none() { if let Some(n) = argv.get(1).filter(|n| n.starts_with("libcnbtest_")) { image = Some(n.clone()); } }
                cmds.push(json!({"cmd": "rmi", "arg": own(&image, argv.get(1).map_or("", String::as_str))}));
            }
            "volume-rm" => {
                let names: BTreeSet<String> = argv[2..].iter().filter(|a| !a.starts_with('-')).cloned().collect();
                if !argv.iter().any(|a| a == "--force" || a == "-f") { p16.push("docker volume remove without --force".into()); }
                if vols.is_empty() { if let Some(i) = &image { vols = [format!("{i}.build-cache"), format!("{i}.launch-cache")].into_iter().collect(); } }
                cmds.push(json!({"cmd": "volume-rm", "arg": if names == vols && !vols.is_empty() { "vols".to_string() } else { format!("{names:?}") }}));
            }
            "sbom" => cmds.push(json!({"cmd": "sbom", "arg": own(&image, argv.get(2).map_or("", String::as_str))})),
            // looking at the daemon changes nothing; what a host-wide prune did to the daemon's other
            // resources is judged on the stand-in's world after the run
            "ps" | "prune" => {}
            other => p16.push(format!("unexpected external command {other}: {argv:?}")),
        }
    }
    // direction A: the command sequence is the one the scope machine predicts
    // (only the resource-relevant commands are compared: the property does not prescribe which
    // read-only commands a test helper issues; those are judged by the resource automaton)
    let relevant = |v: &[Value]| -> Vec<Value> { v.iter().filter(|c| matches!(c["cmd"].as_str().unwrap_or(""), "pack-build" | "run-detached" | "rm" | "rmi" | "volume-rm")).cloned().collect() };
    let want: Vec<Value> = relevant(sc["trace"].as_array().unwrap());
    let cmds_rel = relevant(&cmds);
    // (compared as multisets: which commands, how often - the order constraints that matter, e.g. no
    // use after removal, no image removed while a container lives, are the resource automaton's,
    // and the property does not prescribe an order between the image and the volumes)
    // C17: one pack build per build configuration (the scenario says how many builds reach pack)
    let n_pack = |v: &[Value]| v.iter().filter(|c| c["cmd"] == "pack-build").count();
    if n_pack(&cmds_rel) != n_pack(&want) && !packaging_failed {
        p17.push(format!("pack build: invoked {} times for {} build configuration(s) that reach pack", n_pack(&cmds_rel), n_pack(&want)));
    }
    let as_bag = |v: &[Value]| { let mut b: Vec<String> = v.iter().map(|c| c.to_string()).collect(); b.sort(); b };
    if as_bag(&cmds_rel) != as_bag(&want) && !packaging_failed {
        let f = |v: &[Value]| v.iter().map(|c| format!("{} {}", c["cmd"].as_str().unwrap_or("?"), c["arg"].as_str().unwrap_or("?"))).collect::<Vec<_>>().join(", ");
        p16.push(format!("resource commands [{}], the specification predicts [{}]; stderr of the test process: {}", f(&cmds_rel), f(&want), stderr.lines().filter(|l| !l.trim().is_empty()).rev().take(5).collect::<Vec<_>>().join(" | ")));
    }
    let temps_left = fs::read_dir(d.join("tmp")).map(|rd| rd.count()).unwrap_or(0);
    if temps_left != 0 { p16.push(format!("{temps_left} temporary directories left behind in TMPDIR")); }
    for f in ["container", "image", "dangling-image", "volume"] {
        if !d.join("state/foreign").join(f).exists() { p16.push(format!("a Docker resource the run did not create is gone: the daemon's other {f}")); }
    }
    let fixture_after = (fsnap::snapshot(&fixture_root), fsnap::snapshot(&d.join("elsewhere")));
    if fixture_before != fixture_after {
        let mut diff = fsnap::diff(&fixture_before.0, &fixture_after.0);
        diff.extend(fsnap::diff(&fixture_before.1, &fixture_after.1));
        p17.push(format!("the app fixture was modified: {diff:?}"));
    }
    Outcome { problems16: p16, problems17: p17, event: json!({"cmds": cmds, "temps_left": temps_left, "script": script}), argv_events }
}

fn main() {
    let args: Vec<String> = std::env::args().collect();
    let input = PathBuf::from(&args[1]);
    let trace16 = PathBuf::from(&args[2]);
    let trace17 = PathBuf::from(&args[3]);
    let single = args.get(4).map(String::as_str) == Some("--single");
    let scratch = PathBuf::from(std::env::var("VERIF_SCRATCH").unwrap_or_else(|_| "/dev/shm/verif-scratch".into())).join("th");
    fs::create_dir_all(&scratch).unwrap();
    let bin = std::env::current_exe().unwrap().parent().unwrap().to_path_buf();
    let raw: Vec<Value> = if single { vec![serde_json::from_str(&fs::read_to_string(&input).unwrap()).unwrap()] } else { read_tlc_tagged(&input, "SC") };
    let limit: usize = std::env::var("VERIF_LIMIT").ok().and_then(|s| s.parse().ok()).unwrap_or(usize::MAX);
    let raw: Vec<Value> = raw.into_iter().take(limit).collect();
    // a compile failure of a local buildpack (pack = "nopack") needs the local mode
    let is_nopack = |sc: &Value| sc["script"].as_array().unwrap().iter().any(|s| s["outcome"]["pack"] == "nopack");
    let (nopack_scs, raw): (Vec<Value>, Vec<Value>) = if single { (vec![], raw) } else { raw.into_iter().partition(|sc| is_nopack(sc)) };
    let mut results = par_map(&raw, threads(), |i, sc| run_scenario(sc, i, &bin, &scratch, sc["local"] == true || is_nopack(sc)));
    // a sample of the scenarios again, with locally packaged buildpacks (really compiled)
    let n_local: usize = std::env::var("VERIF_LOCAL").ok().and_then(|s| s.parse().ok()).unwrap_or(48);
    let local_scs: Vec<Value> = if single { vec![] } else { raw.iter().step_by((raw.len() / n_local.max(1)).max(1)).take(n_local).cloned().map(|mut v| { v["local"] = json!(true); v }).collect() };
    let mut local_scs = local_scs;
    let n_nopack: usize = std::env::var("VERIF_NOPACK").ok().and_then(|s| s.parse().ok()).unwrap_or(60);
    local_scs.extend(nopack_scs.iter().step_by((nopack_scs.len() / n_nopack.max(1)).max(1)).take(n_nopack).cloned().map(|mut v| { v["local"] = json!(true); v }));
    if let Some(lp) = std::env::var_os("VERIF_LP") {
        for c in read_tlc_tagged(Path::new(&lp), "LP") {
            local_scs.push(json!({"local": true, "refs": c["refs"], "panics": false,
                "script": [{"step": "build", "outcome": {"expected": "Success", "pack": "ok", "preproc": false}}, {"step": "return", "outcome": "-"}],
                "trace": [{"cmd": "pack-build", "arg": "img"}, {"cmd": "rmi", "arg": "img"}, {"cmd": "volume-rm", "arg": "vols"}]}));
        }
    }
    let local_results = par_map(&local_scs, threads(), |i, sc| run_scenario(sc, i, &bin, &scratch, true));
    let n_plain = raw.len();
    let mut raw = raw;
    raw.extend(local_scs.iter().cloned());
    results.extend(local_results);
    let mut f16 = std::io::BufWriter::new(fs::File::create(&trace16).unwrap());
    let mut f17 = std::io::BufWriter::new(fs::File::create(&trace17).unwrap());
    let mut s = Summary::default();
    s.evaluations = raw.len();
    let mut shapes = BTreeSet::new();
    let mut n17 = 0usize;
    for (sc, o) in raw.iter().zip(results) {
        writeln!(f16, "{}", o.event).unwrap();
        for e in &o.argv_events { writeln!(f17, "{e}").unwrap(); n17 += 1; }
        shapes.insert(sc["script"].to_string());
        let steps: Vec<String> = sc["script"].as_array().unwrap().iter().map(|x| format!("{}{}", x["step"].as_str().unwrap(), if x["outcome"] == "fail" { "!" } else { "" })).collect();
        for p in o.problems16 { s.mismatches.push(Mismatch { signature: format!("C16:{}", steps.join(">")), detail: p, case: sc.clone() }); }
        for p in o.problems17 { s.mismatches.push(Mismatch { signature: format!("C17:{}", p.split(':').take(2).collect::<Vec<_>>().join(":")), detail: p, case: sc.clone() }); }
    }
    s.distinct_nontrivial = shapes.len();
    s.extra.insert("argv_events".into(), json!(n17));
    s.extra.insert("local_buildpack_scenarios".into(), json!(raw.len() - n_plain));
    s.samples = raw.iter().step_by((raw.len() / 3).max(1)).take(3).cloned().collect();
    s.print();
}
