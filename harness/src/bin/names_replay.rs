//! Direction A for PlatformNames.tla (extension X05): every (kind, string) case of the model through
//! `FromStr`, `Display`, `Deserialize` (TOML and JSON) and `Serialize` of
//! `libherokubuildpack::inventory::artifact::{Os, Arch}`, and through a whole inventory document.
use libherokubuildpack::inventory::artifact::{Arch, Os};
use libherokubuildpack::inventory::Inventory;
use serde::{Deserialize, Serialize};
use serde_json::{json, Value};
use sha2::Sha256;
use std::path::PathBuf;
use verif_harness::util::*;

#[derive(Deserialize, Serialize)]
struct One<T> {
    v: T,
}

const NONE: &str = "<none>";

fn toml_str(s: &str) -> String {
    toml::Value::String(s.to_string()).to_string()
}

fn case<T>(kind: &str, s: &str, c: &Value, p: &mut Vec<String>)
where
    T: std::str::FromStr + std::fmt::Display + serde::de::DeserializeOwned + Serialize + Copy,
    T::Err: std::fmt::Display,
{
    let want_parse = c["parse"].as_str().unwrap();
    let want_decode = c["decode"].as_str().unwrap();
    match s.parse::<T>() {
        Ok(v) => {
            let shown = v.to_string();
            if shown != want_parse {
                p.push(format!("{kind}: parsing {s:?} gives the value displayed as {shown:?}, the specification says {want_parse:?}"));
            }
            // what is displayed is what is serialised, and both readers take it back to the same value
            let ser = toml::to_string(&One { v }).unwrap_or_else(|e| format!("<{e}>"));
            if ser.trim() != format!("v = {}", toml_str(&shown)) {
                p.push(format!("{kind}: {shown:?} is serialised as {ser:?}"));
            }
            match shown.parse::<T>() {
                Ok(again) if again.to_string() == shown => {}
                Ok(again) => p.push(format!("{kind}: displayed name {shown:?} parses to {:?}", again.to_string())),
                Err(e) => p.push(format!("{kind}: displayed name {shown:?} is refused: {e}")),
            }
        }
        Err(e) => {
            if want_parse != NONE {
                p.push(format!("{kind}: parsing {s:?} is refused ({e}), the specification says {want_parse:?}"));
            } else if e.to_string() != c["refusal"].as_str().unwrap() {
                p.push(format!("{kind}: refusal of {s:?} reads {:?}, the specification says {:?}", e.to_string(), c["refusal"]));
            }
        }
    }
    let doc = format!("v = {}\n", toml_str(s));
    let from_toml = toml::from_str::<One<T>>(&doc).map(|o| o.v.to_string()).unwrap_or_else(|_| NONE.to_string());
    let from_json = serde_json::from_value::<One<T>>(json!({ "v": s })).map(|o| o.v.to_string()).unwrap_or_else(|_| NONE.to_string());
    if from_toml != want_decode {
        p.push(format!("{kind}: decoding TOML {s:?} gives {from_toml:?}, the specification says {want_decode:?}"));
    }
    if from_json != want_decode {
        p.push(format!("{kind}: decoding JSON {s:?} gives {from_json:?}, the specification says {want_decode:?}"));
    }
}

fn main() {
    let args: Vec<String> = std::env::args().collect();
    let input = PathBuf::from(&args[1]);
    let cases = read_tlc_tagged(&input, "PN");
    let mut s = Summary::default();
    let (mut accepted, mut decoded, mut docs_ok) = (0, 0, 0);
    for c in &cases {
        let kind = c["kind"].as_str().unwrap();
        let text = c["s"].as_str().unwrap();
        let mut p = vec![];
        match kind {
            "os" => case::<Os>(kind, text, c, &mut p),
            "arch" => case::<Arch>(kind, text, c, &mut p),
            o => panic!("kind {o}"),
        }
        // the string in its place in an inventory document: the document is read exactly when the model
        // decodes the string, and the artifact then carries that value and renders it again
        let (os, arch) = if kind == "os" { (text, "amd64") } else { ("linux", text) };
        let doc = format!(
            "[[artifacts]]\nversion = \"1.0.0\"\nos = {}\narch = {}\nurl = \"u\"\nchecksum = \"sha256:{}\"\nmetadata = \"m\"\n",
            toml_str(os), toml_str(arch), "ab".repeat(32)
        );
        let want_decode = c["decode"].as_str().unwrap();
        match doc.parse::<Inventory<String, Sha256, String>>() {
            Ok(inv) => {
                let a = &inv.artifacts[0];
                let got = if kind == "os" { a.os.to_string() } else { a.arch.to_string() };
                if got != want_decode {
                    p.push(format!("{kind}: an inventory with {text:?} is read with {got:?}, the specification says {want_decode:?}"));
                } else {
                    docs_ok += 1;
                    let again = inv.to_string().parse::<Inventory<String, Sha256, String>>();
                    if !again.is_ok_and(|i| i.artifacts == inv.artifacts) {
                        p.push(format!("{kind}: the inventory read from {text:?} does not survive rendering and parsing"));
                    }
                }
            }
            Err(_) if want_decode == NONE => {}
            Err(e) => p.push(format!("{kind}: an inventory with {text:?} is refused ({e}), the specification says {want_decode:?}")),
        }
        s.evaluations += 1;
        if c["parse"] != NONE { accepted += 1; }
        if c["decode"] != NONE { decoded += 1; }
        if c["parse"] != c["decode"] { s.distinct_nontrivial += 1; }
        for d in p {
            s.mismatches.push(Mismatch { signature: d.chars().take(60).collect(), detail: d, case: c.clone() });
        }
    }
    s.extra.insert("name_cases".into(), json!(cases.len()));
    s.extra.insert("accepted_by_from_str".into(), json!(accepted));
    s.extra.insert("accepted_by_deserialize".into(), json!(decoded));
    s.extra.insert("inventory_documents_read".into(), json!(docs_ok));
    s.samples = cases.iter().step_by((cases.len() / 3).max(1)).take(3).cloned().collect();
    s.print();
}
