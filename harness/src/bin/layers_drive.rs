//! Direction B for Layers.tla: seeded random build histories on the real library, logged as one
//! ndjson event per public call (at return, also on the error path) with the full projected
//! <layers> directory. spec/LayersTrace.tla decides whether the log is a behaviour of the spec.
use serde_json::{json, Value};
use std::collections::{BTreeMap, BTreeSet};
use std::io::Write;
use std::path::PathBuf;
use verif_harness::layers::*;
use verif_harness::util::*;

fn sbom3(r: &mut fastrand::Rng, toks: &[&str], p_none: f64) -> BTreeMap<String, String> {
    FORMATS.iter().map(|(f, _)| (f.to_string(), if r.f64() < p_none { "none".to_string() } else { toks[r.usize(..toks.len())].to_string() })).collect()
}
fn no_sbom3() -> BTreeMap<String, String> {
    FORMATS.iter().map(|(f, _)| (f.to_string(), "none".to_string())).collect()
}
fn no_shape() -> AShape {
    AShape { env: "none".into(), execd: BTreeSet::new(), sbom: no_sbom3(), files: BTreeSet::new() }
}
fn no_res() -> ARes {
    ARes { k: "unused".into(), md: no_md(), shape: no_shape() }
}
fn no_arg() -> AArg {
    AArg { md: no_md(), env: "none".into(), execd: BTreeSet::new(), sbom: no_sbom3(), file: "-".into() }
}
fn subset(r: &mut fastrand::Rng, toks: &[&str]) -> BTreeSet<String> {
    toks.iter().filter(|_| r.bool()).map(|s| s.to_string()).collect()
}
fn pick<'a>(r: &mut fastrand::Rng, xs: &[&'a str]) -> &'a str {
    xs[r.usize(..xs.len())]
}
fn env_obs(act: &str, n: &str) -> AObs {
    AObs { act: act.into(), n: n.into(), ty: no_ty(), t: "G".into(), ima: no_dec(), rla: no_dec(), strat: no_dec(), mig: no_dec(), cres: no_res(), ures: no_res(), arg: no_arg(), ret: ret_unit(), calls: vec![] }
}

fn random_env(r: &mut fastrand::Rng) -> Vec<EnvEntry> {
    let scopes = ["all", "build", "launch", "process:web", "process:worker", "process:a b"];
    let behs = ["append", "default", "delim", "override", "prepend"];
    let names: [&[u8]; 6] = [b"PATH", b"A.B", b".hid", b"X.append", b"N\xffU", b"with space"];
    let vals: [&[u8]; 5] = [b"", b"v", b"a:b", b"\xfe\x00bin", b"line\nline"];
    let mut m = BTreeMap::new();
    for _ in 0..r.usize(1..7) {
        let e = ee(scopes[r.usize(..scopes.len())], behs[r.usize(..behs.len())], names[r.usize(..names.len())], vals[r.usize(..vals.len())]);
        m.insert((e.scope.clone(), e.beh.clone(), e.name.clone()), e);
    }
    m.into_values().collect()
}

fn main() {
    let args: Vec<String> = std::env::args().collect();
    let out = PathBuf::from(&args[1]);
    let histories: usize = args[2].parse().unwrap();
    let events: usize = args[3].parse().unwrap();
    let api = args.get(4).cloned().unwrap_or_else(|| "mixed".into());
    // C20: also log a digest of the raw bytes of the whole <layers> directory after every event
    let digests = std::env::var("VERIF_DIGESTS").is_ok();
    let scratch = PathBuf::from(std::env::var("VERIF_SCRATCH").unwrap_or_else(|_| "/dev/shm/verif-scratch".into()));
    std::fs::create_dir_all(&scratch).unwrap();
    let mut r = fastrand::Rng::with_seed(seed());
    let mut u = Universe::standard(&scratch.join("exec-src"));
    u.write_exec_sources();
    for i in 0..8 {
        u.envs.insert(format!("r{i}"), random_env(&mut r));
    }
    // distinct env tokens must stand for distinct environments
    let mut seen = BTreeSet::new();
    u.envs.retain(|_, e| {
        let mut e = e.clone();
        e.sort();
        seen.insert(e)
    });
    let env_toks: Vec<String> = u.envs.keys().cloned().collect();
    let env_toks: Vec<&str> = env_toks.iter().map(String::as_str).collect();
    let names = ["x", "xx", "x y", "x.y"];
    let sboms = ["s1", "s2", "s3"];
    let files = ["f1", "f2", "f3"];
    let execs = ["p1", "p2", "p3"];
    let mdv = ["1", "2", "3"];
    let causes = ["c1", "c2"];

    let mut f = std::io::BufWriter::new(std::fs::File::create(&out).unwrap());
    let mut total = 0usize;
    let mut per_action: BTreeMap<String, usize> = BTreeMap::new();
    let mut outcomes: BTreeSet<String> = BTreeSet::new();
    let mut samples: Vec<Value> = vec![];
    let mut stray_reports: Vec<Mismatch> = vec![];
    for h in 0..histories {
        let tmp = tempfile::tempdir_in(&scratch).unwrap();
        let layers_dir = tmp.path().join("layers");
        std::fs::create_dir_all(&layers_dir).unwrap();
        let ctx = build_context(&layers_dir);
        let mut refs: BTreeMap<String, AnyRef> = BTreeMap::new();
        let snapshot = |refs: &BTreeMap<String, AnyRef>| -> (Value, Value) {
            let l: BTreeMap<String, ALayer> = names.iter().map(|n| (n.to_string(), project(&u, &layers_dir, n))).collect();
            (json!(l), json!(refs.keys().collect::<Vec<_>>()))
        };
        {
            let (l, rf) = snapshot(&refs);
            writeln!(f, "{}", json!({"obs": env_obs("reset", "-"), "L": l, "refs": rf, "history": h})).unwrap();
        }
        for _ in 0..events {
            let n = pick(&mut r, &names).to_string();
            let w = r.u32(..100);
            let mut o = env_obs("?", &n);
            let md_of = |r: &mut fastrand::Rng, t: &str| -> AMd {
                let kind = match t {
                    "G" => pick(r, &["none", "A", "B", "X", "AX"]),
                    "L" => "A",
                    k => k,
                };
                if kind == "none" { no_md() } else { AMd { kind: kind.into(), v: pick(r, &mdv).into() } }
            };
            if std::env::var_os("VERIF_DIGESTS").is_some() && r.u32(..40) == 0 && layers_dir.join(&n).is_dir() {
                // (paired runs of C20 only, never sent to TLC) something outside libcnb leaves two files that
                // denote the same variable and behaviour in the layer's env directory: which one a later
                // read yields is the library's choice - but the same choice in every process
                let env_dir = layers_dir.join(&n).join("env");
                std::fs::create_dir_all(&env_dir).unwrap();
                std::fs::write(env_dir.join("DUP"), "without suffix").unwrap();
                std::fs::write(env_dir.join("DUP.override"), "with suffix").unwrap();
                std::fs::write(env_dir.join("DUP2.override"), "with suffix").unwrap();
                std::fs::write(env_dir.join("DUP2"), "without suffix").unwrap();
            }
            if w < 10 {
                lifecycle_restore(&u, &layers_dir, &names.iter().map(|s| s.to_string()).collect::<Vec<_>>());
                refs.clear();
                o = env_obs("restore", "-");
            } else if w < 11 {
                for n in names {
                    remove_layer_completely(&layers_dir, n);
                }
                refs.clear();
                o = env_obs("cache_lost", "-");
            } else if w < 14 {
                if !refs.is_empty() || !layers_dir.join(&n).is_dir() || project(&u, &layers_dir, &n).toml.k == "garbage" {
                    continue;
                }
                std::fs::write(layers_dir.join(format!("{n}.toml")), GARBAGE_TOML).unwrap();
                o = env_obs("foreign_garbage", &n);
            } else if w < 60 {
                // a layer request with a full set of scripted decisions
                let t = pick(&mut r, &["A", "B", "G", "L"]).to_string();
                o.t = t.clone();
                let dec = |r: &mut fastrand::Rng, ks: &[&str], with_md: bool| -> ADec {
                    let k = pick(r, ks);
                    ADec { k: k.into(), c: if k == "Err" { "-".into() } else { pick(r, &causes).into() }, md: if with_md && k == "Replace" && t != "G" { AMd { kind: if t == "L" { "A".into() } else { t.clone() }, v: pick(r, &mdv).into() } } else { no_md() } }
                };
                let res = |r: &mut fastrand::Rng| -> ARes {
                    if r.u32(..8) == 0 {
                        return ARes { k: "Err".into(), md: no_md(), shape: no_shape() };
                    }
                    ARes { k: "Ok".into(), md: md_of(r, &t), shape: AShape { env: if r.bool() { "none".into() } else { pick(r, &env_toks).into() }, execd: subset(r, &execs), sbom: sbom3(r, &sboms, 0.5), files: subset(r, &files) } }
                };
                let kind = match api.as_str() {
                    "struct" => if w < 45 { "cached_layer" } else { "uncached_layer" },
                    "trait" => "handle_layer",
                    _ => if w < 30 { "cached_layer" } else if w < 38 { "uncached_layer" } else { "handle_layer" },
                };
                o.act = kind.into();
                o.ty = ATy { set: true, build: r.bool(), launch: r.bool(), cache: match kind { "cached_layer" => true, "uncached_layer" => false, _ => r.bool() } };
                match kind {
                    "cached_layer" => {
                        o.ima = if t == "G" { ADec { k: "Delete".into(), c: "c1".into(), md: no_md() } } else { dec(&mut r, &["Delete", "Replace", "Replace", "Err"], true) };
                        o.rla = dec(&mut r, &["Keep", "Keep", "Delete", "Err"], false);
                    }
                    "uncached_layer" => {
                        o.t = "G".into();
                    }
                    _ => {
                        o.strat = ADec { c: "-".into(), ..dec(&mut r, &["Keep", "Keep", "Update", "Update", "Update", "Recreate", "Err", "Default"], false) };
                        o.mig = if t == "G" { ADec { k: "Recreate".into(), c: "-".into(), md: no_md() } } else { ADec { c: "-".into(), ..dec(&mut r, &["Recreate", "Replace", "Replace", "Err", "Default"], true) } };
                        o.cres = res(&mut r);
                        o.ures = if r.u32(..5) == 0 { ARes { k: "Default".into(), md: no_md(), shape: no_shape() } } else { res(&mut r) };
                    }
                }
                let (ret, calls, newref) = execute(&u, &ctx, &o, None);
                if let Some(nr) = newref {
                    refs.insert(n.clone(), nr);
                }
                // decisions that were not consulted are not part of the observation
                let consulted = |cb: &str| calls.iter().any(|c| c.cb == cb);
                if kind == "uncached_layer" {
                    // library-internal constant callbacks: inferred from the reported cause
                    if ret.cause == "RestoredLayerAction" {
                        o.rla = ADec { k: "Delete".into(), c: "unit".into(), md: no_md() };
                    }
                    if ret.cause == "InvalidMetadataAction" {
                        o.ima = ADec { k: "Delete".into(), c: "unit".into(), md: no_md() };
                    }
                } else {
                    if !consulted("ima") { o.ima = no_dec(); }
                    if !consulted("rla") { o.rla = no_dec(); }
                }
                if !consulted("strategy") { o.strat = no_dec(); }
                if !consulted("migrate") { o.mig = no_dec(); }
                if !consulted("create") { o.cres = no_res(); }
                if !consulted("update") { o.ures = no_res(); }
                o.ret = ret;
                o.calls = calls;
            } else {
                // a writer on one of the LayerRefs of this build
                if refs.is_empty() {
                    continue;
                }
                let keys: Vec<String> = refs.keys().cloned().collect();
                let n = keys[r.usize(..keys.len())].clone();
                o = env_obs("?", &n);
                let kind = pick(&mut r, &["write_metadata", "write_env", "write_env", "read_env", "write_sboms", "write_sboms", "write_exec_d", "write_file"]);
                o.act = kind.into();
                match kind {
                    "write_metadata" => o.arg.md = md_of(&mut r, "G"),
                    "write_env" => o.arg.env = if r.u32(..5) == 0 { "none".into() } else { pick(&mut r, &env_toks).into() },
                    "write_sboms" => o.arg.sbom = sbom3(&mut r, &sboms, 0.4),
                    "write_exec_d" => {
                        o.arg.execd = subset(&mut r, &execs);
                        if r.u32(..4) == 0 { o.arg.execd.insert(if r.bool() { "gone" } else { "dangling" }.into()); }
                        if digests && r.u32(..3) == 0 {
                            // (paired runs of C20 only, never sent to TLC) a program that is re-registered from the
                            // layer's own exec.d: its source is there when the call starts and gone once exec.d is replaced
                            let link = u.exec_src.join("self");
                            let _ = std::fs::remove_file(&link);
                            std::os::unix::fs::symlink(layers_dir.join(&n).join("exec.d").join("p1"), &link).unwrap();
                            o.arg.execd.insert("self".into());
                            o.arg.execd.insert("p2".into());
                            o.arg.execd.insert("p3".into());
                        }
                    }
                    "write_file" => o.arg.file = pick(&mut r, &files).into(),
                    _ => {}
                }
                let (ret, calls, _) = execute(&u, &ctx, &o, refs.get(&n));
                o.ret = ret;
                o.calls = calls;
            }
            let (l, rf) = snapshot(&refs);
            let st = strays(&layers_dir, &names);
            if !st.is_empty() && stray_reports.len() < 5 {
                stray_reports.push(Mismatch { signature: format!("{} leaves entries outside any layer", o.act), detail: format!("after {} on {:?}: unexpected entries {st:?} directly below <layers>", o.act, o.n), case: json!({"obs": o}) });
            }
            *per_action.entry(o.act.clone()).or_default() += 1;
            outcomes.insert(format!("{}|{}|{}|{}|{}", o.act, o.ret.kind, o.ret.cause, o.strat.k, o.mig.k));
            let mut ev = json!({"obs": o, "L": l, "refs": rf, "history": h});
            if digests {
                let snap = verif_harness::fsnap::snapshot(&layers_dir);
                ev["raw"] = json!(format!("{:x}", snap.iter().fold(1469598103934665603u64, |hh, (k, n)| format!("{k}{n:?}").bytes().fold(hh, |a, b| (a ^ b as u64).wrapping_mul(1099511628211)))));
                if let Some(dump) = std::env::var_os("VERIF_DUMP_AT") { if dump.to_string_lossy() == total.to_string() { ev["raw_full"] = json!(snap); } }
            }
            if samples.len() < 4 && total % 97 == 13 {
                samples.push(json!({"history": h, "act": o.act, "n": o.n, "ret": o.ret, "calls": o.calls}));
            }
            writeln!(f, "{ev}").unwrap();
            total += 1;
        }
    }
    f.flush().unwrap();
    let mut s = Summary::default();
    s.evaluations = total;
    s.distinct_nontrivial = outcomes.len();
    s.samples = samples;
    s.mismatches = stray_reports;
    s.extra.insert("per_action".into(), json!(per_action));
    s.extra.insert("histories".into(), json!(histories));
    s.print();
}
