//! C07 driver: runs the real builders / types for every call sequence of Documents.tla and for
//! seeded documents, writes the TOML with libcnb's own writers into <outdir>/<n>.toml and the
//! intended document into <outdir>/expected.ndjson. tools/toml_check.py decodes the files with
//! Python's tomllib and compares. Types that libcnb can read back are compared here.
use libcnb::data::build_plan::{BuildPlanBuilder, Require};
use libcnb::data::launch::{Label, Launch, LaunchBuilder, Process, ProcessBuilder, Slice, WorkingDirectory};
use libcnb::data::layer_content_metadata::{LayerContentMetadata, LayerTypes};
use libcnb::data::package_descriptor::PackageDescriptor;
use libcnb::data::store::Store;
use libcnb::data::process_type;
use libcnb::{read_toml_file, write_toml_file};
use serde_json::{json, Value};
use std::io::Write;
use std::os::unix::process::CommandExt;
use std::path::PathBuf;
use verif_harness::tomlgen::*;
use verif_harness::util::*;

const NASTY: [&str; 8] = ["plain", "with \"quotes\"", "back\\slash\\", "new\nline\r\n", "tab\tand ctrl \u{1}\u{7f}", "uni \u{e9}\u{4e16}\u{1f600}", "", "'single' # not a comment = x"];

fn tagged_to_toml(v: &Value) -> toml::Value {
    let o = v.as_object().unwrap();
    let (tag, x) = o.iter().next().unwrap();
    match tag.as_str() {
        "s" => toml::Value::String(x.as_str().unwrap().into()),
        "i" => toml::Value::Integer(x.as_i64().unwrap()),
        "f" => toml::Value::Float(f64::from_bits(x.as_str().unwrap().parse().unwrap())),
        "b" => toml::Value::Boolean(x.as_bool().unwrap()),
        "d" => toml::Value::Datetime(x.as_str().unwrap().parse().unwrap()),
        "a" => toml::Value::Array(x.as_array().unwrap().iter().map(tagged_to_toml).collect()),
        "t" => toml::Value::Table(x.as_object().unwrap().iter().map(|(k, e)| (k.clone(), tagged_to_toml(e))).collect()),
        o => panic!("tag {o}"),
    }
}
fn tagged_table(v: &Value) -> toml::Table {
    match tagged_to_toml(v) { toml::Value::Table(t) => t, _ => unreachable!() }
}

struct Out { dir: PathBuf, n: usize, exp: std::io::BufWriter<std::fs::File>, problems: Vec<Mismatch> }
impl Out {
    /// the files are written over an older, longer document (outputs are rewritten build after build)
    fn path(&mut self) -> PathBuf {
        self.n += 1;
        let p = self.dir.join(format!("{}.toml", self.n));
        let stale: String = (0..60).map(|i| format!("stale-key-{i} = \"left over from an earlier, longer version of this file\"\n")).collect();
        std::fs::write(&p, stale).unwrap();
        p
    }
    fn expect(&mut self, file: &PathBuf, kind: &str, doc: Value, origin: Value) {
        writeln!(self.exp, "{}", json!({"file": file, "kind": kind, "expected": doc, "origin": origin})).unwrap();
    }
}

fn payload(tok: &str, salt: usize) -> String {
    let h = tok.bytes().fold(salt, |a, b| a.wrapping_mul(31).wrapping_add(b as usize));
    format!("{} [{}]", NASTY[h % NASTY.len()], tok)
}

fn main() {
    let args: Vec<String> = std::env::args().collect();
    let input = PathBuf::from(&args[1]);
    let dir = PathBuf::from(&args[2]);
    std::fs::create_dir_all(&dir).unwrap();
    let mut out = Out { dir: dir.clone(), n: 0, exp: std::io::BufWriter::new(std::fs::File::create(dir.join("expected.ndjson")).unwrap()), problems: vec![] };
    let mut r = fastrand::Rng::with_seed(seed());
    let mut evaluations = 0usize;

    // build plans
    for (i, v) in read_tlc_tagged(&input, "BP").iter().enumerate() {
        let md = gen_table(&mut r, 2);
        let mut b = BuildPlanBuilder::new();
        for c in v["calls"].as_array().unwrap() {
            let arg = c["arg"].as_str().unwrap();
            b = match c["op"].as_str().unwrap() {
                "provides" => b.provides(payload(arg, i)),
                "requires" => {
                    let mut req = Require::new(payload(arg, i));
                    if arg.contains("metadata") {
                        // set twice: the last call is the metadata, nothing of an earlier call survives
                        let mut first = toml::Table::new();
                        first.insert("set-by-an-earlier-call".into(), toml::Value::Boolean(true));
                        req.metadata(first).expect("metadata");
                        req.metadata(tagged_table(&md)).expect("metadata");
                    }
                    b.requires(req)
                }
                _ => b.or(),
            };
        }
        let p = out.path();
        write_toml_file(&b.build(), &p).expect("write build plan");
        let req = |a: &Value| json!({"name": payload(a.as_str().unwrap(), i), "metadata": if a.as_str().unwrap().contains("metadata") { md.clone() } else { json!({"t": {}}) }});
        let grp = |g: &Value| json!({"provides": g["provides"].as_array().unwrap().iter().map(|a| payload(a.as_str().unwrap(), i)).collect::<Vec<_>>(), "requires": g["requires"].as_array().unwrap().iter().map(req).collect::<Vec<_>>()});
        let d = &v["doc"];
        let top = grp(d);
        out.expect(&p, "build_plan", json!({"provides": top["provides"], "requires": top["requires"], "or": d["alternatives"].as_array().unwrap().iter().map(grp).collect::<Vec<_>>()}), v["calls"].clone());
        evaluations += 1;
    }
    // processes (inside a launch.toml with one process)
    let proc_of = |calls: &Value, ty: &str, i: usize| -> (Process, Value) {
        let mut b = ProcessBuilder::new(ty.parse().unwrap(), [payload("cmd", i), payload("cmd2", i)]);
        for c in calls.as_array().unwrap() {
            let arg = c["arg"].as_str().unwrap();
            match c["op"].as_str().unwrap() {
                "arg" => { b.arg(payload(arg, i)); }
                "args" => { b.args([payload("a2", i), payload("a3", i)]); }
                "default" => { b.default(arg == "true"); }
                "workdir" => { b.working_directory(if arg == "app" { WorkingDirectory::App } else if arg == "dot" { WorkingDirectory::Directory(PathBuf::from(".")) } else { WorkingDirectory::Directory(PathBuf::from(payload(arg, i))) }); }
                o => panic!("op {o}"),
            }
        }
        (b.build(), json!([payload("cmd", i), payload("cmd2", i)]))
    };
    for (i, v) in read_tlc_tagged(&input, "PB").iter().enumerate() {
        let (p, cmd) = proc_of(&v["calls"], "web", i);
        let launch = LaunchBuilder::new().process(p.clone()).build();
        let path = out.path();
        write_toml_file(&launch, &path).expect("write launch");
        let d = &v["doc"];
        let doc = json!({"type": "web", "command": cmd, "args": d["args"].as_array().unwrap().iter().map(|a| payload(a.as_str().unwrap(), i)).collect::<Vec<_>>(), "default": d["default"], "working-dir": if d["workdir"] == "app" { json!("app") } else if d["workdir"] == "dot" { json!(".") } else { json!(payload(d["workdir"].as_str().unwrap(), i)) }});
        out.expect(&path, "launch", json!({"processes": [doc], "labels": [], "slices": []}), v["calls"].clone());
        // read back with libcnb
        match read_toml_file::<Launch>(&path) {
            Ok(back) if back.processes == vec![p] && back.labels.is_empty() && back.slices.is_empty() => {}
            Ok(back) => out.problems.push(Mismatch { signature: "launch.toml read back differs".into(), detail: format!("{back:?}"), case: v.clone() }),
            Err(e) => out.problems.push(Mismatch { signature: "launch.toml cannot be read back".into(), detail: format!("{e}"), case: v.clone() }),
        }
        evaluations += 1;
    }
    for (i, v) in read_tlc_tagged(&input, "LB").iter().enumerate() {
        let mut b = LaunchBuilder::new();
        for c in v["calls"].as_array().unwrap() {
            let arg = c["arg"].as_str().unwrap();
            match c["op"].as_str().unwrap() {
                "process" => { b.process(ProcessBuilder::new(arg.parse().unwrap(), [payload(arg, i)]).build()); }
                "label" => { b.label(Label { key: payload(arg, i), value: payload("v", i + arg.len()) }); }
                "labels" => { b.labels([Label { key: payload("l3", i), value: payload("v", i + 2) }, Label { key: payload("l4", i), value: payload("v", i + 2) }]); }
                "slice" => { b.slice(Slice { path_globs: vec![payload(arg, i), "*.txt".into()] }); }
                "slices" => { b.slices([Slice { path_globs: vec![payload("s2", i), "*.txt".into()] }, Slice { path_globs: vec![payload("s3", i), "*.txt".into()] }]); }
                "processes" => { b.processes([ProcessBuilder::new("p3".parse().unwrap(), [payload("p3", i)]).build(), ProcessBuilder::new("p4".parse().unwrap(), [payload("p4", i)]).build()]); }
                o => panic!("op {o}"),
            }
        }
        let launch = b.build();
        let path = out.path();
        write_toml_file(&launch, &path).expect("write launch");
        let d = &v["doc"];
        let doc = json!({
            "processes": d["processes"].as_array().unwrap().iter().map(|t| json!({"type": t, "command": [payload(t.as_str().unwrap(), i)], "args": [], "default": false, "working-dir": "app"})).collect::<Vec<_>>(),
            "labels": d["labels"].as_array().unwrap().iter().map(|l| { let l = l.as_str().unwrap(); json!({"key": payload(l, i), "value": payload("v", i + 2)}) }).collect::<Vec<_>>(),
            "slices": d["slices"].as_array().unwrap().iter().map(|s| json!({"paths": [payload(s.as_str().unwrap(), i), "*.txt"]})).collect::<Vec<_>>(),
        });
        out.expect(&path, "launch", doc, v["calls"].clone());
        match read_toml_file::<Launch>(&path) {
            Ok(back) if back.processes == launch.processes && back.labels.len() == launch.labels.len() && back.slices.len() == launch.slices.len() => {}
            other => out.problems.push(Mismatch { signature: "launch.toml read back differs".into(), detail: format!("{other:?}"), case: v.clone() }),
        }
        evaluations += 1;
    }
    let _ = process_type!("web");
    // a working directory that TOML cannot hold (a legal Unix path that is not UTF-8): nothing an
    // independent reader could turn back into the constructed process may be written silently
    for (k, bytes) in [b"/workspace/caf\xe9".to_vec(), b"\xff".to_vec(), b"rel/\xc3\x28/x".to_vec()].into_iter().enumerate() {
        use std::os::unix::ffi::OsStringExt;
        let wd = PathBuf::from(std::ffi::OsString::from_vec(bytes.clone()));
        let mut b = ProcessBuilder::new("web".parse().unwrap(), ["cmd"]);
        b.working_directory(WorkingDirectory::Directory(wd));
        let launch = LaunchBuilder::new().process(b.build()).build();
        let path = out.dir.join(format!("nonutf8-{k}.toml"));
        if write_toml_file(&launch, &path).is_ok() {
            out.problems.push(Mismatch { signature: "non-UTF-8 working directory written without an error".into(),
                detail: format!("working directory bytes {bytes:?} were written as {:?}", std::fs::read_to_string(&path).unwrap_or_default()), case: json!({"bytes": bytes}) });
        }
        let _ = std::fs::remove_file(&path);
        evaluations += 1;
    }
    // seeded documents: layer content metadata, store, package descriptor, exec.d output
    let n_seeded: usize = std::env::var("VERIF_DOCS").ok().and_then(|s| s.parse().ok()).unwrap_or(400);
    for i in 0..n_seeded {
        let md = gen_table(&mut r, 3);
        let types = if r.bool() { Some(LayerTypes { build: r.bool(), launch: r.bool(), cache: r.bool() }) } else { None };
        let path = out.path();
        let lcm = LayerContentMetadata { types, metadata: Some(tagged_table(&md)) };
        write_toml_file(&lcm, &path).expect("write layer toml");
        out.expect(&path, "layer", json!({"types": types.map(|t| json!({"build": t.build, "launch": t.launch, "cache": t.cache})), "metadata": md}), json!(i));
        match read_toml_file::<LayerContentMetadata>(&path) {
            Ok(back) if back == lcm => {}
            other => out.problems.push(Mismatch { signature: "layer content metadata read back differs".into(), detail: format!("{other:?} vs {lcm:?}"), case: json!({"metadata": md}) }),
        }
        let path = out.path();
        let store = Store { metadata: tagged_table(&md) };
        write_toml_file(&store, &path).expect("write store");
        out.expect(&path, "store", json!({"metadata": md}), json!(i));
        match read_toml_file::<Store>(&path) {
            Ok(back) if back.metadata == store.metadata => {}
            other => out.problems.push(Mismatch { signature: "store read back differs".into(), detail: format!("{other:?}"), case: json!({"metadata": md}) }),
        }
        // package descriptor
        let uris = ["libcnb:verif/x", "../rel/some-path", "/abs/path", "docker://docker.io/a/b:1", "https://e.com/x.cnb?a=1#f", "urn:cnb:registry:a/b@1", "docker://Registry.Example.COM:5000/a/../b%7ec/./y:1", "https://Example.com/%7Euser/x.cnb", "../pool/example?rev=2", "/builds/run#42/buildpacks/example"];
        let deps: Vec<&str> = (0..r.usize(0..4)).map(|_| uris[r.usize(..uris.len())]).collect();
        let os = ["linux", "windows"][r.usize(..2)];
        let bp_uri = [".", "./sub", "docker://x/y", "https://Example.COM/a/./b/../c.cnb"][r.usize(..4)];
        let mut text = format!("[buildpack]\nuri = \"{bp_uri}\"\n");
        for d in &deps { text.push_str(&format!("\n[[dependencies]]\nuri = \"{d}\"\n")); }
        text.push_str(&format!("\n[platform]\nos = \"{os}\"\n"));
        let pd: PackageDescriptor = toml::from_str(&text).expect("package descriptor");
        let path = out.path();
        write_toml_file(&pd, &path).expect("write package.toml");
        out.expect(&path, "package", json!({"buildpack": bp_uri, "dependencies": deps, "os": os}), json!(i));
        // exec.d output through file descriptor 3
        let keys = ["PATH", "with-dash", "under_score", "K9"];
        let mut m: std::collections::BTreeMap<String, String> = std::collections::BTreeMap::new();
        for k in keys { if r.bool() { m.insert(k.to_string(), NASTY[r.usize(..NASTY.len())].to_string()); } }
        let path = out.path();
        let f = std::fs::File::create(&path).unwrap();
        let helper = std::env::current_exe().unwrap().parent().unwrap().join("execd_helper");
        let mut cmd = std::process::Command::new(helper);
        cmd.arg(serde_json::to_string(&m).unwrap());
        use std::os::fd::AsRawFd;
        let fd = f.as_raw_fd();
        unsafe { cmd.pre_exec(move || { if libc::dup2(fd, 3) < 0 { return Err(std::io::Error::last_os_error()); } Ok(()) }); }
        let st = cmd.status().expect("execd helper");
        if !st.success() { out.problems.push(Mismatch { signature: "exec.d helper failed".into(), detail: format!("{st:?}"), case: json!(m) }); }
        out.expect(&path, "execd", json!(m), json!(i));
        evaluations += 4;
    }
    out.exp.flush().unwrap();
    let mut s = Summary::default();
    s.evaluations = evaluations;
    s.distinct_nontrivial = out.n;
    s.mismatches = out.problems;
    s.extra.insert("files".into(), json!(out.n));
    s.print();
}
