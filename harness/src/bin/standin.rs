//! Stand-in for the `docker` and `pack` executables (installed under those names via symlinks,
//! first on PATH). Logs its argv (boundaries preserved) as one JSON line, classifies the call,
//! takes the scripted outcome for that kind of call from the plan, prints plausible output.
use serde_json::{json, Value};
use std::io::Write;

fn main() {
    let args: Vec<String> = std::env::args().collect();
    let prog = std::path::Path::new(&args[0]).file_name().unwrap().to_string_lossy().to_string();
    let mut a: Vec<&str> = args[1..].iter().map(String::as_str).collect();
    // docker's management-command spellings are the same commands: `docker container rm` = `docker rm`,
    // `docker image rm|remove` = `docker rmi`, `docker container run|logs|port|exec`
    if prog == "docker" && a.len() >= 2 {
        match (a[0], a[1]) {
            ("container", "run" | "rm" | "logs" | "port" | "exec") => { a.remove(0); }
            ("container", "ls" | "list" | "ps") => { a.remove(0); a[0] = "ps"; }
            ("image", "rm" | "remove") => { a.remove(0); a[0] = "rmi"; }
            _ => {}
        }
    }
    let norm: Vec<String> = a.iter().map(|x| x.to_string()).collect();
    let kind = match (prog.as_str(), a.first().copied()) {
        ("pack", Some("build")) => "pack-build",
        ("pack", Some("sbom")) => "sbom",
        ("docker", Some("run")) => if a.contains(&"--detach") || a.contains(&"-d") { "run-detached" } else { "run-oneshot" },
        ("docker", Some("logs")) => "logs",
        ("docker", Some("port")) => "port",
        ("docker", Some("exec")) => "exec",
        ("docker", Some("rm")) => "rm",
        ("docker", Some("rmi")) => "rmi",
        ("docker", Some("volume")) if a.get(1).is_some_and(|x| *x == "rm" || *x == "remove") => "volume-rm",
        ("docker", Some("ps")) => "ps",
        ("docker", Some("image" | "container" | "volume" | "system")) if a.get(1) == Some(&"prune") => "prune",
        _ => "unknown",
    };
    let state = std::path::PathBuf::from(std::env::var("STANDIN_STATE").expect("STANDIN_STATE"));
    let plan: Value = serde_json::from_str(&std::fs::read_to_string(state.join("plan.json")).unwrap_or_else(|_| "{}".into())).unwrap();
    // how many calls of this kind came before
    let counter = state.join(format!("count-{kind}"));
    let n: usize = std::fs::read_to_string(&counter).ok().and_then(|s| s.trim().parse().ok()).unwrap_or(0);
    std::fs::write(&counter, (n + 1).to_string()).unwrap();
    let outcome = plan[kind].get(n).and_then(Value::as_str).unwrap_or("ok").to_string();
    // for pack build: what is in the app directory that was passed (the private copy is gone later)
    let listing: Vec<String> = if kind == "pack-build" {
        a.iter().position(|x| *x == "--path" || *x == "-p").and_then(|i| a.get(i + 1)).copied()
            .or_else(|| a.iter().find_map(|x| x.strip_prefix("--path=")))
            .and_then(|p| std::fs::read_dir(p).ok().map(|rd| (p, rd)))
            .map(|(p, rd)| {
                let mut v: Vec<String> = rd.flatten().map(|e| e.file_name().to_string_lossy().to_string()).collect();
                v.sort();
                // ... and the content of one nested file (a preprocessor may rewrite it in place)
                if let Ok(c) = std::fs::read_to_string(std::path::Path::new(p).join("sub/file")) { v.push(format!("sub/file={c}")); }
                if let Ok(c) = std::fs::read_to_string(std::path::Path::new(p).join("count")) { v.push(format!("count={c}")); v.retain(|x| x != "count"); }
                v
            }).unwrap_or_default()
    } else { vec![] };
    // for pack build: what every --buildpack argument that is a directory holds at this moment
    // (locally packaged buildpacks live in a temporary directory that is gone later)
    let mut bp_dirs: Vec<Value> = vec![];
    if kind == "pack-build" {
        let describe = |p: &std::path::Path| -> Value {
            let text = std::fs::read_to_string(p.join("buildpack.toml")).unwrap_or_default();
            let id = text.lines().find_map(|l| l.trim().strip_prefix("id = \"").and_then(|r| r.split('"').next()).map(str::to_string));
            let build = std::fs::read(p.join("bin/build")).ok();
            let marker = build.as_ref().and_then(|b| {
                let hay = String::from_utf8_lossy(b).to_string();
                hay.find("VERIF-MARKER<").map(|i| hay[i + 13..].split('>').next().unwrap_or("").to_string())
            });
            json!({"is_dir": p.is_dir(), "id": id, "build": build.is_some(), "marker": marker,
                   "detect": std::fs::read_link(p.join("bin/detect")).ok().map(|t| t.to_string_lossy().to_string())})
        };
        for (i, x) in a.iter().enumerate() {
            let value = if *x == "--buildpack" || *x == "-b" { a.get(i + 1).copied() } else { x.strip_prefix("--buildpack=") };
            {
                if let Some(v) = value.as_ref() {
                    let p = std::path::Path::new(v);
                    if p.is_absolute() && p.is_dir() {
                        let mut d = describe(p);
                        let pkg = std::fs::read_to_string(p.join("package.toml")).unwrap_or_default();
                        let deps: Vec<Value> = pkg.lines().filter_map(|l| l.trim().strip_prefix("uri = \"").and_then(|r| r.split('"').next()).map(str::to_string))
                            .filter(|u| u != ".").map(|u| { let mut x = describe(std::path::Path::new(&u)); x["uri"] = json!(u); x }).collect();
                        d["deps"] = json!(deps);
                        d["arg"] = json!(v);
                        bp_dirs.push(d);
                    }
                }
            }
        }
    }
    let mut log = std::fs::OpenOptions::new().create(true).append(true).open(state.join("log.ndjson")).unwrap();
    writeln!(log, "{}", json!({"prog": prog, "argv": norm, "kind": kind, "outcome": outcome, "path_listing": listing, "buildpack_dirs": bp_dirs})).unwrap();
    // like the real tools: `docker rmi --force` of an image that was never built fails ("No such
    // image"), while `docker rm --force` / `docker volume remove --force` of something missing succeed
    let built = state.join("image-built");
    if kind == "pack-build" && outcome == "ok" {
        let _ = std::fs::write(&built, "x");
    }
    if kind == "rmi" {
        if !built.exists() {
            eprintln!("Error response from daemon: No such image");
            std::process::exit(1);
        }
        let _ = std::fs::remove_file(&built);
    }
    // containers, like the image: `docker logs|port|exec <name>` of a container that was never started
    // successfully fails with "No such container"
    // (a `docker run` that fails to start its process has still created the container: it is listed by
    // `docker ps --all`, not by `docker ps`, and nothing can be done with it but remove it)
    if kind == "run-detached" {
        if let Some(i) = a.iter().position(|x| *x == "--name") { if let Some(n) = a.get(i + 1) { let _ = std::fs::write(state.join(format!("container-{n}")), if outcome == "ok" { "x" } else { "created" }); } }
    }
    if matches!(kind, "logs" | "port" | "exec") {
        let name = a.iter().skip(1).find(|x| !x.starts_with('-')).copied().unwrap_or("");
        match std::fs::read_to_string(state.join(format!("container-{name}"))).ok().as_deref() {
            None => {
                eprintln!("Error response from daemon: No such container: {name}");
                std::process::exit(1);
            }
            Some("created") => {
                eprintln!("Error response from daemon: container {name} is not running");
                std::process::exit(1);
            }
            Some(_) => {}
        }
    }
    // the daemon also holds things this run did not create (state/foreign/*): `prune` is host-wide
    if kind == "prune" {
        let all = a.contains(&"--all") || a.contains(&"-a");
        let gone: &[&str] = match a[0] {
            "image" => if all { &["dangling-image", "image"] } else { &["dangling-image"] },
            "container" => &["container"],
            "volume" => &["volume"],
            _ => if a.contains(&"--volumes") { &["dangling-image", "container", "volume"] } else { &["dangling-image", "container"] },
        };
        for g in gone { let _ = std::fs::remove_file(state.join("foreign").join(g)); }
    }
    // `docker ps`: running containers only, unless --all; --filter name=<pattern>; --quiet prints ids
    if kind == "ps" {
        let all = a.contains(&"--all") || a.contains(&"-a");
        let pattern = a.iter().position(|x| *x == "--filter" || *x == "-f").and_then(|i| a.get(i + 1)).and_then(|f| f.strip_prefix("name="))
            .or_else(|| a.iter().find_map(|x| x.strip_prefix("--filter=name=")));
        let matches = |name: &str| pattern.is_none_or(|p| {
            let core = p.trim_start_matches('^').trim_end_matches('$');
            if p.starts_with('^') && p.ends_with('$') { name == core } else if p.starts_with('^') { name.starts_with(core) } else if p.ends_with('$') { name.ends_with(core) } else { name.contains(core) }
        });
        if let Ok(rd) = std::fs::read_dir(&state) {
            for e in rd.flatten() {
                let f = e.file_name().to_string_lossy().to_string();
                if let Some(name) = f.strip_prefix("container-") {
                    let running = std::fs::read_to_string(e.path()).is_ok_and(|c| c == "x");
                    if (running || all) && matches(name) { println!("{:012x}", name.bytes().fold(7u64, |h, b| h.wrapping_mul(31).wrapping_add(u64::from(b))) & 0xffff_ffff_ffff); }
                }
            }
        }
    }
    // a container whose log was followed to the end has exited (it is still there until removed)
    if kind == "logs" && (a.contains(&"--follow") || a.contains(&"-f")) {
        let name = a.iter().skip(1).find(|x| !x.starts_with('-')).copied().unwrap_or("");
        let f = state.join(format!("container-{name}"));
        if f.exists() { let _ = std::fs::write(f, "exited"); }
    }
    if kind == "rm" {
        for name in a.iter().skip(1).filter(|x| !x.starts_with('-')) { let _ = std::fs::remove_file(state.join(format!("container-{name}"))); }
    }
    if outcome == "fail" {
        // like a real failing build: a long log full of multi-byte characters (and a stray invalid byte) on
        // both streams; its length varies from call to call, so any byte offset can fall inside a character
        let line = "\u{2713} step ok \u{2014} \u{fc}n\u{ef}c\u{f6}d\u{e9} \u{1f680} \u{4e16}\u{754c}\n";
        let mut out = std::io::stdout().lock();
        let mut err = std::io::stderr().lock();
        let extra = (n * 7 + kind.len() * 13 + std::process::id() as usize) % 97;
        let mut text = line.repeat(70_000 / line.len() + 1);
        text.push_str(&"\u{e9}".repeat(extra));
        let _ = out.write_all(text.as_bytes());
        let _ = out.write_all(b"\xff\xfe tail\n");
        let _ = err.write_all(&text.as_bytes()[..text.len() - line.len()]);
        let _ = writeln!(err, "stand-in {prog}: scripted failure of {kind}");
        // what the daemon says when a detached container cannot be started (the container exists by then)
        if kind == "run-detached" {
            let _ = writeln!(err, "{}", ["docker: Error response from daemon: driver failed programming external connectivity on endpoint x: Bind for 0.0.0.0:32768 failed: port is already allocated.",
                "docker: Error response from daemon: failed to set up container networking: address already in use.",
                "docker: Error response from daemon: failed to create task for container: exec: \"nope\": executable file not found in $PATH: unknown."][n % 3]);
        }
        std::process::exit(1);
    }
    match kind {
        "port" => println!("127.0.0.1:32768"),
        "logs" | "run-oneshot" | "exec" => println!("stand-in output"),
        "sbom" => {
            // pack sbom download <image> --output-dir <dir>: leave something in the directory
            if let Some(i) = a.iter().position(|x| *x == "--output-dir") {
                let d = std::path::Path::new(a[i + 1]).join("layers/sbom/launch");
                let _ = std::fs::create_dir_all(&d);
                let _ = std::fs::write(d.join("sbom.cdx.json"), "{}");
            }
        }
        _ => {}
    }
}
