//! Direction A for TomlSelect.tla (extension X04): every (tree, key path) case of the model through
//! `libherokubuildpack::toml::toml_select_value` (with three key container types), and every error kind
//! through `libherokubuildpack::error::on_error`.
use serde_json::{json, Value};
use std::path::PathBuf;
use verif_harness::util::*;

fn to_toml(v: &Value) -> toml::Value {
    match v["t"].as_str().unwrap() {
        "leaf" => toml::Value::Integer(v["v"].as_i64().unwrap()),
        "array" => toml::Value::Array(vec![toml::Value::Table(toml::Table::from_iter([("a".to_string(), toml::Value::Integer(1))]))]),
        "table" => {
            let mut t = toml::Table::new();
            if let Some(k) = v["kids"].as_object() {
                for (key, kid) in k { t.insert(key.clone(), to_toml(kid)); }
            }
            toml::Value::Table(t)
        }
        o => panic!("node {o}"),
    }
}

#[derive(Debug)]
struct MyErr(&'static str);

fn main() {
    let args: Vec<String> = std::env::args().collect();
    let input = PathBuf::from(&args[1]);
    let cases = read_tlc_tagged(&input, "TS");
    let results = par_map(&cases, threads(), |i, c| {
        let tree = to_toml(&c["tree"]);
        let path: Vec<String> = serde_json::from_value(c["path"].clone()).unwrap();
        let want = if c["want"]["t"] == "none" { None } else { Some(to_toml(&c["want"])) };
        // the three shapes the signature admits: Vec<&str>, Vec<String>, a slice
        let got = match i % 3 {
            0 => libherokubuildpack::toml::toml_select_value(path.iter().map(String::as_str).collect::<Vec<_>>(), &tree).cloned(),
            1 => libherokubuildpack::toml::toml_select_value(path.clone(), &tree).cloned(),
            _ => libherokubuildpack::toml::toml_select_value(path.as_slice(), &tree).cloned(),
        };
        let mut p = vec![];
        if got != want { p.push(format!("toml_select_value({path:?}) on {tree} gave {got:?}, the specification says {want:?}")); }
        // a selected value is the very node inside the tree, not a copy built elsewhere: selecting the rest
        // of a path from the value selected by a prefix agrees with selecting the whole path
        if path.len() >= 2 {
            let (a, b) = path.split_at(1);
            let two_step = libherokubuildpack::toml::toml_select_value(a.to_vec(), &tree).and_then(|mid| libherokubuildpack::toml::toml_select_value(b.to_vec(), mid)).cloned();
            if two_step != got { p.push(format!("selecting {path:?} in two steps gives {two_step:?}, in one step {got:?}")); }
        }
        p
    });
    let mut s = Summary::default();
    s.evaluations = cases.len();
    for (c, probs) in cases.iter().zip(results) {
        if c["path"].as_array().is_some_and(|a| a.len() >= 2) && c["want"]["t"] != "none" { s.distinct_nontrivial += 1; }
        for p in probs {
            s.mismatches.push(Mismatch { signature: p.split(" on ").next().unwrap_or("").chars().take(50).collect(), detail: p, case: c.clone() });
        }
    }
    // on_error: which handler sees the error
    let kinds = read_tlc_tagged(&input, "OE");
    for k in &kinds {
        let called = std::cell::Cell::new(false);
        let kind = k["kind"].as_str().unwrap();
        let err: libcnb::Error<MyErr> = match kind {
            "BuildpackError" => libcnb::Error::BuildpackError(MyErr("mine")),
            "LayerError" => libcnb::Error::LayerError(libcnb::layer::LayerError::UnexpectedMissingLayer),
            "CannotDetermineAppDirectory" => libcnb::Error::CannotDetermineAppDirectory(std::io::Error::other("x")),
            "CannotWriteBuildPlan" => libcnb::Error::CannotWriteBuildPlan(libcnb::TomlFileError::IoError(std::io::Error::other("x"))),
            "CannotWriteLaunch" => libcnb::Error::CannotWriteLaunch(libcnb::TomlFileError::IoError(std::io::Error::other("x"))),
            o => panic!("kind {o}"),
        };
        libherokubuildpack::error::on_error(|e: MyErr| { called.set(e.0 == "mine"); }, err);
        s.evaluations += 1;
        let want_custom = k["handler"] == "custom";
        if called.get() != want_custom {
            s.mismatches.push(Mismatch { signature: format!("on_error: {kind} reaches the wrong handler"), detail: format!("custom handler called = {}, the specification says {}", called.get(), k["handler"]), case: k.clone() });
        }
    }
    s.extra.insert("select_cases".into(), json!(cases.len()));
    s.extra.insert("selected_some".into(), json!(cases.iter().filter(|c| c["want"]["t"] != "none").count()));
    s.samples = cases.iter().step_by((cases.len() / 3).max(1)).take(3).cloned().collect();
    s.print();
}
