//! Direction B for LayerEnv.tla: random large layer environments are applied (directly, and
//! after a write/read round trip through a real directory) with the real code; inputs and
//! observed results are logged in the specification's vocabulary and TLC re-computes each.
use serde_json::{json, Value};
use std::collections::BTreeMap;
use std::ffi::OsString;
use std::io::Write;
use std::os::unix::ffi::{OsStrExt, OsStringExt};
use std::path::PathBuf;
use verif_harness::envmod::*;
use verif_harness::util::*;
use libcnb::layer_env::LayerEnv;

fn tok(r: &mut fastrand::Rng) -> String {
    // three-character self-delimiting tokens
    let a = [b'a', b'b', b':', b';', b' ', b'='];
    format!("{}{}{}", a[r.usize(..a.len())] as char, r.u8(b'0'..=b'9') as char, r.u8(b'0'..=b'9') as char)
}

fn main() {
    let args: Vec<String> = std::env::args().collect();
    let out = PathBuf::from(&args[1]);
    let n: usize = args[2].parse().unwrap();
    let scratch = PathBuf::from(std::env::var("VERIF_SCRATCH").unwrap_or_else(|_| "/dev/shm/verif-scratch".into()));
    std::fs::create_dir_all(&scratch).unwrap();
    let mut r = fastrand::Rng::with_seed(seed());
    let names: Vec<String> = (0..10).map(|i| format!("N{i}")).collect();
    let concrete: [&[u8]; 10] = [b"PATH", b"A.B", b".hid", b"X.append", b"N\xffU", b"with space", b"LD_LIBRARY_PATH", b"x", b"Y.delim.z", b"\xc3\xa9"];
    let scopes = ["all", "build", "launch", "process:web", "process:worker", "process:a b"];
    let queries = ["all", "build", "launch", "process:web", "process:worker", "process:a b", "process:unknown"];
    let behs = ["append", "default", "delim", "override", "prepend"];
    let mut m = Mapping::variant(0);
    m.names = names.iter().zip(concrete.iter()).map(|(n, c)| (n.clone(), c.to_vec())).collect();
    let mut f = std::io::BufWriter::new(std::fs::File::create(&out).unwrap());
    let mut kinds: BTreeMap<String, usize> = BTreeMap::new();
    let mut samples = vec![];
    for i in 0..n {
        let mut em: BTreeMap<(String, String, String), SEntry> = BTreeMap::new();
        for _ in 0..r.usize(0..14) {
            let e = SEntry { scope: scopes[r.usize(..scopes.len())].into(), beh: behs[r.usize(..behs.len())].into(), name: names[r.usize(..names.len())].clone(), v: (0..r.usize(0..3)).map(|_| tok(&mut r)).collect() };
            em.insert((e.scope.clone(), e.beh.clone(), e.name.clone()), e);
        }
        let entries: Vec<SEntry> = em.into_values().collect();
        let env0: SEnv = names.iter().map(|n| (n.clone(), match r.u32(..3) { 0 => SVal { set: false, v: vec![] }, 1 => SVal { set: true, v: vec![] }, _ => SVal { set: true, v: vec![tok(&mut r)] } })).collect();
        let q = queries[r.usize(..queries.len())];
        let roundtrip = r.bool();
        let le = build_layer_env(&m, &entries, r.u64(..), r.bool());
        let mut io_error: Option<String> = None;
        let le = if roundtrip {
            let tmp = tempfile::tempdir_in(&scratch).unwrap();
            match le.write_to_layer_dir(tmp.path()).and_then(|()| LayerEnv::read_from_layer_dir(tmp.path())) {
                Ok(e) => e,
                Err(e) => {
                    // an error of the code under test is data, not a harness failure
                    io_error = Some(format!("{e}"));
                    LayerEnv::new()
                }
            }
        } else {
            le
        };
        let got = le.apply(scope_of(q), &m.env(&env0));
        let mut result = serde_json::Map::new();
        for (nm, _) in &env0 {
            let v = got.get(OsString::from_vec(m.name(nm))).map(|o| o.as_bytes().to_vec());
            let rec = match v {
                _ if io_error.is_some() => json!({"set": true, "v": [format!("ERROR {}", io_error.clone().unwrap())]}),
                None => json!({"set": false, "v": []}),
                Some(b) => {
                    let toks: Vec<String> = if b.len() % 3 == 0 && b.is_ascii() { b.chunks(3).map(|c| String::from_utf8_lossy(c).to_string()).collect() } else { vec![format!("UNPARSEABLE {:?}", String::from_utf8_lossy(&b))] };
                    json!({"set": true, "v": toks})
                }
            };
            result.insert(nm.clone(), rec);
        }
        let extra: Vec<String> = got.iter().map(|(k, _)| k.as_bytes().to_vec()).filter(|k| !concrete.iter().any(|c| c == &k.as_slice())).map(|k| String::from_utf8_lossy(&k).to_string()).collect();
        let kind = if roundtrip { "roundtrip" } else { "apply" };
        *kinds.entry(format!("{kind}:{q}")).or_default() += 1;
        let ev = json!({"kind": kind, "E": entries, "env0": env0, "q": q, "result": Value::Object(result), "extra": extra});
        if i % (n / 3).max(1) == 0 { samples.push(ev.clone()); }
        writeln!(f, "{ev}").unwrap();
    }
    f.flush().unwrap();
    let mut s = Summary::default();
    s.evaluations = n;
    s.distinct_nontrivial = n;
    s.samples = samples;
    s.extra.insert("kinds".into(), json!(kinds));
    s.print();
}
