//! Direction A/B for Streams.tla and MappedWrite.tla (C19).
//!   stream_replay mapped <tlc MW output>
//!   stream_replay child  <tlc ST output> <trace.ndjson>
use libherokubuildpack::command::CommandExt;
use libherokubuildpack::write::{line_mapped, mapped, tee};
use serde_json::{json, Value};
use std::cell::RefCell;
use std::io::Write;
use std::path::PathBuf;
use std::process::Command;
use std::rc::Rc;
use std::sync::{Arc, Mutex};
use verif_harness::util::*;

#[derive(Clone)]
struct Shared(Rc<RefCell<Vec<u8>>>);
impl Write for Shared {
    fn write(&mut self, b: &[u8]) -> std::io::Result<usize> {
        // a writer that accepts only a few bytes per call: callers must use write_all semantics
        let n = b.len().min(3);
        self.0.borrow_mut().extend_from_slice(&b[..n]);
        Ok(n)
    }
    fn flush(&mut self) -> std::io::Result<()> { Ok(()) }
}

/// a writer that holds everything back until it is flushed (a BufWriter / LineWriter in front of a file)
#[derive(Clone)]
struct Held { pending: Rc<RefCell<Vec<u8>>>, store: Rc<RefCell<Vec<u8>>> }
impl Write for Held {
    fn write(&mut self, b: &[u8]) -> std::io::Result<usize> { self.pending.borrow_mut().extend_from_slice(b); Ok(b.len()) }
    fn flush(&mut self) -> std::io::Result<()> { let mut p = self.pending.borrow_mut(); self.store.borrow_mut().append(&mut p); Ok(()) }
}

fn sym(s: &[Value], marker: u8, salt: usize) -> Vec<u8> {
    s.iter().enumerate().map(|(i, x)| if x == "m" { marker } else if x == "P" { b'P' } else { b'a' + ((i + salt) % 20) as u8 }).collect()
}
/// expected output: "P" tokens are the mapper's prefix, other symbols positional bytes of the input
fn expected(out: &[Value], input: &[u8], marker: u8) -> Vec<u8> {
    let mut r = vec![];
    let mut k = 0;
    for x in out {
        if x == "P" { r.extend_from_slice(b"<P>"); } else { r.push(input[k]); k += 1; }
    }
    let _ = marker;
    r
}

fn run_mapped(v: &Value, salt: usize) -> Result<(), String> {
    let chunks: Vec<Vec<Value>> = serde_json::from_value(v["chunks"].clone()).unwrap();
    let steps: Vec<Vec<Value>> = serde_json::from_value(v["steps"].clone()).unwrap();
    let fin: Vec<Value> = serde_json::from_value(v["final"].clone()).unwrap();
    for (variant, marker) in [("mapped-drop", b'\n'), ("mapped-unwrap", 0u8), ("line_mapped-drop", b'\n'), ("mapped-flushing-drop", b';')] {
        let store = Rc::new(RefCell::new(Vec::new()));
        let f = |mut seg: Vec<u8>| { let mut o = b"<P>".to_vec(); o.append(&mut seg); o };
        let mut w = if variant.starts_with("line") { line_mapped(Shared(store.clone()), f) } else { mapped(Shared(store.clone()), marker, f) };
        let mut input: Vec<u8> = vec![];
        let mut off = 0usize;
        for (i, c) in chunks.iter().enumerate() {
            let bytes = sym(c, marker, salt + off);
            off += bytes.len();
            input.extend_from_slice(&bytes);
            w.write_all(&bytes).map_err(|e| format!("{variant}: write failed: {e}"))?;
            // a flush between two writes is not a segment boundary
            if variant.contains("flushing") { w.flush().map_err(|e| format!("{variant}: flush failed: {e}"))?; }
            let want = expected(&steps[i], &input, marker);
            if *store.borrow() != want {
                return Err(format!("{variant}: after write {} the inner writer holds {:?}, the specification says {:?}", i + 1, String::from_utf8_lossy(&store.borrow()), String::from_utf8_lossy(&want)));
            }
        }
        if variant.ends_with("unwrap") { let _inner = w.unwrap(); } else { drop(w); }
        let want = expected(&fin, &input, marker);
        if *store.borrow() != want {
            return Err(format!("{variant}: at the end the inner writer holds {:?}, the specification says {:?}", String::from_utf8_lossy(&store.borrow()), String::from_utf8_lossy(&want)));
        }
    }
    // tee: both targets get the whole input whatever the chunking
    let (a, b) = (Rc::new(RefCell::new(Vec::new())), Rc::new(RefCell::new(Vec::new())));
    let mut t = tee(Shared(a.clone()), Shared(b.clone()));
    let mut input = vec![];
    for c in &chunks {
        let bytes = sym(c, b'\n', salt);
        input.extend_from_slice(&bytes);
        t.write_all(&bytes).map_err(|e| format!("tee: {e}"))?;
        t.flush().map_err(|e| format!("tee: flush: {e}"))?;
    }
    if *a.borrow() != input || *b.borrow() != input {
        return Err(format!("tee: targets hold {:?} / {:?}, input was {:?}", String::from_utf8_lossy(&a.borrow()), String::from_utf8_lossy(&b.borrow()), String::from_utf8_lossy(&input)));
    }
    // tee: a flush reaches both targets (either may buffer), observed before the tee writer is dropped
    for first_held in [true, false] {
        let mk = || Held { pending: Rc::new(RefCell::new(Vec::new())), store: Rc::new(RefCell::new(Vec::new())) };
        let (x, y) = (mk(), mk());
        let mut t = if first_held { tee(x.clone(), y.clone()) } else { tee(y.clone(), x.clone()) };
        let mut input = vec![];
        for c in &chunks {
            let bytes = sym(c, b'\n', salt);
            input.extend_from_slice(&bytes);
            t.write_all(&bytes).map_err(|e| format!("tee: {e}"))?;
        }
        t.flush().map_err(|e| format!("tee: flush: {e}"))?;
        if *x.store.borrow() != input || *y.store.borrow() != input {
            return Err(format!("tee-flush: after flush() the two targets have received {} and {} of {} bytes", x.store.borrow().len(), y.store.borrow().len(), input.len()));
        }
        std::mem::forget(t);
    }
    // mapped: the remainder is written when the writer is dropped - also when that happens while a panic unwinds
    {
        let store = Rc::new(RefCell::new(Vec::new()));
        let mut input: Vec<u8> = vec![];
        let st = store.clone();
        let chunks2 = chunks.clone();
        let inp = std::panic::catch_unwind(std::panic::AssertUnwindSafe(move || {
            let mut w = mapped(Shared(st), b'\n', |mut seg: Vec<u8>| { let mut o = b"<P>".to_vec(); o.append(&mut seg); o });
            let mut off = 0usize;
            for c in &chunks2 {
                let bytes = sym(c, b'\n', salt + off);
                off += bytes.len();
                input.extend_from_slice(&bytes);
                w.write_all(&bytes).unwrap();
            }
            std::panic::resume_unwind(Box::new(input));
        })).unwrap_err();
        let input = inp.downcast::<Vec<u8>>().map(|b| *b).unwrap_or_default();
        let want = expected(&fin, &input, b'\n');
        if *store.borrow() != want {
            return Err(format!("mapped-drop-while-unwinding: at the end the inner writer holds {:?}, the specification says {:?}", String::from_utf8_lossy(&store.borrow()), String::from_utf8_lossy(&want)));
        }
    }
    Ok(())
}

#[derive(Clone)]
struct Rec(Arc<Mutex<Vec<u8>>>);
impl Write for Rec {
    fn write(&mut self, b: &[u8]) -> std::io::Result<usize> { self.0.lock().unwrap().extend_from_slice(b); Ok(b.len()) }
    fn flush(&mut self) -> std::io::Result<()> { Ok(()) }
}

const UNIT: usize = 30000;

fn units_of(bytes: &[u8]) -> Vec<Value> {
    // (integers only, so that TLC can compare them: -1 = not a whole number of units, -2 = damaged unit)
    if bytes.len() % UNIT != 0 { return vec![json!(-1)]; }
    bytes.chunks(UNIT).map(|c| {
        let id = u32::from_str_radix(&String::from_utf8_lossy(&c[..8]), 16).unwrap_or(0);
        let ok = c[8..].iter().enumerate().all(|(i, b)| *b == ((id as usize * 31 + i) % 251) as u8);
        if ok { json!(id) } else { json!(-2) }
    }).collect()
}

/// a writer that takes at most `cap` bytes per call (0 = everything)
#[derive(Clone)]
struct Short(Rec, usize);
impl Write for Short {
    fn write(&mut self, b: &[u8]) -> std::io::Result<usize> {
        let n = if self.1 == 0 { b.len() } else { b.len().min(self.1) };
        self.0.write(&b[..n])
    }
    fn flush(&mut self) -> std::io::Result<()> { Ok(()) }
}

fn cloexec_pipe() -> (std::fs::File, std::fs::File) {
    use std::os::fd::FromRawFd;
    let mut fds = [0i32; 2];
    assert_eq!(unsafe { libc::pipe2(fds.as_mut_ptr(), libc::O_CLOEXEC) }, 0);
    unsafe { (std::fs::File::from_raw_fd(fds[0]), std::fs::File::from_raw_fd(fds[1])) }
}

/// watchdog expiries so far: after three, the remaining cases are not started (they would only repeat it)
static HANGS: std::sync::atomic::AtomicUsize = std::sync::atomic::AtomicUsize::new(0);

enum Returned { Output(std::io::Result<std::process::Output>), Child(std::io::Result<(bool, std::process::ExitStatus)>) }

/// One model case {script, linger, wcap} through one of the two entry points.
fn run_child(v: &Value, idx: usize, api: &str, emitter: &std::path::Path) -> (Value, Option<String>) {
    let script: Vec<(String, u32)> = v["script"].as_array().unwrap().iter().map(|w| (w["s"].as_str().unwrap().to_string(), w["n"].as_u64().unwrap() as u32)).collect();
    let linger = v["linger"] == true;
    if HANGS.load(std::sync::atomic::Ordering::SeqCst) >= 3 {
        return (json!({"script": v["script"], "api": api, "linger": linger, "wcap": v["wcap"], "skipped": true, "done": false, "out": [], "err": [], "writer_out": [], "writer_err": [], "returned_before_exit": false}), None);
    }
    let cap = if v["wcap"].as_u64().unwrap_or(3) <= 1 { [1000usize, 7777, 1][idx % 3] } else { 0 };
    let delay = [0u64, 0, 200, 2000][idx % 4];
    let (o, e) = (Rec(Arc::new(Mutex::new(vec![]))), Rec(Arc::new(Mutex::new(vec![]))));
    let (tx, rx) = std::sync::mpsc::channel();
    let (o2, e2, em, sc) = (Short(o.clone(), cap), Short(e.clone(), cap), emitter.to_path_buf(), serde_json::to_string(&script).unwrap());
    // a lingering child runs until the write end of this pipe (its standard input) is closed: by us, after the call returned
    let (stdin_r, stdin_w) = cloexec_pipe();
    let release = Arc::new(Mutex::new(Some(stdin_w)));
    let (release2, api2) = (release.clone(), api.to_string());
    std::thread::spawn(move || {
        let mut cmd = Command::new(em);
        cmd.arg(sc).arg(UNIT.to_string()).arg(delay.to_string());
        if linger { cmd.stdin(stdin_r).env("EMITTER_LINGER", "1"); }
        // every other (non-lingering) child reads its standard input to the end first; the caller hands it an empty one
        else if idx % 2 == 0 { cmd.stdin(std::process::Stdio::null()).env("EMITTER_READ_STDIN", "1"); }
        let r = if api2 == "output" {
            if linger { release2.lock().unwrap().take(); }   // (not used: the output API waits for the exit)
            Returned::Output(cmd.output_and_write_streams(o2, e2))
        } else {
            Returned::Child(cmd.spawn_and_write_streams(o2, e2).and_then(|mut child| {
                // "returns once both streams close": a lingering child is still running now
                let running = matches!(child.try_wait(), Ok(None));
                release2.lock().unwrap().take();
                child.wait().map(|st| (running, st))
            }))
        };
        let _ = tx.send(r);
    });
    let mut ev = json!({"script": v["script"], "delay_us": delay, "api": api, "linger": linger, "wcap": v["wcap"], "writer_cap_bytes": cap,
                        "done": false, "out": [], "err": [], "writer_out": [], "writer_err": [], "returned_before_exit": false});
    let r = match rx.recv_timeout(std::time::Duration::from_secs(30)) {
        Err(_) => {
            HANGS.fetch_add(1, std::sync::atomic::Ordering::SeqCst);
            release.lock().unwrap().take();
            let _ = rx.recv_timeout(std::time::Duration::from_secs(10));
            return (ev, Some(format!("{api}_and_write_streams did not return within 30 s ({})", if linger { "the child had closed both streams and kept running" } else { "deadlock" })));
        }
        Ok(r) => r,
    };
    let (wo, we) = (o.0.lock().unwrap().clone(), e.0.lock().unwrap().clone());
    ev["writer_out"] = json!(units_of(&wo));
    ev["writer_err"] = json!(units_of(&we));
    let mut problem = None;
    if wo.len() % UNIT != 0 || we.len() % UNIT != 0 {
        problem = Some(format!("the supplied writers received {} / {} bytes, not what the child wrote (units of {UNIT} bytes)", wo.len(), we.len()));
    }
    match r {
        Returned::Output(Err(e)) | Returned::Child(Err(e)) => return (ev, Some(format!("{api}_and_write_streams failed: {e}"))),
        Returned::Output(Ok(output)) => {
            if wo != output.stdout || we != output.stderr { problem = Some("the supplied writers and the returned Output hold different bytes".to_string()); }
            if !output.status.success() { problem = Some(format!("child exit status {:?}", output.status)); }
            ev["out"] = json!(units_of(&output.stdout));
            ev["err"] = json!(units_of(&output.stderr));
        }
        Returned::Child(Ok((running, status))) => {
            if !status.success() { problem = Some(format!("child exit status {status:?}")); }
            ev["returned_before_exit"] = json!(running);
            ev["out"] = ev["writer_out"].clone();
            ev["err"] = ev["writer_err"].clone();
        }
    }
    ev["done"] = json!(true);
    (ev, problem)
}

fn main() {
    let args: Vec<String> = std::env::args().collect();
    let mode = args[1].as_str();
    let input = PathBuf::from(&args[2]);
    let mut s = Summary::default();
    match mode {
        "mapped" => {
            let raw = read_tlc_tagged(&input, "MW");
            let results = par_map(&raw, threads(), |i, v| std::panic::catch_unwind(|| run_mapped(v, i)).unwrap_or_else(|_| Err("PANIC".into())));
            s.evaluations = raw.len() * 4;
            for (v, r) in raw.iter().zip(results) {
                if v["chunks"].as_array().is_some_and(|c| c.len() >= 2) { s.distinct_nontrivial += 1; }
                if let Err(e) = r {
                    s.mismatches.push(Mismatch { signature: e.split(':').next().unwrap_or("").to_string() + ": " + if e.contains("at the end") { "final output" } else { "intermediate output" }, detail: e, case: v.clone() });
                }
            }
            s.samples = raw.iter().step_by((raw.len() / 3).max(1)).take(3).cloned().collect();
            // beyond the model's bound: segments far longer than any internal buffer, split over
            // many writes of different sizes - the mapping still applies once per segment
            for (seg_len, chunk) in [(70_000usize, 8192usize), (200_000, 4096), (65_537, 65_536), (300_000, 100_000)] {
                let store = Rc::new(RefCell::new(Vec::new()));
                let mut w = line_mapped(Shared(store.clone()), |mut seg: Vec<u8>| { let mut o = b"<P>".to_vec(); o.append(&mut seg); o });
                let mut input: Vec<u8> = (0..seg_len).map(|i| b'a' + (i % 23) as u8).collect();
                input.push(b'\n');
                input.extend_from_slice(b"tail without marker");
                for c in input.chunks(chunk) { w.write_all(c).unwrap(); }
                drop(w);
                let mut want = b"<P>".to_vec();
                want.extend_from_slice(&input[..=seg_len]);
                want.extend_from_slice(b"<P>tail without marker");
                s.evaluations += 1;
                if *store.borrow() != want {
                    let got = store.borrow();
                    let prefixes = got.windows(3).filter(|x| *x == b"<P>").count();
                    s.mismatches.push(Mismatch { signature: "line_mapped: a long segment is not mapped exactly once".into(), detail: format!("a {seg_len}-byte line written in {chunk}-byte chunks: {} bytes out, {prefixes} prefixes (expected {} bytes, 2 prefixes)", got.len(), want.len()), case: json!({"segment": seg_len, "chunk": chunk}) });
                }
            }
        }
        "child" => {
            let mut raw = read_tlc_tagged(&input, "ST");
            let mut seen = std::collections::BTreeSet::new();
            raw.retain(|v| seen.insert(v.to_string()));
            let emitter = std::env::current_exe().unwrap().parent().unwrap().join("emitter");
            // every case through spawn_and_write_streams; the cases whose child exits by itself also through
            // output_and_write_streams
            let jobs: Vec<(usize, &str)> = (0..raw.len()).flat_map(|i| {
                let mut a = vec![(i, "spawn")];
                if raw[i]["linger"] != true { a.push((i, "output")); }
                a
            }).collect();
            let results = par_map(&jobs, 16, |_, (i, api)| run_child(&raw[*i], *i, api, &emitter));
            let mut f = std::io::BufWriter::new(std::fs::File::create(&args[3]).unwrap());
            s.evaluations = jobs.len();
            s.extra.insert("lingering_children".into(), json!(jobs.iter().filter(|(i, _)| raw[*i]["linger"] == true).count()));
            s.extra.insert("short_writer_runs".into(), json!(jobs.iter().filter(|(i, _)| raw[*i]["wcap"] == 1).count()));
            for (v, (ev, problem)) in jobs.iter().map(|(i, _)| &raw[*i]).zip(results) {
                writeln!(f, "{ev}").unwrap();
                let total: u64 = v["script"].as_array().unwrap().iter().map(|w| w["n"].as_u64().unwrap()).sum();
                if total >= 3 { s.distinct_nontrivial += 1; }
                if let Some(p) = problem {
                    s.mismatches.push(Mismatch { signature: p.split('(').next().unwrap_or("").trim().to_string(), detail: format!("{p}; script {}", v["script"]), case: v.clone() });
                }
            }
            s.samples = raw.iter().step_by((raw.len() / 3).max(1)).take(3).cloned().collect();
        }
        o => panic!("mode {o}"),
    }
    s.print();
}
