//! Direction A for Grammar.tla (C09): every enumerated string goes through str::parse /
//! TryFrom<String>, TOML deserialisation and (sampled in the quick tier) the compile-time literal
//! macros; verdicts must match the specification and all entry points must agree.
use libcnb_data::buildpack::{BuildpackApi, BuildpackId, BuildpackVersion};
use libcnb_data::exec_d::ExecDProgramOutputKey;
use libcnb_data::launch::ProcessType;
use libcnb_data::layer::LayerName;
use serde::{Deserialize, Serialize};
use serde_json::{json, Value};
use std::collections::{BTreeMap, BTreeSet};
use std::fmt::Display;
use std::path::PathBuf;
use std::str::FromStr;
use verif_harness::util::*;

#[derive(Deserialize, Serialize)]
struct Wrap<T> {
    v: T,
}

fn concrete(chars: &[String]) -> String {
    chars.iter().map(|c| match c.as_str() { "NL" => "\n".to_string(), "NUL" => "\0".to_string(), "DQ" => "\"".to_string(), "BS" => "\\".to_string(), o => o.to_string() }).collect()
}

fn toml_doc(s: &str) -> String {
    let mut o = String::from("v = \"");
    for c in s.chars() {
        match c {
            '"' => o.push_str("\\\""),
            '\\' => o.push_str("\\\\"),
            c if (c as u32) < 0x20 || c as u32 == 0x7f => o.push_str(&format!("\\u{:04X}", c as u32)),
            c => o.push(c),
        }
    }
    o.push_str("\"\n");
    o
}

/// returns (accepted by parse, problems)
fn check_name<T>(ty: &str, s: &str, verdict: &str) -> (bool, Vec<String>)
where
    T: FromStr + Display + Serialize + for<'de> Deserialize<'de>,
{
    let mut p = vec![];
    let parsed = s.parse::<T>().ok();
    let de = toml::from_str::<Wrap<T>>(&toml_doc(s)).ok();
    if parsed.is_some() != de.is_some() {
        p.push(format!("{ty}: {s:?} is {} by parse() but {} by deserialisation", if parsed.is_some() { "accepted" } else { "rejected" }, if de.is_some() { "accepted" } else { "rejected" }));
    }
    match (verdict, parsed.is_some()) {
        ("accept", false) => p.push(format!("{ty}: {s:?} satisfies the spec's rules but is rejected")),
        ("reject", true) => p.push(format!("{ty}: {s:?} violates the spec's rules but is accepted")),
        _ => {}
    }
    if let Some(v) = &parsed {
        if v.to_string() != s { p.push(format!("{ty}: {s:?} renders as {:?}", v.to_string())); }
        match toml::to_string(&Wrap { v }) {
            Ok(t) => match t.parse::<toml::Table>() {
                Ok(tab) if tab.get("v").and_then(|x| x.as_str()) == Some(s) => {}
                other => p.push(format!("{ty}: {s:?} serialises as {t:?} ({other:?})")),
            },
            Err(e) => p.push(format!("{ty}: {s:?} cannot be serialised: {e}")),
        }
    }
    (parsed.is_some(), p)
}

fn check_version(s: &str, verdict: &str, overflow: bool) -> Vec<String> {
    let mut p = vec![];
    let a = BuildpackVersion::try_from(s.to_string()).ok();
    let d = toml::from_str::<Wrap<BuildpackVersion>>(&toml_doc(s)).ok().map(|w| w.v);
    if a != d { p.push(format!("BuildpackVersion: {s:?}: TryFrom gives {a:?}, deserialisation {d:?}")); }
    if !overflow {
        match (verdict, a.is_some()) {
            ("accept", false) => p.push(format!("BuildpackVersion: {s:?} is X.Y.Z of plain integers but is rejected")),
            ("reject", true) => p.push(format!("BuildpackVersion: {s:?} is not X.Y.Z of unsigned integers without redundant zeros but is accepted as {}", a.as_ref().unwrap())),
            _ => {}
        }
    }
    if let Some(v) = &a {
        if verdict == "accept" && v.to_string() != s { p.push(format!("BuildpackVersion: {s:?} displays as {:?}", v.to_string())); }
        if BuildpackVersion::try_from(v.to_string()).ok().as_ref() != Some(v) { p.push(format!("BuildpackVersion: display/parse are not inverse for {s:?}")); }
    }
    p
}

fn api_normal(s: &str) -> String {
    let mut parts: Vec<String> = s.split('.').map(|p| { let t = p.trim_start_matches('0'); if t.is_empty() { "0".to_string() } else { t.to_string() } }).collect();
    if parts.len() == 1 { parts.push("0".into()); }
    parts.join(".")
}

fn check_api(s: &str, verdict: &str, overflow: bool) -> Vec<String> {
    let mut p = vec![];
    let a = BuildpackApi::try_from(s.to_string()).ok();
    let d = toml::from_str::<Wrap<BuildpackApi>>(&toml_doc(s)).ok().map(|w| w.v);
    if a != d { p.push(format!("BuildpackApi: {s:?}: TryFrom gives {a:?}, deserialisation {d:?}")); }
    if !overflow {
        match (verdict, a.is_some()) {
            ("accept", false) => p.push(format!("BuildpackApi: {s:?} is N or N.M of plain digits but is rejected")),
            ("reject", true) => p.push(format!("BuildpackApi: {s:?} is not N or N.M of plain digits but is accepted as {}", a.as_ref().unwrap())),
            _ => {}
        }
    }
    if let Some(v) = &a {
        if BuildpackApi::try_from(v.to_string()).ok().as_ref() != Some(v) { p.push(format!("BuildpackApi: display/parse are not inverse for {s:?}")); }
        // the accepted value must be the number that was written
        if s.chars().all(|c| c.is_ascii_digit() || c == '.') && v.to_string() != api_normal(s) { p.push(format!("BuildpackApi: {s:?} is accepted as {v}")); }
    }
    p
}

/// the same string value written in one of three literal styles (plain with the necessary escapes,
/// every character as a \\u{..} escape, raw string); a macro must not care
fn rust_lit_style(s: &str, style: usize) -> String {
    match style % 3 {
        1 => format!("\"{}\"", s.chars().map(|c| format!("\\u{{{:x}}}", c as u32)).collect::<String>()),
        2 if !s.contains('\r') && !s.contains("\"#") => format!("r#\"{s}\"#"),
        _ => rust_lit(s),
    }
}

fn rust_lit(s: &str) -> String {
    let mut o = String::from("\"");
    for c in s.chars() {
        match c {
            '"' => o.push_str("\\\""),
            '\\' => o.push_str("\\\\"),
            '\n' => o.push_str("\\n"),
            '\0' => o.push_str("\\0"),
            c => o.push(c),
        }
    }
    o.push('"');
    o
}

/// numbers around and beyond the u64 range
const BIG: [&str; 6] = ["18446744073709551615", "18446744073709551616", "18446744073709551625", "28446744073709551615", "99999999999999999999", "184467440737095516150"];

fn main() {
    let args: Vec<String> = std::env::args().collect();
    let input = PathBuf::from(&args[1]);
    let macro_all = args.get(2).map(String::as_str) == Some("--all-macros");
    let names = read_tlc_tagged(&input, "NV");
    let versions = read_tlc_tagged(&input, "VV");
    let mut s = Summary::default();
    let mut macro_cases: Vec<(String, String, bool, String)> = vec![]; // (macro, literal, runtime accepts, verdict)
    let mut r = fastrand::Rng::with_seed(seed());
    for v in &names {
        let chars: Vec<String> = serde_json::from_value(v["s"].clone()).unwrap();
        let st = concrete(&chars);
        let take_macro = macro_all || chars.len() <= 2 || chars.len() >= 4 || r.u32(..5) == 0;
        let mut all = vec![];
        let (a, p) = check_name::<LayerName>("LayerName", &st, v["layer"].as_str().unwrap());
        all.extend(p);
        if take_macro { macro_cases.push(("layer_name".into(), st.clone(), a, v["layer"].as_str().unwrap().into())); }
        let (a, p) = check_name::<ProcessType>("ProcessType", &st, v["process"].as_str().unwrap());
        all.extend(p);
        if take_macro { macro_cases.push(("process_type".into(), st.clone(), a, v["process"].as_str().unwrap().into())); }
        let (a, p) = check_name::<BuildpackId>("BuildpackId", &st, v["id"].as_str().unwrap());
        all.extend(p);
        if take_macro { macro_cases.push(("buildpack_id".into(), st.clone(), a, v["id"].as_str().unwrap().into())); }
        let (a, p) = check_name::<ExecDProgramOutputKey>("ExecDProgramOutputKey", &st, v["key"].as_str().unwrap());
        all.extend(p);
        if take_macro { macro_cases.push(("exec_d_program_output_key".into(), st.clone(), a, v["key"].as_str().unwrap().into())); }
        s.evaluations += 4;
        for p in all {
            s.mismatches.push(Mismatch { signature: p.split(':').next().unwrap_or("").to_string() + ": " + p.rsplit(' ').take(3).collect::<Vec<_>>().into_iter().rev().collect::<Vec<_>>().join(" ").as_str(), detail: p, case: v.clone() });
        }
    }
    let mut extra_versions: Vec<(String, &str, &str, bool)> = vec![
        ("18446744073709551615.0.0".into(), "accept", "reject", false), ("18446744073709551616.0.0".into(), "accept", "reject", true),
        ("0.18446744073709551615".into(), "reject", "accept", false), ("18446744073709551616".into(), "reject", "accept", true),
        ("1.2.3\n".into(), "reject", "reject", false), ("１.２.３".into(), "reject", "reject", false), ("1_0.0.0".into(), "reject", "reject", false),
    ];
    for v in &versions {
        let chars: Vec<String> = serde_json::from_value(v["s"].clone()).unwrap();
        extra_versions.push((concrete(&chars), if v["version"] == "accept" { "accept" } else { "reject" }, if v["api"] == "accept" { "accept" } else { "reject" }, false));
    }
    for (st, vv, av, overflow) in &extra_versions {
        s.evaluations += 2;
        for p in check_version(st, vv, *overflow).into_iter().chain(check_api(st, av, *overflow)) {
            s.mismatches.push(Mismatch { signature: p.split('"').next().unwrap_or("").to_string() + if p.contains("is accepted") { "wrongly accepted" } else if p.contains("is rejected") { "wrongly rejected" } else { "inconsistent" }, detail: p, case: json!({"s": st}) });
        }
    }
    // direction B: random longer strings, verdicts recomputed by TLC from Grammar.tla
    if let Some(trace_path) = std::env::var_os("VERIF_GRAMMAR_TRACE") {
        use std::io::Write;
        let mut f = std::io::BufWriter::new(std::fs::File::create(trace_path).unwrap());
        let n: usize = std::env::var("VERIF_GRAMMAR_RANDOM").ok().and_then(|s| s.parse().ok()).unwrap_or(3000);
        let alphabet: Vec<&str> = vec!["a", "b", "z", "A", "Q", "Z", "0", "5", "9", ".", "_", "-", "/", "+", " ", "NL", "é", "NUL", "!", "^", "[", "`", "~", ":"];
        let words = ["app", "config", "sbom", "build", "launch", "store"];
        for i in 0..n {
            let mut chars: Vec<String> = if i % 7 == 0 { words[r.usize(..words.len())].chars().map(|c| c.to_string()).collect() } else { vec![] };
            let safe = i % 3 == 0; // mostly-valid strings so that acceptance is exercised too
            for _ in 0..r.usize(if chars.is_empty() { 5 } else { 0 }..30) {
                let c = if safe { alphabet[r.usize(..12)] } else { alphabet[r.usize(..alphabet.len())] };
                chars.push(c.to_string());
            }
            let st = concrete(&chars);
            writeln!(f, "{}", json!({"kind": "name", "s": chars, "id": st.parse::<BuildpackId>().is_ok(), "process": st.parse::<ProcessType>().is_ok(), "key": st.parse::<ExecDProgramOutputKey>().is_ok(), "layer": st.parse::<LayerName>().is_ok()})).unwrap();
        }
        let nums: [u64; 8] = [0, 1, 9, 10, 4294967295, 4294967296, u64::MAX - 1, u64::MAX];
        for i in 0..n {
            let mut parts: Vec<String> = (0..[3usize, 3, 3, 2, 1, 4][r.usize(..6)]).map(|_| match r.u32(..8) { 0..=2 => nums[r.usize(..8)].to_string(), 3 => BIG[r.usize(..BIG.len())].to_string(), _ => r.u64(..).to_string() }).collect();
            match i % 9 { 0 => parts[0] = format!("0{}", parts[0]), 1 => parts[0] = format!("+{}", parts[0]), 2 => parts[0] = format!(" {}", parts[0]), 3 => { let l = parts.len() - 1; parts[l].push('a'); } 4 => { let l = parts.len() - 1; parts[l].push(' '); } _ => {} }
            let st = parts.join(".");
            let chars: Vec<String> = st.chars().map(|c| c.to_string()).collect();
            let cs = |o: Option<String>| -> Vec<String> { o.map(|d| d.chars().map(|c| c.to_string()).collect()).unwrap_or_default() };
            let (bv, ba) = (BuildpackVersion::try_from(st.clone()).ok(), BuildpackApi::try_from(st.clone()).ok());
            writeln!(f, "{}", json!({"kind": "version", "s": chars, "version": bv.is_some(), "api": ba.is_some(),
                "version_display": cs(bv.map(|v| v.to_string())), "api_display": cs(ba.map(|v| v.to_string()))})).unwrap();
        }
        f.flush().unwrap();
        s.extra.insert("random_strings".into(), json!(2 * n));
    }
    // the compile-time literal macros: one generated crate, one cargo check
    let dir = PathBuf::from(std::env::var("VERIF_SCRATCH").unwrap_or_else(|_| "/dev/shm/verif-scratch".into())).join("macrocheck");
    let _ = std::fs::remove_dir_all(&dir);
    std::fs::create_dir_all(dir.join("src")).unwrap();
    std::fs::write(dir.join("Cargo.toml"), "[package]\nname = \"macrocheck\"\nversion = \"0.0.0\"\nedition = \"2021\"\n\n[workspace]\n\n[dependencies]\nlibcnb-data = { path = \"/repo/libcnb-data\" }\n").unwrap();
    std::fs::copy("/repo/Cargo.lock", dir.join("Cargo.lock")).unwrap();
    let mut src = String::from("#![allow(unused)]\nfn main() {\n");
    let first_line = 3;
    for (i, (m, lit, _, _)) in macro_cases.iter().enumerate() {
        // (a raw string may span lines: keep one invocation per line by falling back to escapes)
        let l = rust_lit_style(lit, i);
        let l = if l.contains('\n') { rust_lit(lit) } else { l };
        src.push_str(&format!("let _ = libcnb_data::{m}!({l});\n"));
    }
    src.push_str("}\n");
    std::fs::write(dir.join("src/main.rs"), src).unwrap();
    let target = std::env::current_exe().unwrap().parent().unwrap().parent().unwrap().join("macrocheck");
    let out = std::process::Command::new("cargo").args(["check", "--offline", "--message-format=json", "--target-dir"]).arg(&target).current_dir(&dir).env("CARGO_NET_OFFLINE", "true").output().expect("cargo check");
    let mut error_lines: BTreeSet<usize> = BTreeSet::new();
    let mut other_errors = vec![];
    for line in String::from_utf8_lossy(&out.stdout).lines() {
        if let Ok(m) = serde_json::from_str::<Value>(line) {
            if m["reason"] == "compiler-message" && m["message"]["level"] == "error" {
                let spans = m["message"]["spans"].as_array().cloned().unwrap_or_default();
                let mut hit = false;
                for sp in spans {
                    // the error is raised inside the macro definition: follow the expansion chain
                    // back to the invocation in the generated file
                    let mut cur = sp.clone();
                    loop {
                        if cur["file_name"].as_str().is_some_and(|f| f.ends_with("src/main.rs")) {
                            if let Some(l) = cur["line_start"].as_u64() { error_lines.insert(l as usize); hit = true; }
                            break;
                        }
                        let next = cur["expansion"]["span"].clone();
                        if next.is_null() { break; }
                        cur = next;
                    }
                }
                if !hit && !m["message"]["message"].as_str().unwrap_or("").contains("aborting due to") { other_errors.push(m["message"]["message"].as_str().unwrap_or("").to_string()); }
            }
        }
    }
    let mut macro_stats: BTreeMap<&str, usize> = BTreeMap::new();
    if !other_errors.is_empty() && error_lines.is_empty() {
        s.mismatches.push(Mismatch { signature: "HARNESS: macro crate does not compile".into(), detail: other_errors.join(" | "), case: json!({}) });
    } else {
        for (i, (m, lit, runtime, verdict)) in macro_cases.iter().enumerate() {
            let rejected = error_lines.contains(&(first_line + i));
            *macro_stats.entry(if rejected { "rejected" } else { "accepted" }).or_default() += 1;
            s.evaluations += 1;
            if rejected == *runtime {
                s.mismatches.push(Mismatch { signature: format!("{m}!: compile-time and run-time validation disagree"), detail: format!("{m}!({lit:?}) is {} at compile time but parse() {} it", if rejected { "rejected" } else { "accepted" }, if *runtime { "accepts" } else { "rejects" }), case: json!({"macro": m, "literal": lit}) });
            }
            if (verdict == "accept" && rejected) || (verdict == "reject" && !rejected) {
                s.mismatches.push(Mismatch { signature: format!("{m}!: wrong compile-time verdict"), detail: format!("{m}!({lit:?}) is {} at compile time, the spec says {verdict}", if rejected { "rejected" } else { "accepted" }), case: json!({"macro": m, "literal": lit}) });
            }
        }
    }
    let _ = std::fs::remove_dir_all(&dir);
    s.distinct_nontrivial = names.len() + extra_versions.len();
    s.extra.insert("name_strings".into(), json!(names.len()));
    s.extra.insert("version_strings".into(), json!(extra_versions.len()));
    s.extra.insert("macro_invocations".into(), json!(macro_cases.len()));
    s.extra.insert("macro_verdicts".into(), json!(macro_stats));
    s.samples = names.iter().step_by((names.len() / 3).max(1)).take(3).cloned().chain(versions.iter().step_by((versions.len() / 3).max(1)).take(3).cloned()).collect();
    s.print();
}
