//! Direction A for Discovery.tla (extension X02): every generated workspace is materialised and
//! walked by `find_buildpack_dirs` / `build_libcnb_buildpacks_dependency_graph`; the rows of the
//! cross-compile table that apply to this host are evaluated with the C compiler present / absent
//! on PATH.
use libcnb_package::buildpack_dependency_graph::build_libcnb_buildpacks_dependency_graph;
use libcnb_package::cross_compile::{cross_compile_assistance, CrossCompileAssistance};
use libcnb_package::find_buildpack_dirs;
use serde_json::{json, Value};
use std::collections::BTreeSet;
use std::fs;
use std::os::unix::fs::PermissionsExt;
use std::path::{Path, PathBuf};
use verif_harness::util::*;

fn slug(p: &str) -> String {
    p.replace(['/', '.'], "-").trim_matches('-').to_string()
}

fn materialize(root: &Path, w: &Value, git: bool) {
    fs::write(root.join(".ignore"), "ign/\n").unwrap();
    fs::write(root.join(".gitignore"), "gi/\n").unwrap();
    if git {
        fs::create_dir_all(root.join(".git")).unwrap();
    }
    for (p, c) in w.as_object().unwrap() {
        let c = c.as_str().unwrap();
        if c == "absent" { continue; }
        let d = root.join(p);
        if p == "lnk/e" {
            let real = root.parent().unwrap().join("outside").join("e");
            fs::create_dir_all(&real).unwrap();
            fs::create_dir_all(d.parent().unwrap()).unwrap();
            std::os::unix::fs::symlink(&real, &d).unwrap();
        }
        fs::create_dir_all(&d).unwrap();
        let id = format!("verif/{}", slug(p));
        let component = format!("api = \"0.10\"\n\n[buildpack]\nid = \"{id}\"\nversion = \"1.0.0\"\n\n[[targets]]\nos = \"linux\"\n");
        let composite = format!("api = \"0.10\"\n\n[buildpack]\nid = \"{id}\"\nversion = \"1.0.0\"\n\n[[order]]\n[[order.group]]\nid = \"x/y\"\nversion = \"1.0.0\"\n");
        match c {
            "libcnb" => { fs::write(d.join("buildpack.toml"), component).unwrap(); fs::write(d.join("Cargo.toml"), "[package]\nname = \"x\"\nversion = \"0.0.0\"\n").unwrap(); }
            "other" => fs::write(d.join("buildpack.toml"), component).unwrap(),
            "composite" => fs::write(d.join("buildpack.toml"), composite).unwrap(),
            "malformed" => fs::write(d.join("buildpack.toml"), "this is [not toml\n").unwrap(),
            o => panic!("content {o}"),
        }
    }
    // things that are no buildpacks
    fs::create_dir_all(root.join("docs/deep")).unwrap();
    fs::write(root.join("docs/deep/buildpack.toml.txt"), "x").unwrap();
    fs::write(root.join("buildpack.toml.bak"), "x").unwrap();
}

fn main() {
    let args: Vec<String> = std::env::args().collect();
    let input = PathBuf::from(&args[1]);
    let scratch = PathBuf::from(std::env::var("VERIF_SCRATCH").unwrap_or_else(|_| "/dev/shm/verif-scratch".into())).join("discovery");
    fs::create_dir_all(&scratch).unwrap();
    // no global git configuration / ignore file of the machine may influence the walk
    let home = scratch.join("empty-home");
    fs::create_dir_all(&home).unwrap();
    unsafe { std::env::set_var("HOME", &home); std::env::set_var("XDG_CONFIG_HOME", home.join("xdg")); }
    let mut s = Summary::default();

    // cross-compile table (sequential: PATH is process state)
    let (os, arch) = (std::env::consts::OS, std::env::consts::ARCH);
    let mut cc_run = 0;
    for c in read_tlc_tagged(&input, "CC") {
        if c["os"] != os || c["arch"] != arch { continue; }
        cc_run += 1;
        let bin = tempfile::tempdir_in(&scratch).unwrap();
        let gcc = c["expect"]["gcc"].as_str().unwrap();
        if c["present"] == true && gcc != "-" {
            let p = bin.path().join(gcc);
            fs::write(&p, "#!/bin/sh\n").unwrap();
            fs::set_permissions(&p, fs::Permissions::from_mode(0o755)).unwrap();
        } else if c["present"] == true {
            // every compiler of the table is there: still no assistance for this pair
            for n in ["musl-gcc", "aarch64-linux-gnu-gcc", "x86_64-linux-gnu-gcc"] {
                let p = bin.path().join(n);
                fs::write(&p, "#!/bin/sh\n").unwrap();
                fs::set_permissions(&p, fs::Permissions::from_mode(0o755)).unwrap();
            }
        }
        unsafe { std::env::set_var("PATH", bin.path()); }
        let got = match cross_compile_assistance(c["triple"].as_str().unwrap()) {
            CrossCompileAssistance::NoAssistance => json!({"kind": "none", "env": []}),
            CrossCompileAssistance::HelpText(t) => json!({"kind": "help", "env": [], "text_names_triple": t.contains(c["triple"].as_str().unwrap()), "text_nonempty": !t.trim().is_empty()}),
            CrossCompileAssistance::Configuration { cargo_env } => json!({"kind": "config", "env": cargo_env.iter().map(|(k, v)| json!([k.to_string_lossy(), v.to_string_lossy()])).collect::<Vec<_>>()}),
        };
        let want = &c["expect"];
        let mut problems = vec![];
        if got["kind"] != want["kind"] { problems.push(format!("assistance kind {}, the table says {}", got["kind"], want["kind"])); }
        else if got["env"] != want["env"] { problems.push(format!("cargo environment {}, the table says {}", got["env"], want["env"])); }
        if got["kind"] == "help" && (got["text_names_triple"] != true || got["text_nonempty"] != true) { problems.push("the help text does not name the target".into()); }
        for p in problems {
            s.mismatches.push(Mismatch { signature: format!("cross-compile {} present={}", c["triple"].as_str().unwrap(), c["present"]), detail: p, case: c.clone() });
        }
    }
    unsafe { std::env::set_var("PATH", "/usr/bin:/bin"); }

    // workspace discovery
    let raw = read_tlc_tagged(&input, "WD");
    let results = par_map(&raw, threads(), |_, v| {
        let tmp = tempfile::tempdir_in(&scratch).unwrap();
        let root = tmp.path().canonicalize().unwrap().join("ws");
        fs::create_dir_all(&root).unwrap();
        materialize(&root, &v["w"], v["git"] == true);
        let mut problems = vec![];
        let rel = |p: &Path| p.strip_prefix(&root).unwrap_or(p).to_string_lossy().to_string();
        match find_buildpack_dirs(&root) {
            Ok(dirs) => {
                let got: BTreeSet<String> = dirs.iter().map(|d| rel(d)).collect();
                let want: BTreeSet<String> = v["found"].as_array().unwrap().iter().map(|x| x.as_str().unwrap().to_string()).collect();
                if got != want { problems.push(format!("find_buildpack_dirs: found {got:?}, the specification says {want:?}")); }
                if dirs.len() != got.len() { problems.push("find_buildpack_dirs: a directory is listed twice".into()); }
            }
            Err(e) => problems.push(format!("find_buildpack_dirs: failed: {e}")),
        }
        match build_libcnb_buildpacks_dependency_graph(&root) {
            Ok(g) => {
                let got: BTreeSet<String> = g.node_weights().map(|n| format!("{}={}", rel(&n.path), n.buildpack_id)).collect();
                let want: BTreeSet<String> = v["nodes"].as_array().unwrap().iter().map(|x| { let p = x.as_str().unwrap(); format!("{p}=verif/{}", slug(p)) }).collect();
                if got != want { problems.push(format!("dependency graph: nodes {got:?}, the specification says {want:?}")); }
            }
            Err(e) => problems.push(format!("dependency graph: failed: {e}")),
        }
        problems
    });
    s.evaluations = raw.len() + cc_run;
    for (v, probs) in raw.iter().zip(results) {
        if v["nodes"].as_array().unwrap().len() >= 2 { s.distinct_nontrivial += 1; }
        for p in probs {
            s.mismatches.push(Mismatch { signature: p.split(':').next().unwrap_or("").to_string(), detail: p, case: v.clone() });
        }
    }
    s.extra.insert("workspaces".into(), json!(raw.len()));
    s.extra.insert("cross_compile_rows_for_this_host".into(), json!(cc_run));
    s.samples = raw.iter().step_by((raw.len() / 3).max(1)).take(3).cloned().collect();
    s.print();
}
