//! Scripted child process for C19: argv[1] = JSON [[stream, units], ...], argv[2] = unit size,
//! argv[3] = delay in microseconds between units. Unit u (1-based, global) starts with its id
//! (8 hex digits) followed by a pattern derived from the id.
fn unit(id: u32, size: usize) -> Vec<u8> {
    let mut v = format!("{id:08x}").into_bytes();
    let mut i = 0usize;
    while v.len() < size {
        v.push(((id as usize * 31 + i) % 251) as u8);
        i += 1;
    }
    v.truncate(size);
    v
}

fn write_all(fd: i32, mut buf: &[u8]) {
    while !buf.is_empty() {
        let n = unsafe { libc::write(fd, buf.as_ptr().cast(), buf.len()) };
        if n < 0 {
            std::process::exit(3);
        }
        buf = &buf[n as usize..];
    }
}

fn main() {
    unsafe { libc::alarm(60) }; // never outlive a hung test
    let args: Vec<String> = std::env::args().collect();
    let script: Vec<(String, u32)> = serde_json::from_str(&args[1]).unwrap();
    let size: usize = args[2].parse().unwrap();
    let delay: u64 = args[3].parse().unwrap();
    // a child may consume its standard input first (whatever the caller gave it) before it says anything
    if std::env::var_os("EMITTER_READ_STDIN").is_some() {
        let mut sink = Vec::new();
        let _ = std::io::Read::read_to_end(&mut std::io::stdin(), &mut sink);
    }
    let mut id = 1u32;
    for (stream, n) in script {
        let fd = if stream == "out" { 1 } else { 2 };
        for _ in 0..n {
            write_all(fd, &unit(id, size));
            id += 1;
            if delay > 0 {
                std::thread::sleep(std::time::Duration::from_micros(delay));
            }
        }
    }
    // a daemon-like child: closes both streams and keeps running until its standard input closes
    if std::env::var_os("EMITTER_LINGER").is_some() {
        unsafe {
            libc::close(1);
            libc::close(2);
        }
        let mut sink = Vec::new();
        let _ = std::io::Read::read_to_end(&mut std::io::stdin(), &mut sink);
    }
}
