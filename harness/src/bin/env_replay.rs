//! Direction A for LayerEnv.tla: `env_replay v4|v10|tw <tlc output>` or `... --single <json>`.
use serde_json::{json, Value};
use std::collections::BTreeSet;
use std::path::PathBuf;
use verif_harness::envmod::*;
use verif_harness::util::*;

fn main() {
    let args: Vec<String> = std::env::args().collect();
    let mode = args[1].as_str();
    let input = PathBuf::from(&args[2]);
    let single = args.get(3).map(String::as_str) == Some("--single");
    let scratch = PathBuf::from(std::env::var("VERIF_SCRATCH").unwrap_or_else(|_| "/dev/shm/verif-scratch".into()));
    std::fs::create_dir_all(&scratch).unwrap();
    let tag = match mode { "v4" => "V4", "v10" => "V10", "tw" => "TW", o => panic!("mode {o}") };
    let raw: Vec<Value> = if single { vec![serde_json::from_str(&std::fs::read_to_string(&input).unwrap()).unwrap()] } else { read_tlc_tagged(&input, tag) };
    let sd = seed();
    let results = par_map(&raw, threads(), |i, v| {
        let r = std::panic::catch_unwind(std::panic::AssertUnwindSafe(|| match mode {
            "v4" => run_v4(&serde_json::from_value::<V4>(v.clone()).expect("V4"), sd.wrapping_add(i as u64)),
            "v10" => run_v10(&serde_json::from_value::<V10>(v.clone()).expect("V10"), &scratch),
            _ => run_tw(&serde_json::from_value::<TW>(v.clone()).expect("TW"), &scratch, sd.wrapping_add(i as u64)),
        }));
        r.unwrap_or_else(|p| Err(format!("PANIC: {:?}", p.downcast_ref::<String>().cloned().or_else(|| p.downcast_ref::<&str>().map(|s| s.to_string())))))
    });
    let mut s = Summary::default();
    s.evaluations = raw.len();
    let mut distinct = BTreeSet::new();
    for (v, r) in raw.iter().zip(&results) {
        let nontrivial = match mode {
            "v4" => v["E"].as_array().is_some_and(|a| a.len() >= 2),
            "v10" => v["kinds"].as_object().is_some_and(|k| k.values().any(|x| x != "absent")),
            _ => v["pre"].as_array().is_some_and(|a| !a.is_empty()) || v["post"].as_array().is_some_and(|a| !a.is_empty()),
        };
        if nontrivial {
            distinct.insert(serde_json::to_string(v).unwrap());
        }
        if let Err(e) = r {
            let sig = match mode {
                "v4" => format!("apply: {}", e.split('[').next().unwrap_or("").trim()),
                "v10" => format!("implicit paths: kinds={} explicit={}", v["kinds"], v["explicit"]),
                _ => format!("{}: {}", v["kind"].as_str().unwrap_or("?"), e.split(':').next().unwrap_or("")),
            };
            s.mismatches.push(Mismatch { signature: sig, detail: e.clone(), case: json!({"mode": mode, "vector": v}) });
        }
    }
    s.distinct_nontrivial = distinct.len();
    let step = (raw.len() / 4).max(1);
    s.samples = raw.iter().step_by(step).take(4).map(|v| { let mut v = v.clone(); if let Some(o) = v.as_object_mut() { o.remove("readback"); } v }).collect();
    s.print();
}
