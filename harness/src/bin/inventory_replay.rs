//! Direction A for Inventory.tla (C18).
use libherokubuildpack::inventory::artifact::{Arch, Artifact, Os};
use libherokubuildpack::inventory::checksum::Checksum;
use libherokubuildpack::inventory::version::ArtifactRequirement;
use libherokubuildpack::inventory::Inventory;
use serde::{Deserialize, Serialize};
use serde_json::{json, Value};
use sha2::{Sha256, Sha512};
use std::cmp::Ordering;
use std::path::PathBuf;
use verif_harness::util::*;

/// a version of the specification's poset: bot < l, r < top; iso incomparable to all others; nan to all and itself
#[derive(Clone, Debug, PartialEq, Eq, Serialize, Deserialize)]
struct PV { name: String, reqok: bool }
fn less(a: &str, b: &str) -> bool {
    matches!((a, b), ("bot", "l") | ("bot", "r") | ("bot", "top") | ("l", "top") | ("r", "top"))
}
impl PartialOrd for PV {
    fn partial_cmp(&self, o: &Self) -> Option<Ordering> {
        if self.name == "nan" || o.name == "nan" { None } else if self.name == o.name { Some(Ordering::Equal) } else if less(&self.name, &o.name) { Some(Ordering::Less) } else if less(&o.name, &self.name) { Some(Ordering::Greater) } else { None }
    }
}
/// the chain bot < l < top as a total order
#[derive(Clone, Debug, PartialEq, Eq, Serialize, Deserialize)]
struct TV { name: String, reqok: bool }
fn rank(n: &str) -> u8 { match n { "bot" => 0, "l" => 1, "top" => 2, o => panic!("not in the chain: {o}") } }
impl PartialOrd for TV { fn partial_cmp(&self, o: &Self) -> Option<Ordering> { Some(self.cmp(o)) } }
impl Ord for TV { fn cmp(&self, o: &Self) -> Ordering { rank(&self.name).cmp(&rank(&o.name)) } }

struct Req;
impl ArtifactRequirement<PV, String> for Req {
    fn satisfies_metadata(&self, m: &String) -> bool { m == "good" }
    fn satisfies_version(&self, v: &PV) -> bool { v.reqok }
}
impl ArtifactRequirement<TV, String> for Req {
    fn satisfies_metadata(&self, m: &String) -> bool { m == "good" }
    fn satisfies_version(&self, v: &TV) -> bool { v.reqok }
}

const SUM: &str = "sha256:2c26b46b68ffc68ff99b453c1d30413413422d706483bfa0f98a5e886266e7ae";

fn other_os(o: Os) -> Os { if o == Os::Linux { Os::Darwin } else { Os::Linux } }
fn other_arch(a: Arch) -> Arch { if a == Arch::Amd64 { Arch::Arm64 } else { Arch::Amd64 } }
/// the four queries; the model's classes are relative to the query ("wrong-os" = the other OS)
const QUERIES: [(Os, Arch); 4] = [(Os::Linux, Arch::Amd64), (Os::Linux, Arch::Arm64), (Os::Darwin, Arch::Amd64), (Os::Darwin, Arch::Arm64)];

fn artifact<V>(ver: V, cls: &str, i: usize, q: (Os, Arch)) -> Artifact<V, Sha256, String> {
    Artifact {
        version: ver,
        os: if cls == "wrong-os" { other_os(q.0) } else { q.0 },
        arch: if cls == "wrong-arch" { other_arch(q.1) } else { q.1 },
        url: format!("https://example.com/{i}"),
        checksum: SUM.parse::<Checksum<Sha256>>().unwrap(),
        metadata: if cls == "wrong-meta" { "bad".into() } else { "good".into() },
    }
}

fn run_inv(v: &Value) -> Vec<String> {
    let inv = v["inv"].as_array().unwrap();
    let acceptable: Vec<usize> = v["acceptable"].as_array().unwrap().iter().map(|x| x.as_u64().unwrap() as usize).collect();
    let mut p = vec![];
    let verdict = |got: Option<usize>, api: &str, p: &mut Vec<String>| {
        match got {
            None if !acceptable.is_empty() => p.push(format!("{api} returned nothing although artifacts {acceptable:?} match")),
            Some(i) if !acceptable.contains(&i) => p.push(format!("{api} returned artifact {i}, which {}; acceptable: {acceptable:?}", if acceptable.is_empty() { "does not match (nothing does)".to_string() } else { "does not match or is exceeded by another matching artifact".to_string() })),
            _ => {}
        }
    };
    let idx = |url: &str| url.rsplit('/').next().unwrap().parse::<usize>().unwrap();
    for q in QUERIES {
    let on = |api: &str| format!("{api} for {}/{}", q.0, q.1);
    if v["total"] == true {
        let mut i = Inventory::<TV, Sha256, String>::new();
        for (k, a) in inv.iter().enumerate() { i.push(artifact(TV { name: a["ver"].as_str().unwrap().into(), reqok: a["cls"] != "fails-req" }, a["cls"].as_str().unwrap(), k + 1, q)); }
        verdict(i.resolve(q.0, q.1, &Req).map(|a| idx(&a.url)), &on("resolve"), &mut p);
        verdict(i.partial_resolve(q.0, q.1, &Req).map(|a| idx(&a.url)), &on("partial_resolve (total order)"), &mut p);
        match i.to_string().parse::<Inventory<TV, Sha256, String>>() {
            Ok(back) if back.artifacts == i.artifacts => {}
            Ok(_) => p.push("rendering to TOML and parsing back changes the artifacts".into()),
            Err(e) => p.push(format!("rendered inventory does not parse: {e}")),
        }
    } else {
        let mut i = Inventory::<PV, Sha256, String>::new();
        for (k, a) in inv.iter().enumerate() { i.push(artifact(PV { name: a["ver"].as_str().unwrap().into(), reqok: a["cls"] != "fails-req" }, a["cls"].as_str().unwrap(), k + 1, q)); }
        verdict(i.partial_resolve(q.0, q.1, &Req).map(|a| idx(&a.url)), &on("partial_resolve"), &mut p);
        match i.to_string().parse::<Inventory<PV, Sha256, String>>() {
            Ok(back) if back.artifacts == i.artifacts => {}
            Ok(_) => p.push("rendering to TOML and parsing back changes the artifacts".into()),
            Err(e) => p.push(format!("rendered inventory does not parse: {e}")),
        }
    }
    }
    p
}

fn body(len: usize, chars: &str) -> String {
    let src = if chars == "upperhex" { "ABCDEF0123456789" } else { "0123456789abcdef" };
    let mut s: Vec<char> = src.chars().cycle().take(len).collect();
    if len > 0 {
        match chars { "nonhex" => s[len / 2] = 'g', "space" => s[0] = ' ', _ => {} }
    }
    s.into_iter().collect()
}

fn run_checksum(v: &Value) -> Vec<String> {
    let sh = &v["shape"];
    let (name, colons, len, chars) = (sh["name"].as_str().unwrap(), sh["colons"].as_u64().unwrap(), sh["len"].as_u64().unwrap() as usize, sh["chars"].as_str().unwrap());
    let b = body(len, chars);
    let degenerate = len == 0 && chars != "lowerhex"; // same string as the lowerhex shape
    let s = match colons { 0 => format!("{name}{b}"), 1 => format!("{name}:{b}"), _ => format!("{name}:{}:{}", &b[..len / 2], &b[len / 2..]) };
    let s = match sh["pad"].as_str().unwrap_or("none") { "leading-space" => format!(" {s}"), "trailing-newline" => format!("{s}\n"), "tab-crlf" => format!("\t{s}\r\n"), _ => s };
    let mut p = vec![];
    for (algo, want) in [("sha256", v["sha256"] == true), ("sha512", v["sha512"] == true)] {
        let (got, round) = if algo == "sha256" {
            let r = s.parse::<Checksum<Sha256>>();
            let round = r.as_ref().ok().map(|c| { let t = toml::to_string(&std::collections::BTreeMap::from([("c", c)])).unwrap(); toml::from_str::<std::collections::BTreeMap<String, Checksum<Sha256>>>(&t).ok().is_some_and(|m| m["c"] == *c) });
            (r.is_ok(), round)
        } else {
            let r = s.parse::<Checksum<Sha512>>();
            let round = r.as_ref().ok().map(|c| { let t = toml::to_string(&std::collections::BTreeMap::from([("c", c)])).unwrap(); toml::from_str::<std::collections::BTreeMap<String, Checksum<Sha512>>>(&t).ok().is_some_and(|m| m["c"] == *c) });
            (r.is_ok(), round)
        };
        // the serde entry point (the way checksums arrive from an inventory file) agrees with FromStr
        let doc = format!("c = {}\n", toml::Value::String(s.clone()));
        let via_serde = if algo == "sha256" { toml::from_str::<std::collections::BTreeMap<String, Checksum<Sha256>>>(&doc).is_ok() } else { toml::from_str::<std::collections::BTreeMap<String, Checksum<Sha512>>>(&doc).is_ok() };
        if via_serde != got { p.push(format!("Checksum<{algo}>: {s:?} is {} by FromStr but {} when deserialised", if got { "accepted" } else { "rejected" }, if via_serde { "accepted" } else { "rejected" })); }
        let want = want && !degenerate || (want && degenerate);
        if got != want { p.push(format!("Checksum<{algo}>: {s:?} is {} but must be {}", if got { "accepted" } else { "rejected" }, if want { "accepted" } else { "rejected" })); }
        if round == Some(false) { p.push(format!("Checksum<{algo}>: {s:?} does not survive serialise/parse")); }
    }
    p
}

fn main() {
    let args: Vec<String> = std::env::args().collect();
    let input = PathBuf::from(&args[1]);
    let invs = read_tlc_tagged(&input, "IV");
    let sums = read_tlc_tagged(&input, "CV");
    let r1 = par_map(&invs, threads(), |_, v| run_inv(v));
    let r2 = par_map(&sums, threads(), |_, v| run_checksum(v));
    let mut s = Summary::default();
    s.evaluations = invs.len() + sums.len();
    for (v, probs) in invs.iter().zip(r1) {
        if v["inv"].as_array().is_some_and(|a| a.iter().filter(|x| x["cls"] == "match").count() >= 2) { s.distinct_nontrivial += 1; }
        for p in probs { s.mismatches.push(Mismatch { signature: p.split(" returned").next().unwrap_or("").split(':').next().unwrap_or("").to_string(), detail: format!("{p}; inventory {}", v["inv"]), case: v.clone() }); }
    }
    for (v, probs) in sums.iter().zip(r2) {
        if v["sha256"] == true || v["sha512"] == true || v["shape"]["len"].as_u64().unwrap() >= 63 { s.distinct_nontrivial += 1; }
        for p in probs { s.mismatches.push(Mismatch { signature: p.split('"').next().unwrap_or("").to_string() + if p.contains("is accepted") { "wrongly accepted" } else { "wrongly rejected / round trip" }, detail: p, case: v.clone() }); }
    }
    s.extra.insert("inventories".into(), json!(invs.len()));
    s.extra.insert("queries_per_inventory".into(), json!(QUERIES.len()));
    s.extra.insert("checksum_shapes".into(), json!(sums.len()));
    s.samples = invs.iter().step_by((invs.len() / 3).max(1)).take(3).cloned().chain(sums.iter().step_by(200).take(2).cloned()).collect();
    s.print();
}
