//! Bindings of spec/Packaging.tla to libcnb-package (C13, C14).
//!   pkg_replay graph <tlc GV output> <trace.ndjson>   dependency orders of real workspaces
//!   pkg_replay path  <tlc PV output> <trace.ndjson>   normalised relative paths
//!   pkg_replay deps  <tlc DV output>                  package.toml dependency kinds
use libcnb_common::toml_file::read_toml_file;
use libcnb_data::buildpack::BuildpackId;
use libcnb_data::package_descriptor::PackageDescriptor;
use libcnb_package::buildpack_dependency_graph::build_libcnb_buildpacks_dependency_graph;
use libcnb_package::dependency_graph::get_dependencies;
use libcnb_package::package::package_composite_buildpack;
use serde_json::{json, Value};
use std::collections::{BTreeMap, BTreeSet};
use std::fs;
use std::io::Write;
use std::path::{Path, PathBuf};
use verif_harness::util::*;

fn bp_id(n: &str) -> String {
    format!("verif/{n}")
}

fn composite_toml(id: &str) -> String {
    format!("api = \"0.10\"\n\n[buildpack]\nid = \"{id}\"\nversion = \"0.0.1\"\n\n[[order]]\n[[order.group]]\nid = \"some/other\"\nversion = \"1.0.0\"\n")
}
fn component_toml(id: &str) -> String {
    format!("api = \"0.10\"\n\n[buildpack]\nid = \"{id}\"\nversion = \"0.0.1\"\n\n[[targets]]\nos = \"linux\"\narch = \"amd64\"\n")
}

/// Writes a workspace for the graph: nodes with dependencies are composite buildpacks whose
/// package.toml lists `libcnb:` dependencies (mixed with other URI kinds that must be ignored),
/// leaves alternate between libcnb.rs buildpacks and composites without dependencies.
fn write_workspace(root: &Path, deps: &BTreeMap<String, Vec<String>>, extra_dep: Option<(&str, &str)>) {
    for (i, (n, ds)) in deps.iter().enumerate() {
        // (every fourth buildpack lives inside the directory of the first one: a buildpack directory is searched too)
        let first = deps.keys().next().unwrap();
        let dir = root.join(if i % 4 == 1 { format!("buildpacks/{first}/components/{n}") } else if i % 2 == 0 { format!("buildpacks/{n}") } else { format!("nested/deeper/{n}") });
        if i % 3 == 2 {
            // this buildpack lives outside the workspace tree and is linked into it: a directory all the same
            let real = root.parent().unwrap().join("shared").join(n);
            fs::create_dir_all(&real).unwrap();
            fs::create_dir_all(dir.parent().unwrap()).unwrap();
            std::os::unix::fs::symlink(&real, &dir).unwrap();
        }
        fs::create_dir_all(&dir).unwrap();
        let mut ds: Vec<String> = ds.iter().map(|d| format!("libcnb:{}", bp_id(d))).collect();
        if let Some((who, what)) = extra_dep {
            if who == n { ds.push(format!("libcnb:{what}")); }
        }
        if (ds.is_empty() && i % 3 != 2) || (!ds.is_empty() && i % 4 == 3) {
            // (a libcnb.rs buildpack may declare libcnb: dependencies in a package.toml of its own)
            fs::write(dir.join("buildpack.toml"), component_toml(&bp_id(n))).unwrap();
            fs::write(dir.join("Cargo.toml"), "[package]\nname = \"x\"\nversion = \"0.0.0\"\n").unwrap();
        } else {
            fs::write(dir.join("buildpack.toml"), composite_toml(&bp_id(n))).unwrap();
        }
        if !ds.is_empty() || i % 2 == 1 {
            let mut s = String::from("[buildpack]\nuri = \".\"\n");
            for (k, d) in ds.iter().enumerate() {
                if k == 1 { s.push_str("\n[[dependencies]]\nuri = \"docker://docker.io/some/image:1\"\n"); }
                s.push_str(&format!("\n[[dependencies]]\nuri = \"{d}\"\n"));
            }
            s.push_str("\n[[dependencies]]\nuri = \"../relative/path\"\n");
            fs::write(dir.join("package.toml"), s).unwrap();
        }
    }
    // a buildpack that is neither libcnb.rs nor composite: never part of the graph
    let other = root.join("buildpacks/shell-bp");
    fs::create_dir_all(&other).unwrap();
    fs::write(other.join("buildpack.toml"), component_toml("verif/shell-bp")).unwrap();
    // not a buildpack at all
    fs::create_dir_all(root.join("docs")).unwrap();
    fs::write(root.join("docs/readme.toml"), "x = 1\n").unwrap();
}

fn perms(nodes: &[String]) -> Vec<Vec<String>> {
    // all ordered duplicate-free non-empty selections
    fn rec(rest: &[String], cur: &mut Vec<String>, out: &mut Vec<Vec<String>>) {
        if !cur.is_empty() { out.push(cur.clone()); }
        for n in rest {
            if !cur.contains(n) {
                cur.push(n.clone());
                rec(rest, cur, out);
                cur.pop();
            }
        }
    }
    let mut out = vec![];
    rec(nodes, &mut vec![], &mut out);
    out
}

fn graph_mode(raw: &[Value], trace: &Path, scratch: &Path) -> Summary {
    let results = par_map(raw, threads(), |i, v| {
        let deps: BTreeMap<String, Vec<String>> = serde_json::from_value(v["deps"].clone()).unwrap();
        let nodes: Vec<String> = deps.keys().cloned().collect();
        let tmp = tempfile::tempdir_in(scratch).unwrap();
        let mut events = vec![];
        let mut bad: Vec<Mismatch> = vec![];
        write_workspace(&tmp.path().join("ws"), &deps, None);
        match build_libcnb_buildpacks_dependency_graph(&tmp.path().join("ws")) {
            Err(e) => bad.push(Mismatch { signature: "graph construction failed".into(), detail: format!("{e}"), case: v.clone() }),
            Ok(graph) => {
                let ids: BTreeSet<String> = graph.node_weights().map(|n| n.buildpack_id.to_string()).collect();
                let want: BTreeSet<String> = nodes.iter().map(|n| bp_id(n)).collect();
                if ids != want {
                    bad.push(Mismatch { signature: "graph nodes differ from the libcnb/composite buildpacks of the workspace".into(), detail: format!("{ids:?} vs {want:?}"), case: v.clone() });
                }
                let selections = if nodes.len() <= 4 { perms(&nodes) } else {
                    let mut r = fastrand::Rng::with_seed(seed().wrapping_add(i as u64));
                    let mut s: Vec<Vec<String>> = nodes.iter().map(|n| vec![n.clone()]).collect();
                    s.push(nodes.clone());
                    s.push(nodes.iter().rev().cloned().collect());
                    for _ in 0..2 { let mut p = nodes.clone(); r.shuffle(&mut p); p.truncate(r.usize(2..=nodes.len())); s.push(p); }
                    s
                };
                for sel in selections {
                    // (a buildpack missing from the graph was reported above; no order can be asked for it)
                    let roots: Vec<_> = sel.iter().filter_map(|n| graph.node_weights().find(|w| w.buildpack_id.to_string() == bp_id(n))).collect();
                    if roots.len() != sel.len() { continue; }
                    match get_dependencies(&graph, &roots) {
                        Ok(order) => {
                            let order: Vec<String> = order.iter().map(|n| n.buildpack_id.to_string().trim_start_matches("verif/").to_string()).collect();
                            events.push(json!({"kind": "order", "deps": deps, "roots": sel, "order": order, "ok": true}));
                        }
                        Err(e) => events.push(json!({"kind": "order", "deps": deps, "roots": sel, "order": [], "ok": false, "error": format!("{e}")})),
                    }
                }
            }
        }
        // a dependency on a buildpack that is not part of the workspace / not a libcnb buildpack
        // (also one whose id is not even a valid buildpack id, and a reserved one: an error all the same)
        for (k, what) in ["verif/zz-unknown", "verif/shell-bp", "verif/not_an_id", "app"].iter().enumerate() {
            let tmp2 = tempfile::tempdir_in(scratch).unwrap();
            let who = &nodes[(i + k) % nodes.len()];
            write_workspace(&tmp2.path().join("ws"), &deps, Some((who, what)));
            let ok = build_libcnb_buildpacks_dependency_graph(&tmp2.path().join("ws")).is_ok();
            events.push(json!({"kind": "dangling", "deps": deps, "who": who, "what": what, "ok": ok}));
        }
        (events, bad)
    });
    // random larger DAGs (6..12 nodes), edges only from higher to lower index so that they are acyclic
    let n_random: usize = std::env::var("VERIF_RANDOM_DAGS").ok().and_then(|s| s.parse().ok()).unwrap_or(60);
    let randoms: Vec<usize> = (0..n_random).collect();
    let random_results = par_map(&randoms, threads(), |_, i| {
        let mut r = fastrand::Rng::with_seed(seed().wrapping_mul(104729).wrapping_add(*i as u64));
        let n = r.usize(6..=12);
        let mut order: Vec<usize> = (0..n).collect();
        r.shuffle(&mut order);
        let name = |k: usize| format!("m{k:02}");
        let mut deps: BTreeMap<String, Vec<String>> = BTreeMap::new();
        for a in 0..n {
            let mut d = vec![];
            for b in 0..a { if r.u32(..100) < 25 { d.push(name(order[b])); } }
            deps.insert(name(order[a]), d);
        }
        let tmp = tempfile::tempdir_in(scratch).unwrap();
        write_workspace(&tmp.path().join("ws"), &deps, None);
        let mut events = vec![];
        let mut bad: Vec<Mismatch> = vec![];
        match build_libcnb_buildpacks_dependency_graph(&tmp.path().join("ws")) {
            Err(e) => bad.push(Mismatch { signature: "graph construction failed".into(), detail: format!("{e}"), case: json!({"deps": deps}) }),
            Ok(graph) => {
                let nodes: Vec<String> = deps.keys().cloned().collect();
                for _ in 0..6 {
                    let mut sel = nodes.clone();
                    r.shuffle(&mut sel);
                    sel.truncate(r.usize(1..=nodes.len()));
                    let roots: Vec<_> = sel.iter().filter_map(|n| graph.node_weights().find(|w| w.buildpack_id.to_string() == bp_id(n))).collect();
                    if roots.len() != sel.len() {
                        bad.push(Mismatch { signature: "graph nodes differ from the libcnb/composite buildpacks of the workspace".into(), detail: format!("a buildpack of {sel:?} is no node of the graph"), case: json!({"deps": deps}) });
                        continue;
                    }
                    match get_dependencies(&graph, &roots) {
                        Ok(order) => events.push(json!({"kind": "order", "deps": deps, "roots": sel, "order": order.iter().map(|n| n.buildpack_id.to_string().trim_start_matches("verif/").to_string()).collect::<Vec<_>>(), "ok": true})),
                        Err(e) => events.push(json!({"kind": "order", "deps": deps, "roots": sel, "order": [], "ok": false, "error": format!("{e}")})),
                    }
                }
            }
        }
        (events, bad)
    });
    let mut f = std::io::BufWriter::new(fs::File::create(trace).unwrap());
    let mut s = Summary::default();
    let mut distinct = BTreeSet::new();
    s.extra.insert("random_dags".into(), json!(n_random));
    for (events, bad) in results.into_iter().chain(random_results) {
        for e in &events {
            writeln!(f, "{e}").unwrap();
            if e["kind"] == "order" && e["order"].as_array().is_some_and(|a| a.len() >= 2) { distinct.insert(format!("{}{}", e["deps"], e["roots"])); }
        }
        s.evaluations += events.len();
        s.mismatches.extend(bad);
        if s.samples.len() < 3 && events.len() > 3 { s.samples.push(events[events.len() / 2].clone()); }
    }
    s.distinct_nontrivial = distinct.len();
    s
}

fn path_mode(raw: &[Value], trace: &Path, scratch: &Path) -> Summary {
    let results = par_map(raw, threads(), |_, v| {
        let segs: Vec<String> = serde_json::from_value(v["segs"].clone()).unwrap();
        let mut events = vec![];
        let mut bad: Vec<Mismatch> = vec![];
        let tmp = tempfile::tempdir_in(scratch).unwrap();
        let base = tmp.path().canonicalize().unwrap();
        for nest in ["", "w", "w/c"] {
            let bpdir = base.join(nest);
            let depth = bpdir.components().count() - 1;
            for climb in [0usize, depth + 1] {
                let mut all: Vec<String> = std::iter::repeat_n("..".to_string(), climb).collect();
                all.extend(segs.iter().cloned());
                let uri = all.join("/");
                if uri.starts_with('/') || uri.is_empty() { continue; } // absolute / empty: not a relative path
                fs::create_dir_all(&bpdir).unwrap();
                fs::write(bpdir.join("buildpack.toml"), composite_toml("verif/composite")).unwrap();
                fs::write(bpdir.join("package.toml"), format!("[buildpack]\nuri = \".\"\n\n[[dependencies]]\nuri = \"{uri}\"\n")).unwrap();
                let dest = base.join("dest");
                let _ = fs::remove_dir_all(&dest);
                fs::create_dir_all(&dest).unwrap();
                let parent: Vec<String> = bpdir.components().skip(1).map(|c| c.as_os_str().to_string_lossy().to_string()).collect();
                match package_composite_buildpack(&bpdir, &dest, &BTreeMap::new()) {
                    Ok(()) => {
                        let t: toml::Table = fs::read_to_string(dest.join("package.toml")).unwrap().parse().unwrap();
                        let out = t["dependencies"][0]["uri"].as_str().unwrap_or("").to_string();
                        if !out.starts_with('/') {
                            bad.push(Mismatch { signature: "relative dependency path not made absolute".into(), detail: format!("{uri} -> {out}"), case: v.clone() });
                        }
                        let result: Vec<String> = out.split('/').filter(|s| !s.is_empty()).map(String::from).collect();
                        if out.contains("//") || out.split('/').any(|s| s == "." || s == "..") {
                            bad.push(Mismatch { signature: "normalised path is not dot-free".into(), detail: format!("{uri} -> {out}"), case: v.clone() });
                        }
                        events.push(json!({"kind": "path", "parent": parent, "segs": all, "result": result}));
                    }
                    Err(e) => bad.push(Mismatch { signature: "relative dependency rejected".into(), detail: format!("{uri}: {e}"), case: v.clone() }),
                }
            }
        }
        (events, bad)
    });
    let mut f = std::io::BufWriter::new(fs::File::create(trace).unwrap());
    let mut s = Summary::default();
    for (events, bad) in results {
        for e in &events { writeln!(f, "{e}").unwrap(); }
        s.evaluations += events.len();
        s.distinct_nontrivial += events.iter().filter(|e| e["segs"].as_array().is_some_and(|a| a.iter().any(|x| x == ".." || x == "." || x == ""))).count();
        s.mismatches.extend(bad);
        if s.samples.len() < 3 && !events.is_empty() { s.samples.push(events[0].clone()); }
    }
    s
}

fn deps_mode(raw: &[Value], scratch: &Path) -> Summary {
    let results = par_map(raw, threads(), |i, v| {
        let kinds: Vec<String> = serde_json::from_value(v["deps"].clone()).unwrap();
        let expect_ok = v["expect"]["ok"] == true;
        let expect_out: Vec<String> = serde_json::from_value(v["expect"]["out"].clone()).unwrap_or_default();
        let tmp = tempfile::tempdir_in(scratch).unwrap();
        let base = tmp.path().canonicalize().unwrap();
        let bpdir = base.join("meta buildpack");
        let dest = base.join("out");
        fs::create_dir_all(&bpdir).unwrap();
        fs::create_dir_all(&dest).unwrap();
        let bp_toml = format!("{}# trailing comment that a re-serialisation would lose\n", composite_toml("verif/meta"));
        fs::write(bpdir.join("buildpack.toml"), &bp_toml).unwrap();
        let known_path = base.join("packaged/x86_64/verif_known%41");
        let uris: Vec<String> = kinds.iter().enumerate().map(|(k, kind)| match kind.as_str() {
            "libcnb-known" => "libcnb:verif/known".to_string(),
            "libcnb-unknown" => "libcnb:verif/unknown".to_string(),
            "libcnb-invalid" => ["libcnb:app", "libcnb:verif/two_java!", "libcnb:config", "libcnb:sbom", "libcnb:verif known"][(i + k) % 5].to_string(),
            // (a percent sign in a path is a character of the directory name: nothing encodes or decodes it)
            "relative" => format!("../rel{k}/bp%20x"),
            "absolute" => format!("/abs/./path{k}/../100%25-kept-verbatim"),
            // (deliberately not in RFC 3986 normal form: "copied verbatim" means exactly that)
            "docker" => "docker://Docker.IO/heroku/procfile-cnb:2.0.0".to_string(),
            "https" => "https://Example.com/a/../some/bp%7e.cnb?x=1#frag".to_string(),
            "urn" => "urn:cnb:registry:heroku/nodejs@1.0.0".to_string(),
            o => panic!("dep kind {o}"),
        }).collect();
        let os = [None, Some("linux"), Some("windows")][i % 3];
        let bp_uri = [".", "./sub/dir", "docker://example.com/meta:1"][i % 3];
        let mut s = format!("[buildpack]\nuri = \"{bp_uri}\"\n");
        for u in &uris { s.push_str(&format!("\n[[dependencies]]\nuri = \"{u}\"\n")); }
        if let Some(os) = os { s.push_str(&format!("\n[platform]\nos = \"{os}\"\n")); }
        fs::write(bpdir.join("package.toml"), s).unwrap();
        let mut map = BTreeMap::new();
        // (nothing packaged yet at all: the map is empty when the descriptor needs no known id)
        if kinds.iter().any(|k| k == "libcnb-known") || i % 2 == 1 {
            map.insert("verif/known".parse::<BuildpackId>().unwrap(), known_path.clone());
            map.insert("verif/unrelated".parse::<BuildpackId>().unwrap(), base.join("packaged/unrelated"));
        }
        // the destination may hold the (longer) output of an earlier packaging run
        if i % 2 == 0 {
            let stale: String = (0..30).map(|k| format!("\n[[dependencies]]\nuri = \"/stale/dependency/of/an/earlier/run/{k}\"\n")).collect();
            fs::write(dest.join("package.toml"), format!("[buildpack]\nuri = \".\"\n{stale}")).unwrap();
            fs::write(dest.join("buildpack.toml"), format!("{bp_toml}# stale tail {}\n", "x".repeat(400))).unwrap();
        }
        let r = package_composite_buildpack(&bpdir, &dest, &map);
        let mut problems = vec![];
        match (&r, expect_ok) {
            (Ok(()), false) => {
                let out = fs::read_to_string(dest.join("package.toml")).unwrap_or_default();
                problems.push(format!("a libcnb: dependency without a packaged location did not make packaging fail; written: {out:?}"));
            }
            (Err(e), true) => problems.push(format!("packaging failed although every dependency can be resolved: {e}")),
            (Err(_), false) => {}
            (Ok(()), true) => {
                let text = fs::read_to_string(dest.join("package.toml")).unwrap_or_default();
                match text.parse::<toml::Table>() {
                    Err(e) => problems.push(format!("written package.toml is not TOML: {e}")),
                    Ok(t) => {
                        let got: Vec<String> = t.get("dependencies").and_then(|d| d.as_array()).map(|a| a.iter().map(|d| d.get("uri").and_then(|u| u.as_str()).unwrap_or("<no uri>").to_string()).collect()).unwrap_or_default();
                        let want: Vec<String> = expect_out.iter().enumerate().map(|(k, e)| match e.as_str() {
                            "packaged-path" => known_path.to_string_lossy().to_string(),
                            "absolutised" => base.join(format!("rel{k}/bp%20x")).to_string_lossy().to_string(),
                            _ => uris[k].clone(),
                        }).collect();
                        if got != want { problems.push(format!("dependencies written {got:?}, expected {want:?}")); }
                        if t.get("buildpack").and_then(|b| b.get("uri")).and_then(|u| u.as_str()) != Some(bp_uri) { problems.push(format!("buildpack uri not preserved: {:?}", t.get("buildpack"))); }
                        let got_os = t.get("platform").and_then(|p| p.get("os")).and_then(|o| o.as_str()).unwrap_or("linux").to_string();
                        if got_os != os.unwrap_or("linux") { problems.push(format!("platform os {got_os}, source said {os:?}")); }
                    }
                }
                if read_toml_file::<PackageDescriptor>(dest.join("package.toml")).is_err() { problems.push("the written package.toml does not parse as a package descriptor again".into()); }
                if fs::read_to_string(dest.join("buildpack.toml")).unwrap_or_default() != bp_toml { problems.push("buildpack.toml was not copied byte-identically".into()); }
            }
        }
        problems
    });
    let mut s = Summary::default();
    s.evaluations = raw.len();
    for (v, probs) in raw.iter().zip(results) {
        if v["deps"].as_array().is_some_and(|a| a.len() >= 2) { s.distinct_nontrivial += 1; }
        for p in probs {
            s.mismatches.push(Mismatch { signature: p.split(':').next().unwrap_or("").split(';').next().unwrap_or("").chars().take(80).collect(), detail: p, case: v.clone() });
        }
    }
    s.samples = raw.iter().step_by((raw.len() / 3).max(1)).take(3).cloned().collect();
    s
}

fn main() {
    let args: Vec<String> = std::env::args().collect();
    let mode = args[1].as_str();
    let input = PathBuf::from(&args[2]);
    let scratch = PathBuf::from(std::env::var("VERIF_SCRATCH").unwrap_or_else(|_| "/dev/shm/verif-scratch".into())).join("pkg");
    fs::create_dir_all(&scratch).unwrap();
    let s = match mode {
        "graph" => graph_mode(&read_tlc_tagged(&input, "GV"), Path::new(&args[3]), &scratch),
        "path" => path_mode(&read_tlc_tagged(&input, "PV"), Path::new(&args[3]), &scratch),
        "deps" => deps_mode(&read_tlc_tagged(&input, "DV"), &scratch),
        "deps-single" => deps_mode(&[serde_json::from_str(&fs::read_to_string(&input).unwrap()).unwrap()], &scratch),
        o => panic!("mode {o}"),
    };
    s.print();
}
