//! Scriptable buildpack executable: the real `libcnb_runtime` around a Buildpack whose detect /
//! build / on_error obey a JSON script (env VBP_SCRIPT) and leave markers and a dump of the
//! context they were handed in the directory VBP_OUT. Started through symlinks named
//! `detect`, `build` or anything else.
#![allow(deprecated)]
use libcnb::build::{BuildContext, BuildResult, BuildResultBuilder};
use libcnb::data::build_plan::BuildPlanBuilder;
use libcnb::data::launch::{LaunchBuilder, ProcessBuilder};
use libcnb::data::layer_name;
use libcnb::data::process_type;
use libcnb::data::sbom::SbomFormat;
use libcnb::data::store::Store;
use libcnb::detect::{DetectContext, DetectResult, DetectResultBuilder};
use libcnb::generic::{GenericMetadata, GenericPlatform};
use libcnb::layer::UncachedLayerDefinition;
use libcnb::sbom::Sbom;
use libcnb::{Buildpack, Platform};
use serde_json::{json, Value};
use std::io::Write;
use std::os::unix::ffi::OsStrExt;
use std::path::PathBuf;
use verif_harness::tomlgen::{table_to_tagged, to_tagged};
use verif_harness::util::hex;

#[derive(Debug)]
struct VErr(String);

struct Vbp {
    script: Value,
    out: PathBuf,
}

impl Vbp {
    fn mark(&self, what: &str) {
        let mut f = std::fs::OpenOptions::new().create(true).append(true).open(self.out.join(format!("{what}.called"))).unwrap();
        writeln!(f, "x").unwrap();
    }
    fn dump(&self, v: Value) {
        std::fs::write(self.out.join("ctx.json"), serde_json::to_string(&v).unwrap()).unwrap();
    }
}

fn env_json(p: &GenericPlatform) -> Value {
    let mut v: Vec<(String, String)> = p.env().iter().map(|(k, v)| (hex(k.as_bytes()), hex(v.as_bytes()))).collect();
    v.sort();
    json!(v)
}
fn target_json(t: &libcnb::Target) -> Value {
    json!({"os": t.os, "arch": t.arch, "arch_variant": t.arch_variant, "distro_name": t.distro_name, "distro_version": t.distro_version})
}
fn desc_json(d: &libcnb::data::buildpack::ComponentBuildpackDescriptor<GenericMetadata>) -> Value {
    json!({"api": d.api.to_string(), "id": d.buildpack.id.to_string(), "version": d.buildpack.version.to_string(),
           "name": d.buildpack.name, "metadata": d.metadata.as_ref().map(table_to_tagged)})
}
fn sbom_format(f: &str) -> SbomFormat {
    match f {
        "cdx.json" => SbomFormat::CycloneDxJson,
        "spdx.json" => SbomFormat::SpdxJson,
        "syft.json" => SbomFormat::SyftJson,
        o => panic!("format {o}"),
    }
}

impl Buildpack for Vbp {
    type Platform = GenericPlatform;
    type Metadata = GenericMetadata;
    type Error = VErr;

    fn detect(&self, c: DetectContext<Self>) -> libcnb::Result<DetectResult, VErr> {
        self.mark("detect");
        self.dump(json!({"phase": "detect", "app_dir": hex(c.app_dir.as_os_str().as_bytes()), "buildpack_dir": hex(c.buildpack_dir.as_os_str().as_bytes()),
            "target": target_json(&c.target), "env": env_json(&c.platform), "descriptor": desc_json(&c.buildpack_descriptor)}));
        match self.script["detect"].as_str().unwrap_or("pass") {
            "pass" => DetectResultBuilder::pass().build(),
            "pass_plan" => {
                let mut req = libcnb::data::build_plan::Require::new("vbp");
                // (keys inserted in an order that differs from process to process, like the iteration
                // order of a HashMap in buildpack code: the written plan may not depend on it)
                let mut inner = toml::Table::new();
                for (k, v) in per_process_order(vec![("b", 1), ("a", 2), ("c", 3), ("d", 4)]) { inner.insert(k.into(), toml::Value::Integer(v)); }
                let mut md = toml::Table::new();
                for (k, v) in per_process_order(vec![("zulu", toml::Value::Integer(1)), ("alpha", toml::Value::Integer(2)), ("mike", toml::Value::Table(inner)), ("kilo", toml::Value::Boolean(true)), ("echo", toml::Value::String("e".into()))]) { md.insert(k.into(), v); }
                req.metadata(md).unwrap();
                DetectResultBuilder::pass().build_plan(BuildPlanBuilder::new().provides("vbp").provides("second").provides("vbp").provides("third").requires(req).or().provides("other").build()).build()
            }
            "fail" => DetectResultBuilder::fail().build(),
            _ => Err(libcnb::Error::BuildpackError(VErr("scripted detect error".into()))),
        }
    }

    fn build(&self, c: BuildContext<Self>) -> libcnb::Result<BuildResult, VErr> {
        self.mark("build");
        let plan: Vec<Value> = c.buildpack_plan.entries.iter().map(|e| json!({"name": e.name, "metadata": table_to_tagged(&e.metadata)})).collect();
        self.dump(json!({"phase": "build", "app_dir": hex(c.app_dir.as_os_str().as_bytes()), "buildpack_dir": hex(c.buildpack_dir.as_os_str().as_bytes()),
            "layers_dir": hex(c.layers_dir.as_os_str().as_bytes()),
            "target": target_json(&c.target), "env": env_json(&c.platform), "descriptor": desc_json(&c.buildpack_descriptor),
            "plan": plan, "store": c.store.as_ref().map(|s| table_to_tagged(&s.metadata))}));
        let _ = to_tagged;
        // scripted layer work through the real layer APIs (events in the vocabulary of Layers.tla)
        if let Some(steps) = self.script["layer_steps"].as_u64() {
            use verif_harness::layers_gen::Gen;
            let g = Gen::new(&PathBuf::from(self.script["exec_src"].as_str().expect("exec_src")));
            let ctx2 = verif_harness::layers::build_context(&c.layers_dir);
            let mut r = fastrand::Rng::with_seed(self.script["layer_seed"].as_u64().unwrap_or(1));
            let mut refs = std::collections::BTreeMap::new();
            let mut f = std::fs::OpenOptions::new().create(true).append(true).open(self.out.join("events.ndjson")).unwrap();
            let mut done = 0;
            let mut tries = 0;
            while done < steps && tries < steps * 4 {
                tries += 1;
                if let Some(o) = g.step(&mut r, &ctx2, &mut refs) {
                    let (l, rf) = g.snapshot(&c.layers_dir, &refs);
                    writeln!(f, "{}", json!({"obs": o, "L": l, "refs": rf})).unwrap();
                    done += 1;
                }
            }
        }
        match self.script["berror"].as_str().unwrap_or("none") {
            "buildpack" => return Err(libcnb::Error::BuildpackError(VErr("scripted build error".into()))),
            "layer" => {
                // a layer whose content metadata is not even TOML: the library reports a LayerError
                std::fs::create_dir_all(c.layers_dir.join("boom")).unwrap();
                std::fs::write(c.layers_dir.join("boom.toml"), "= = [").unwrap();
                c.uncached_layer(layer_name!("boom"), UncachedLayerDefinition { build: true, launch: false })?;
                unreachable!("layer request on garbage metadata succeeded");
            }
            _ => {}
        }
        let mut b = BuildResultBuilder::new();
        if self.script["launch"] == "empty" {
            b = b.launch(LaunchBuilder::new().build());
        }
        if self.script["storeout"] == "empty" {
            b = b.store(Store::default());
        }
        if self.script["launch"] == "yes" {
            b = b.launch(
                LaunchBuilder::new()
                    .process(ProcessBuilder::new(process_type!("web"), ["run", "vbp"]).default(true).build())
                    .process(ProcessBuilder::new(process_type!("worker"), ["work"]).args(["--queue", "a b"]).build())
                    .process(ProcessBuilder::new(process_type!("console"), ["sh"]).working_directory(libcnb::data::launch::WorkingDirectory::Directory("bin dir".into())).build())
                    // the same process type registered twice is legal for the builder
                    .process(ProcessBuilder::new(process_type!("web"), ["run", "again"]).build())
                    .label(libcnb::data::launch::Label { key: "zeta".into(), value: "1".into() })
                    .label(libcnb::data::launch::Label { key: "alpha".into(), value: "2".into() })
                    .slice(libcnb::data::launch::Slice { path_globs: vec!["z/*".into(), "a/*".into()] })
                    .build(),
            );
        }
        if self.script["storeout"] == "yes" {
            let mut t = toml::Table::new();
            t.insert("written-by".into(), toml::Value::String("vbp".into()));
            if let Some(n) = self.script["store_counter"].as_i64() { t.insert("build-number".into(), toml::Value::Integer(n)); }
            for (i, k) in per_process_order(["zulu", "alpha", "mike", "bravo", "yankee", "charlie"].into_iter().enumerate().collect()) {
                let mut inner = toml::Table::new();
                for kk in per_process_order(vec!["x-ray", "delta", "omega"]) { inner.insert(kk.into(), toml::Value::Integer(i as i64)); }
                t.insert(k.into(), toml::Value::Table(inner));
            }
            b = b.store(Store { metadata: t });
        }
        for f in self.script["bsbom"].as_array().cloned().unwrap_or_default() {
            let f = f.as_str().unwrap();
            if std::env::var_os("VBP_DUP_SBOM").is_some() { b = b.build_sbom(Sbom::from_bytes(sbom_format(f), format!("{{\"another\":\"build {f}\"}}"))); }
            b = b.build_sbom(Sbom::from_bytes(sbom_format(f), format!("{{\"sbom\":\"build {f}\"}}")));
        }
        for f in self.script["lsbom"].as_array().cloned().unwrap_or_default() {
            let f = f.as_str().unwrap();
            // the CycloneDX launch SBOM goes through libcnb's conversion from a cyclonedx_bom::Bom (feature
            // `cyclonedx-bom`) built without a serial number - the way to get reproducible SBOMs
            if f == "cdx.json" {
                use cyclonedx_bom::models::{bom::Bom, component::{Classification, Component, Components}};
                let bom = Bom { serial_number: None, components: Some(Components(vec![Component::new(Classification::Library, "launch-component", "1.2.3", None)])), ..Bom::default() };
                b = b.launch_sbom(Sbom::try_from(bom).expect("cyclonedx conversion"));
                continue;
            }
            if std::env::var_os("VBP_DUP_SBOM").is_some() { b = b.launch_sbom(Sbom::from_bytes(sbom_format(f), format!("{{\"another\":\"launch {f}\"}}"))); }
            b = b.launch_sbom(Sbom::from_bytes(sbom_format(f), format!("{{\"sbom\":\"launch {f}\"}}")));
        }
        b.build()
    }

    fn on_error(&self, error: libcnb::Error<VErr>) {
        self.mark("on_error");
        std::fs::write(self.out.join("on_error.txt"), format!("{error:?}")).unwrap();
    }
}

/// the items in an order that differs from process to process (seeded like std's HashMap)
fn per_process_order<T>(mut items: Vec<T>) -> Vec<T> {
    use std::hash::{BuildHasher, Hasher};
    let seed = std::collections::hash_map::RandomState::new().build_hasher().finish();
    fastrand::Rng::with_seed(seed).shuffle(&mut items);
    items
}

/// A complete detect + build invocation for a different buildpack, platform, target and app in this
/// very process, before the one under test: whatever the library remembers from one invocation
/// (a cached buildpack directory, descriptor, target ...) must not leak into the next.
fn decoy_invocation(out: &std::path::Path) {
    let d = out.join("decoy");
    for s in ["bp", "platform/env", "layers", "app", "out"] { std::fs::create_dir_all(d.join(s)).unwrap(); }
    std::fs::write(d.join("bp/buildpack.toml"), "api = \"0.10\"\n\n[buildpack]\nid = \"decoy/buildpack\"\nversion = \"9.9.9\"\nname = \"decoy\"\n\n[[targets]]\nos = \"decoy-os\"\n\n[metadata]\ndecoy = true\n").unwrap();
    std::fs::write(d.join("platform/env/DECOY_VARIABLE"), "decoy").unwrap();
    std::fs::write(d.join("plan.toml"), "[[entries]]\nname = \"decoy-entry\"\n").unwrap();
    std::fs::write(d.join("layers/store.toml"), "[metadata]\ndecoy = \"store\"\n").unwrap();
    let vars: [(&str, &str); 6] = [("CNB_BUILDPACK_DIR", ""), ("CNB_TARGET_OS", "decoy-os"), ("CNB_TARGET_ARCH", "decoy-arch"), ("CNB_TARGET_ARCH_VARIANT", "decoy-variant"), ("CNB_TARGET_DISTRO_NAME", "decoy-distro"), ("CNB_TARGET_DISTRO_VERSION", "0.0")];
    let saved: Vec<(&str, Option<std::ffi::OsString>)> = vars.iter().map(|(k, _)| (*k, std::env::var_os(k))).collect();
    let cwd = std::env::current_dir().ok();
    for (k, v) in vars { unsafe { if k == "CNB_BUILDPACK_DIR" { std::env::set_var(k, d.join("bp")) } else { std::env::set_var(k, v) } } }
    let _ = std::env::set_current_dir(d.join("app"));
    let bp = Vbp { script: serde_json::json!({"detect": "pass"}), out: d.join("out") };
    let r1 = libcnb::libcnb_runtime_detect(&bp, libcnb::DetectArgs { platform_dir_path: d.join("platform"), build_plan_path: d.join("detect-plan.toml") });
    let r2 = libcnb::libcnb_runtime_build(&bp, libcnb::BuildArgs { layers_dir_path: d.join("layers"), platform_dir_path: d.join("platform"), buildpack_plan_path: d.join("plan.toml") });
    if !matches!(r1, Ok(0)) || !matches!(r2, Ok(0)) { eprintln!("HARNESS: the decoy invocation failed: {:?} {:?}", r1.map_err(|e| format!("{e:?}")), r2.map_err(|e| format!("{e:?}"))); }
    for (k, v) in saved { unsafe { match v { Some(v) => std::env::set_var(k, v), None => std::env::remove_var(k) } } }
    if let Some(c) = cwd { let _ = std::env::set_current_dir(c); }
    let _ = std::fs::remove_dir_all(&d);
}

fn main() {
    let out = PathBuf::from(std::env::var_os("VBP_OUT").expect("VBP_OUT"));
    let script: Value = serde_json::from_str(&std::fs::read_to_string(std::env::var_os("VBP_SCRIPT").expect("VBP_SCRIPT")).unwrap()).unwrap();
    if std::env::var_os("VBP_NO_DECOY").is_none() { decoy_invocation(&out); }
    libcnb::libcnb_runtime(&Vbp { script, out });
}
