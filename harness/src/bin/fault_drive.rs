//! C12 driver: for a representative set of Layers.tla transitions and for the phase output
//! writing, learn the number N of watched libc calls, then fail each k = 1..N with each errno
//! and record (ok?, same result?, same directory?) for trace validation by FaultWrapTrace.tla.
use serde_json::{json, Value};
use std::collections::BTreeMap;
use std::io::Write;
use std::path::{Path, PathBuf};
use std::process::Command;
use verif_harness::fsnap;
use verif_harness::layers::*;
use verif_harness::util::*;

const ERRNOS: [(i32, &str); 3] = [(5, "EIO"), (13, "EACCES"), (28, "ENOSPC")];

fn run_child(bin: &Path, shim: &Path, vector: &Path, work: &Path, k: i64, errno: i32, log: Option<&Path>) -> Option<Value> {
    let _ = std::fs::remove_dir_all(work);
    std::fs::create_dir_all(work).unwrap();
    let mut c = Command::new(bin);
    c.arg(vector).arg(work).env("LD_PRELOAD", shim).env("FAULT_PREFIX", work.join("layers")).env("FAULT_K", k.to_string()).env("FAULT_ERRNO", errno.to_string());
    if let Some(l) = log { c.env("FAULT_LOG", l); }
    let out = c.output().ok()?;
    String::from_utf8_lossy(&out.stdout).lines().rev().find_map(|l| serde_json::from_str::<Value>(l).ok())
}

fn run_vbp(vbp_link: &Path, shim: &Path, t: &Path, k: i64, errno: i32, log: Option<&Path>) -> (Option<i32>, fsnap::Snap) {
    let layers = t.join("layers");
    let _ = std::fs::remove_dir_all(&layers);
    std::fs::create_dir_all(&layers).unwrap();
    std::fs::write(layers.join("store.toml"), "[metadata]\nold = \"store\"\n").unwrap();
    std::fs::write(layers.join("launch.toml"), "# stale\n").unwrap();
    let _ = std::fs::remove_dir_all(t.join("vout"));
    std::fs::create_dir_all(t.join("vout")).unwrap();
    let mut c = Command::new(vbp_link);
    c.arg(&layers).arg(t.join("platform")).arg(t.join("plan.toml")).current_dir(t.join("app")).env_clear().envs(std::env::var_os("LLVM_PROFILE_FILE").map(|v| ("LLVM_PROFILE_FILE", v)))
        .env("LD_PRELOAD", shim).env("FAULT_PREFIX", &layers).env("FAULT_K", k.to_string()).env("FAULT_ERRNO", errno.to_string()).env("FAULT_ACTIVE", "1")
        .env("VBP_SCRIPT", t.join("script.json")).env("VBP_OUT", t.join("vout")).env("CNB_BUILDPACK_DIR", t.join("bp"))
        .env("CNB_TARGET_OS", "linux").env("CNB_TARGET_ARCH", "amd64").env("CNB_TARGET_DISTRO_NAME", "ubuntu").env("CNB_TARGET_DISTRO_VERSION", "24.04");
    if let Some(l) = log { c.env("FAULT_LOG", l); }
    let out = c.output().expect("vbp");
    (out.status.code(), fsnap::snapshot(&layers))
}

fn main() {
    let args: Vec<String> = std::env::args().collect();
    let tlc_out = PathBuf::from(&args[1]);
    let trace_out = PathBuf::from(&args[2]);
    let per_class: usize = args.get(3).and_then(|s| s.parse().ok()).unwrap_or(1);
    let scratch = PathBuf::from(std::env::var("VERIF_SCRATCH").unwrap_or_else(|_| "/dev/shm/verif-scratch".into())).join("fault");
    std::fs::create_dir_all(&scratch).unwrap();
    let me = std::env::current_exe().unwrap();
    let bindir = me.parent().unwrap();
    let child = bindir.join("fault_child");
    let shim = PathBuf::from(std::env::var("VERIF_SHIM").unwrap_or_else(|_| "/verif/tools/faultshim.so".into()));
    assert!(shim.exists(), "fault shim not built: {shim:?}");

    // representative transitions: per signature class the ones with the richest pre-state
    let all: Vec<Vector> = read_tlc_tagged(&tlc_out, "TR").into_iter().map(|v| serde_json::from_value(v).unwrap()).collect();
    let mut classes: BTreeMap<String, Vec<Vector>> = BTreeMap::new();
    for v in all {
        // class = call, pre-state class, decisions AND the shape of what is written (what is written
        // over what matters: stale leftovers only show when the new content is smaller)
        let key = format!("{} {} {} arg[{} {} {} {}] cres[{} {}] ures[{} {}] pre[{} {}]", vector_signature(&v), v.obs.cres.k, v.obs.ures.k,
            v.obs.arg.env, v.obs.arg.execd.len(), v.obs.arg.md.kind, v.obs.arg.sbom.values().filter(|t| *t != "none").count(),
            v.obs.cres.shape.env, v.obs.cres.shape.execd.len(), v.obs.ures.shape.env, v.obs.ures.shape.execd.len(),
            v.pre.env, v.pre.execd.len());
        classes.entry(key).or_default().push(v);
    }
    let richness = |v: &Vector| v.pre.files.len() + v.pre.sbom.values().filter(|t| *t != "none").count() + usize::from(v.pre.toml.md.kind != "none");
    let mut jobs: Vec<Vector> = vec![];
    for (_, mut vs) in classes {
        vs.sort_by_key(|v| std::cmp::Reverse(richness(v)));
        jobs.extend(vs.into_iter().take(per_class));
    }

    let results = par_map(&jobs, threads(), |i, v| {
        let work = scratch.join(format!("job{i}"));
        std::fs::create_dir_all(&work).unwrap();
        let vf = work.join("vector.json");
        std::fs::write(&vf, serde_json::to_string(v).unwrap()).unwrap();
        let mut events: Vec<Value> = vec![];
        let mut bad: Vec<Mismatch> = vec![];
        let log = work.join("calls.log");
        let _ = std::fs::remove_file(&log);
        let Some(base) = run_child(&child, &shim, &vf, &work.join("run"), 0, 5, Some(&log)) else {
            bad.push(Mismatch { signature: "harness".into(), detail: "fault-free child run failed".into(), case: json!({}) });
            return (events, bad, 0i64);
        };
        let n = base["count"].as_i64().unwrap_or(0);
        let calls: Vec<String> = std::fs::read_to_string(&log).unwrap_or_default().lines().map(|l| l.split_whitespace().nth(1).unwrap_or("?").to_string()).collect();
        let sig = vector_signature(v);
        events.push(json!({"ev": "faultfree", "action": sig, "n": n, "ok": base["ret"]["ok"]}));
        for k in 1..=n {
            for (e, ename) in ERRNOS {
                let r = run_child(&child, &shim, &vf, &work.join("run"), k, e, None);
                let call = calls.get((k - 1) as usize).cloned().unwrap_or_default();
                let Some(r) = r else {
                    // the process died (abort/segfault): loud, hence reported, but record it
                    events.push(json!({"ev": "faulted", "action": sig, "k": k, "errno": ename, "call": call, "ok": false, "sameret": false, "samedir": false, "died": true}));
                    continue;
                };
                let ok = r["ret"]["ok"] == true;
                let sameret = r["ret"] == base["ret"] && r["calls"] == base["calls"];
                let samedir = r["raw"] == base["raw"];
                events.push(json!({"ev": "faulted", "action": sig, "k": k, "errno": ename, "call": call, "ok": ok, "sameret": sameret, "samedir": samedir, "died": false}));
                if ok && sameret && samedir {
                    bad.push(Mismatch { signature: format!("{} reports success although {call} failed", v.obs.act), detail: format!("{sig}: watched call #{k} ({call}) failed with {ename}; the call returned ok with the fault-free result and directory"), case: json!({"vector": v, "k": k, "errno": e}) });
                }
                if ok && !(sameret && samedir) {
                    bad.push(Mismatch { signature: format!("{} silently survives failing {call}", v.obs.act), detail: format!("{sig}: watched call #{k} ({call}) failed with {ename} but the call returned {} while the directory differs from the fault-free result: {}", r["ret"], layer_diff(&serde_json::from_value(r["post"].clone()).unwrap(), &serde_json::from_value(base["post"].clone()).unwrap())), case: json!({"vector": v, "k": k, "errno": e}) });
                }
            }
        }
        let _ = std::fs::remove_dir_all(&work);
        (events, bad, n)
    });

    // phase output writing through the real runtime
    let t = scratch.join("runtime");
    let _ = std::fs::remove_dir_all(&t);
    for d in ["bp/bin", "app", "platform/env"] { std::fs::create_dir_all(t.join(d)).unwrap(); }
    std::fs::write(t.join("bp/buildpack.toml"), "api = \"0.10\"\n[buildpack]\nid = \"verif/vbp\"\nversion = \"1.0.0\"\n[[targets]]\nos = \"linux\"\narch = \"amd64\"\n").unwrap();
    std::os::unix::fs::symlink(bindir.join("vbp"), t.join("bp/bin/build")).unwrap();
    std::fs::write(t.join("plan.toml"), "").unwrap();
    std::fs::write(t.join("script.json"), json!({"berror": "none", "launch": "yes", "storeout": "yes", "bsbom": ["cdx.json", "spdx.json"], "lsbom": ["syft.json"]}).to_string()).unwrap();
    let log = t.join("calls.log");
    let (code0, snap0) = run_vbp(&t.join("bp/bin/build"), &shim, &t, 0, 5, Some(&log));
    let calls: Vec<String> = std::fs::read_to_string(&log).unwrap_or_default().lines().map(|l| l.split_whitespace().nth(1).unwrap_or("?").to_string()).collect();
    let mut rt_events = vec![json!({"ev": "faultfree", "action": "build phase outputs", "n": calls.len(), "ok": code0 == Some(0)})];
    let mut rt_bad = vec![];
    for k in 1..=calls.len() as i64 {
        for (e, ename) in ERRNOS {
            let (code, snap) = run_vbp(&t.join("bp/bin/build"), &shim, &t, k, e, None);
            let ok = code == Some(0);
            let samedir = snap == snap0;
            let call = calls[(k - 1) as usize].clone();
            rt_events.push(json!({"ev": "faulted", "action": "build phase outputs", "k": k, "errno": ename, "call": call, "ok": ok, "sameret": ok == (code0 == Some(0)), "samedir": samedir, "died": code.is_none()}));
            if ok && !samedir {
                rt_bad.push(Mismatch { signature: format!("build phase exits 0 although {call} failed"), detail: format!("watched call #{k} ({call}) failed with {ename}; exit status 0; outputs differ: {:?}", fsnap::diff(&snap0, &snap)), case: json!({"runtime": true, "k": k, "errno": e}) });
            }
        }
    }

    let mut f = std::io::BufWriter::new(std::fs::File::create(&trace_out).unwrap());
    let mut s = Summary::default();
    let mut total_points = 0i64;
    let mut per_call: BTreeMap<String, usize> = BTreeMap::new();
    for (events, bad, n) in results.into_iter().chain(std::iter::once((rt_events, rt_bad, calls.len() as i64))) {
        total_points += n;
        for e in &events {
            if e["ev"] == "faulted" { *per_call.entry(e["call"].as_str().unwrap_or("?").to_string()).or_default() += 1; }
            writeln!(f, "{e}").unwrap();
        }
        s.mismatches.extend(bad);
    }
    writeln!(f, "{}", json!({"ev": "faultfree", "action": "end", "n": 0, "ok": true})).unwrap();
    f.flush().unwrap();
    s.evaluations = (total_points * ERRNOS.len() as i64) as usize;
    s.distinct_nontrivial = total_points as usize;
    s.extra.insert("actions".into(), json!(jobs.len() + 1));
    s.extra.insert("injection_points".into(), json!(total_points));
    s.extra.insert("per_call".into(), json!(per_call));
    s.samples = vec![json!({"runtime_calls": calls})];
    s.print();
}
