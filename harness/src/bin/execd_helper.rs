//! Calls libcnb::exec_d::write_exec_d_program_output with the map given as JSON in argv[1];
//! the caller provides file descriptor 3.
use libcnb::data::exec_d::ExecDProgramOutputKey;
use std::collections::HashMap;
fn main() {
    let m: HashMap<String, String> = serde_json::from_str(&std::env::args().nth(1).unwrap()).unwrap();
    let m: HashMap<ExecDProgramOutputKey, String> = m.into_iter().map(|(k, v)| (k.parse().expect("key"), v)).collect();
    libcnb::exec_d::write_exec_d_program_output(m);
}
