fn main(){}
