//! Direction A for FsTree.tla (C11): every generated layer tree is materialised (real modes,
//! real symlinks, canary tree and sibling layer beside it) and deleted through the three public
//! entry points; everything outside the layer must be byte-, mode- and target-identical.
//! Meant to run as an unprivileged user (the check starts it through setpriv) so that
//! permission bits are real.
#![allow(deprecated)]
use libcnb::data::layer::LayerName;
use libcnb::data::layer_content_metadata::LayerTypes;
use libcnb::generic::GenericMetadata;
use libcnb::layer::*;
use serde_json::{json, Value};
use std::collections::BTreeMap;
use std::fs;
use std::os::unix::fs::PermissionsExt;
use std::path::{Path, PathBuf};
use verif_harness::fsnap;
use verif_harness::layers::{build_context, TErr, TB};
use verif_harness::util::*;

fn mode_of(m: &str) -> u32 {
    match m {
        "rwx" => 0o755,
        "r-x" => 0o555,
        "---" => 0o000,
        "rw-" => 0o644,
        "r--" => 0o444,
        o => panic!("mode {o}"),
    }
}

struct Recreate;
impl Layer for Recreate {
    type Buildpack = TB;
    type Metadata = GenericMetadata;
    fn types(&self) -> LayerTypes {
        LayerTypes { build: true, launch: false, cache: true }
    }
    fn create(&mut self, _c: &libcnb::build::BuildContext<TB>, _p: &Path) -> Result<LayerResult<GenericMetadata>, TErr> {
        LayerResultBuilder::new(None).build()
    }
    fn existing_layer_strategy(&mut self, _c: &libcnb::build::BuildContext<TB>, _d: &LayerData<GenericMetadata>) -> Result<ExistingLayerStrategy, TErr> {
        Ok(ExistingLayerStrategy::Recreate)
    }
}

fn make_all_writable(p: &Path) {
    if let Ok(md) = fs::symlink_metadata(p) {
        if md.is_dir() {
            let _ = fs::set_permissions(p, fs::Permissions::from_mode(0o755));
            if let Ok(rd) = fs::read_dir(p) {
                for e in rd.flatten() {
                    make_all_writable(&e.path());
                }
            }
        }
    }
}

/// the model's layer "x" is materialised under the concrete name `lname`
fn conc(rel: &str, lname: &str) -> String {
    if rel == "L/x" || rel.starts_with("L/x/") || rel.starts_with("L/x.") { format!("L/{lname}{}", &rel[3..]) } else { rel.to_string() }
}

fn materialize(t: &Path, tree: &Value, relative_links: bool, lname: &str) {
    let mut modes: Vec<(PathBuf, u32)> = vec![];
    let mut mk = |rel: &str, node: &Value, modes: &mut Vec<(PathBuf, u32)>| {
        let rel = &conc(rel, lname);
        let p = t.join(rel);
        match node["k"].as_str().unwrap() {
            "none" => {}
            "dir" => {
                fs::create_dir_all(&p).unwrap();
                modes.push((p, mode_of(node["mode"].as_str().unwrap())));
            }
            "file" => {
                fs::write(&p, format!("content of {rel}\n")).unwrap();
                modes.push((p, mode_of(node["mode"].as_str().unwrap())));
            }
            "link" => {
                let tgt = &conc(node["tgt"].as_str().unwrap(), lname);
                let target = if relative_links {
                    let ups = rel.matches('/').count();
                    PathBuf::from("../".repeat(ups)).join(tgt)
                } else {
                    t.join(tgt)
                };
                std::os::unix::fs::symlink(target, &p).unwrap();
            }
            o => panic!("kind {o}"),
        }
    };
    let d = |m: &str| json!({"k": "dir", "mode": m, "tgt": "-"});
    let f = |m: &str| json!({"k": "file", "mode": m, "tgt": "-"});
    for (rel, node) in [("C", d("r-x")), ("C/d", d("r-x")), ("C/f", f("r--")), ("C/d/g", f("rw-")), ("L", d("rwx")), ("L/y", d("r-x")), ("L/y/f", f("r--")), ("L/y.toml", f("rw-"))] {
        mk(rel, &node, &mut modes);
    }
    // a second sibling whose name merely extends the layer's name with a dot (<name>.z): its
    // directory, metadata and SBOM files are as foreign to the layer as everything else outside
    {
        let z = format!("L/{lname}.z");
        fs::create_dir_all(t.join(&z)).unwrap();
        fs::write(t.join(&z).join("f"), "content of the dotted sibling\n").unwrap();
        fs::write(t.join(format!("{z}.toml")), "[types]\nlaunch = true\n").unwrap();
        fs::write(t.join(format!("{z}.sbom.cdx.json")), "{}").unwrap();
    }
    // shortest paths first so that parents exist
    let mut own: Vec<(&String, &Value)> = tree.as_object().unwrap().iter().collect();
    own.sort_by_key(|(k, _)| k.len());
    for (rel, node) in own {
        mk(rel, node, &mut modes);
    }
    // what else a real layer directory may hold: a FIFO, a socket, a file whose name is not UTF-8
    // (every other tree; all of it belongs to the layer and goes with it)
    let layer_root = t.join(format!("L/{lname}"));
    if tree.to_string().len() % 2 == 0 && fs::symlink_metadata(&layer_root).is_ok_and(|m| m.file_type().is_dir()) {
        use std::os::unix::ffi::OsStringExt;
        let fifo = std::ffi::CString::new(layer_root.join("a fifo").as_os_str().as_encoded_bytes()).unwrap();
        unsafe { libc::mkfifo(fifo.as_ptr(), 0o600) };
        let _ = std::os::unix::net::UnixListener::bind(layer_root.join("S.agent"));
        let _ = fs::write(layer_root.join(std::ffi::OsString::from_vec(b"caf\xe9.txt".to_vec())), "latin-1 name");
        let _ = fs::write(layer_root.join(std::ffi::OsString::from_vec(b"zz\xff\xfe last".to_vec())), "sorts last");
    }
    // a content metadata file that exists must be readable as such
    if t.join(format!("L/{lname}.toml")).exists() {
        fs::write(t.join(format!("L/{lname}.toml")), "[types]\ncache = true\n\n[metadata]\nkept = \"no\"\n").unwrap();
    }
    // modes last, deepest first
    modes.sort_by_key(|(p, _)| std::cmp::Reverse(p.as_os_str().len()));
    for (p, m) in modes {
        fs::set_permissions(&p, fs::Permissions::from_mode(m)).unwrap();
    }
    // the model's one SBOM file stands for the layer's SBOM files in any of the three formats: which
    // of them exist rotates (cdx only / spdx only / cdx + syft / all three)
    let cdx = t.join(format!("L/{lname}.sbom.cdx.json"));
    if cdx.exists() {
        let variant = tree.to_string().len() % 4;
        let (spdx, syft) = (t.join(format!("L/{lname}.sbom.spdx.json")), t.join(format!("L/{lname}.sbom.syft.json")));
        match variant {
            1 => { fs::rename(&cdx, &spdx).unwrap(); }
            2 => { fs::write(&syft, "{}").unwrap(); }
            3 => { fs::write(&spdx, "{}").unwrap(); fs::write(&syft, "{}").unwrap(); }
            _ => {}
        }
    }
}

fn outside(t: &Path, lname: &str) -> fsnap::Snap {
    let (d, pre, toml, sbom) = (format!("L/{lname}"), format!("L/{lname}/"), format!("L/{lname}.toml"), format!("L/{lname}.sbom."));
    fsnap::snapshot(t).into_iter().filter(|(k, _)| !(*k == d || k.starts_with(&pre) || *k == toml || k.starts_with(&sbom))).collect()
}

fn run(v: &Value, scratch: &Path) -> Vec<String> {
    let mut problems = vec![];
    let root_kind = v["tree"]["L/x"]["k"].as_str().unwrap().to_string();
    let root_tgt = v["tree"]["L/x"]["tgt"].as_str().unwrap().to_string();
    // the same tree under a plain layer name and under a dotted one whose prefix is the sibling layer
    for (entry, relative, lname) in [("uncached_layer", false, "x"), ("cached_layer+delete", true, "x"), ("handle_layer+recreate", false, "x"), ("uncached_layer", true, "y.x"), ("handle_layer+recreate", false, "y.x")] {
        let tmp = tempfile::tempdir_in(scratch).unwrap();
        let t = tmp.path();
        fs::set_permissions(t, fs::Permissions::from_mode(0o755)).unwrap();
        materialize(t, &v["tree"], relative, lname);
        let before = outside(t, lname);
        let ctx = build_context(&t.join("L"));
        let name: LayerName = lname.parse().unwrap();
        let result: Result<(), String> = match entry {
            "uncached_layer" => ctx.uncached_layer(&name, UncachedLayerDefinition { build: true, launch: true }).map(|_| ()).map_err(|e| format!("{e:?}")),
            "cached_layer+delete" => ctx
                .cached_layer(&name, CachedLayerDefinition { build: false, launch: true, invalid_metadata_action: &|_| InvalidMetadataAction::DeleteLayer, restored_layer_action: &|_: &GenericMetadata, _| RestoredLayerAction::DeleteLayer })
                .map(|_| ())
                .map_err(|e| format!("{e:?}")),
            _ => ctx.handle_layer(name.clone(), Recreate).map(|_| ()).map_err(|e| format!("{e:?}")),
        };
        let after = outside(t, lname);
        let d = fsnap::diff(&before, &after);
        if !d.is_empty() {
            problems.push(format!("{entry}[{lname}]: something outside the layer changed: {d:?}"));
        }
        let dangling_root = root_kind == "link" && root_tgt == "nowhere";
        match &result {
            Ok(()) => {
                // the layer was recreated: a real, empty directory, nothing of the old entries left
                let md = fs::symlink_metadata(t.join(format!("L/{lname}")));
                let ok_dir = md.as_ref().is_ok_and(|m| m.is_dir());
                let empty = fs::read_dir(t.join(format!("L/{lname}"))).map(|mut d| d.next().is_none()).unwrap_or(false);
                if !ok_dir || !empty {
                    problems.push(format!("{entry}[{lname}]: after deletion the layer path is not a fresh empty directory (is_dir={ok_dir}, empty={empty})"));
                }
                for ext in ["cdx", "spdx", "syft"] {
                    if t.join(format!("L/{lname}.sbom.{ext}.json")).exists() {
                        problems.push(format!("{entry}[{lname}]: the layer's {ext} SBOM file survived the deletion"));
                    }
                }
                if fs::read_to_string(t.join(format!("L/{lname}.toml"))).is_ok_and(|s| s.contains("kept")) {
                    problems.push(format!("{entry}[{lname}]: the old content metadata survived the deletion"));
                }
            }
            Err(e) => {
                if !dangling_root {
                    problems.push(format!("{entry}[{lname}]: deletion failed: {}", e.chars().take(200).collect::<String>()));
                }
            }
        }
        make_all_writable(t);
    }
    problems
}

fn main() {
    let args: Vec<String> = std::env::args().collect();
    let input = PathBuf::from(&args[1]);
    let single = args.get(2).map(String::as_str) == Some("--single");
    let scratch = PathBuf::from(std::env::var("VERIF_SCRATCH").unwrap_or_else(|_| "/dev/shm/verif-scratch".into())).join(format!("fstree-{}", unsafe { libc::geteuid() }));
    fs::create_dir_all(&scratch).unwrap();
    let raw: Vec<Value> = if single { vec![serde_json::from_str(&fs::read_to_string(&input).unwrap()).unwrap()] } else { read_tlc_tagged(&input, "FT") };
    let results = par_map(&raw, threads(), |_, v| std::panic::catch_unwind(std::panic::AssertUnwindSafe(|| run(v, &scratch))).unwrap_or_else(|p| vec![format!("PANIC: {:?}", p.downcast_ref::<String>())]));
    let mut s = Summary::default();
    s.evaluations = raw.len() * 5;
    let mut kinds: BTreeMap<String, usize> = BTreeMap::new();
    for (v, probs) in raw.iter().zip(results) {
        let root = &v["tree"]["L/x"];
        let class = format!("root={}{}", root["k"].as_str().unwrap(), if root["k"] == "link" { format!("->{}", root["tgt"].as_str().unwrap()) } else { String::new() });
        *kinds.entry(class.clone()).or_default() += 1;
        for p in probs {
            let a = &v["tree"]["L/x/a"];
            s.mismatches.push(Mismatch { signature: format!("{class} a={}{} : {}", a["k"].as_str().unwrap(), a["mode"].as_str().unwrap(), p.split(':').next().unwrap_or("")), detail: p, case: v.clone() });
        }
    }
    s.distinct_nontrivial = raw.iter().filter(|v| v["tree"].as_object().unwrap().values().filter(|n| n["k"] != "none").count() >= 2).count();
    s.extra.insert("root_kinds".into(), json!(kinds));
    s.extra.insert("euid".into(), json!(unsafe { libc::geteuid() }));
    s.samples = raw.iter().step_by((raw.len() / 4).max(1)).take(4).cloned().collect();
    s.print();
}
