//! Direction A for Layers.tla: every transition TLC generated is executed on the real library
//! from a materialised pre-state and compared with the specification's result and post-state.
use serde_json::{json, Value};
use std::collections::{BTreeMap, BTreeSet};
use std::path::PathBuf;
use verif_harness::layers::*;
use verif_harness::util::*;

fn bystanders() -> Vec<(String, ALayer)> {
    let full = ALayer {
        dir: true,
        files: BTreeSet::from(["f1".to_string(), "f2".to_string()]),
        env: "e2".into(),
        execd: BTreeSet::from(["p2".to_string()]),
        sbom: BTreeMap::from([("cdx".to_string(), "s2".to_string()), ("spdx".to_string(), "s1".to_string()), ("syft".to_string(), "s2".to_string())]),
        toml: AToml { k: "ok".into(), ty: ATy { set: true, build: true, launch: true, cache: true }, md: AMd { kind: "A".into(), v: "1".into() } },
    };
    let toml_only = ALayer {
        dir: false,
        files: BTreeSet::new(),
        env: "none".into(),
        execd: BTreeSet::new(),
        sbom: BTreeMap::new(),
        toml: AToml { k: "ok".into(), ty: no_ty(), md: AMd { kind: "X".into(), v: "2".into() } },
    };
    // names chosen to be close to the target names used by the models ("x", "y")
    vec![("x2".into(), full), ("xx".into(), toml_only)]
}

fn main() {
    let args: Vec<String> = std::env::args().collect();
    let input = PathBuf::from(&args[1]);
    let single = args.get(2).map(String::as_str) == Some("--single");
    let acts: Option<Vec<String>> = if args.get(2).map(String::as_str) == Some("--acts") { Some(args[3].split(',').map(String::from).collect()) } else { None };
    let scratch = PathBuf::from(std::env::var("VERIF_SCRATCH").unwrap_or_else(|_| "/dev/shm/verif-scratch".into()));
    std::fs::create_dir_all(&scratch).unwrap();
    let u = Universe::standard(&scratch.join("exec-src"));
    u.write_exec_sources();

    let raw: Vec<Value> = if single {
        vec![serde_json::from_str(&std::fs::read_to_string(&input).unwrap()).unwrap()]
    } else {
        read_tlc_tagged(&input, "TR")
    };
    let vectors: Vec<Vector> = raw.iter().map(|v| serde_json::from_value(v.clone()).unwrap_or_else(|e| panic!("vector: {e}: {v}"))).collect();
    let vectors: Vec<Vector> = vectors.into_iter().filter(|v| acts.as_ref().is_none_or(|a| a.contains(&v.obs.act))).collect();
    if args.get(2).map(String::as_str) == Some("--functional-only") {
        // C20, specification side: the post-state and result are a function of pre-state, call and decisions
        let mut seen: BTreeMap<String, String> = BTreeMap::new();
        let mut conflicts = 0usize;
        for v in &vectors {
            let key = serde_json::to_string(&json!([v.pre, v.inrefs, v.obs.act, v.obs.n, v.obs.ty, v.obs.t, v.obs.ima, v.obs.rla, v.obs.strat, v.obs.mig, v.obs.cres, v.obs.ures, v.obs.arg])).unwrap();
            let val = serde_json::to_string(&json!([v.post, v.obs.ret, v.obs.calls])).unwrap();
            if let Some(old) = seen.insert(key, val.clone()) { if old != val { conflicts += 1; } }
        }
        let mut s = Summary::default();
        s.evaluations = vectors.len();
        s.distinct_nontrivial = seen.len();
        s.extra.insert("functional_conflicts".into(), json!(conflicts));
        s.print();
        return;
    }
    let by = bystanders();
    let results = par_map(&vectors, threads(), |_, v| {
        let r = std::panic::catch_unwind(std::panic::AssertUnwindSafe(|| run_vector(&u, &scratch, v, &by)));
        match r {
            Ok(r) => r,
            Err(p) => Err(format!("PANIC in code under test or harness: {:?}", p.downcast_ref::<String>().cloned().or_else(|| p.downcast_ref::<&str>().map(|s| s.to_string())))),
        }
    });

    let mut s = Summary::default();
    s.evaluations = vectors.len();
    let mut classes: BTreeMap<String, usize> = BTreeMap::new();
    let mut per_act: BTreeMap<String, usize> = BTreeMap::new();
    let mut kinds: BTreeMap<String, usize> = BTreeMap::new();
    for (v, r) in vectors.iter().zip(&results) {
        *classes.entry(vector_signature(v)).or_default() += 1;
        *per_act.entry(v.obs.act.clone()).or_default() += 1;
        *kinds.entry(v.obs.ret.kind.clone()).or_default() += 1;
        if let Err(e) = r {
            s.mismatches.push(Mismatch { signature: vector_signature(v), detail: e.clone(), case: serde_json::to_value(v).unwrap() });
        }
    }
    // non-trivial: the pre-state has a layer directory or metadata file (something to get wrong)
    let distinct: BTreeSet<String> = vectors.iter().filter(|v| v.pre.dir || v.pre.toml.k != "absent").map(|v| serde_json::to_string(&json!([v.pre, v.inrefs, v.obs.act, v.obs.ty, v.obs.t, v.obs.ima, v.obs.rla, v.obs.strat, v.obs.mig, v.obs.cres, v.obs.ures, v.obs.arg])).unwrap()).collect();
    s.distinct_nontrivial = distinct.len();
    s.extra.insert("classes".into(), json!(classes.len()));
    s.extra.insert("per_action".into(), json!(per_act));
    s.extra.insert("ret_kinds".into(), json!(kinds));
    let step = (vectors.len() / 5).max(1);
    s.samples = vectors.iter().step_by(step).take(5).map(sample_json).collect();
    s.print();
}
