//! Direction A for MoveContents.tla (extension X01): every initial (src, dst) pair of the model is
//! materialised, `libherokubuildpack::fs::move_directory_contents` runs on it, and the resulting
//! pair + verdict must be one of the terminal states the model reaches from that initial state
//! (read_dir order is not specified, so the model allows every order).
use serde_json::{json, Value};
use std::collections::{BTreeMap, BTreeSet};
use std::fs;
use std::os::unix::fs::PermissionsExt;
use std::path::{Path, PathBuf};
use verif_harness::util::*;

/// identity of an entry is carried by file content / link target / directory mode
fn dir_mode(id: &str) -> u32 {
    if id == "s" { 0o750 } else { 0o705 }
}

fn materialize(dir: &Path, st: &Value) {
    fs::create_dir(dir).unwrap();
    for (n, e) in st.as_object().unwrap() {
        let (k, id) = (e["k"].as_str().unwrap(), e["id"].as_str().unwrap());
        let p = dir.join(n);
        match k {
            "none" => {}
            "file" => fs::write(&p, format!("file made in {id}")).unwrap(),
            "link" => std::os::unix::fs::symlink(format!("target-of-{id}"), &p).unwrap(),
            "dir" | "fulldir" => {
                fs::create_dir(&p).unwrap();
                if k == "fulldir" {
                    fs::write(p.join("inner"), format!("inner made in {id}")).unwrap();
                }
                fs::set_permissions(&p, fs::Permissions::from_mode(dir_mode(id))).unwrap();
            }
            o => panic!("kind {o}"),
        }
    }
}

fn project(dir: &Path, names: &[String]) -> Value {
    let mut m = serde_json::Map::new();
    let mut seen = BTreeSet::new();
    if let Ok(rd) = fs::read_dir(dir) {
        for e in rd.flatten() {
            seen.insert(e.file_name().to_string_lossy().to_string());
        }
    }
    for n in names {
        let p = dir.join(n);
        let e = match fs::symlink_metadata(&p) {
            Err(_) => json!({"k": "none", "id": "-"}),
            Ok(md) if md.file_type().is_symlink() => {
                let t = fs::read_link(&p).unwrap().to_string_lossy().to_string();
                json!({"k": "link", "id": t.trim_start_matches("target-of-")})
            }
            Ok(md) if md.is_file() => {
                let c = fs::read_to_string(&p).unwrap();
                json!({"k": "file", "id": c.trim_start_matches("file made in ")})
            }
            Ok(md) => {
                let id = if md.permissions().mode() & 0o777 == 0o750 { "s" } else { "d" };
                let full = fs::read_dir(&p).unwrap().next().is_some();
                if full {
                    let c = fs::read_to_string(p.join("inner")).unwrap_or_default();
                    if c != format!("inner made in {id}") {
                        json!({"k": "fulldir", "id": format!("MIXED({c})")})
                    } else {
                        json!({"k": "fulldir", "id": id})
                    }
                } else {
                    json!({"k": "dir", "id": id})
                }
            }
        };
        seen.remove(n);
        m.insert(n.clone(), e);
    }
    if !seen.is_empty() {
        m.insert("<stray>".into(), json!(seen));
    }
    Value::Object(m)
}

fn main() {
    let args: Vec<String> = std::env::args().collect();
    let input = PathBuf::from(&args[1]);
    let scratch = PathBuf::from(std::env::var("VERIF_SCRATCH").unwrap_or_else(|_| "/dev/shm/verif-scratch".into())).join("move");
    fs::create_dir_all(&scratch).unwrap();
    let raw = read_tlc_tagged(&input, "MV");
    // group the model's terminal states by initial state
    let mut groups: BTreeMap<String, (Value, Vec<Value>)> = BTreeMap::new();
    for v in raw {
        let key = json!([v["srcThere"], v["dstThere"], v["src0"], v["dst0"]]).to_string();
        groups.entry(key).or_insert_with(|| (v.clone(), vec![])).1.push(json!({"src": v["src"], "dst": v["dst"], "res": v["res"]}));
    }
    let items: Vec<(Value, Vec<Value>)> = groups.into_values().collect();
    let results = par_map(&items, threads(), |_, (init, allowed)| {
        let tmp = tempfile::tempdir_in(&scratch).unwrap();
        let names: Vec<String> = init["src0"].as_object().unwrap().keys().cloned().collect();
        let (s, d) = (tmp.path().join("src"), tmp.path().join("dst"));
        if init["srcThere"] == true { materialize(&s, &init["src0"]); }
        if init["dstThere"] == true { materialize(&d, &init["dst0"]); }
        let r = libherokubuildpack::fs::move_directory_contents(&s, &d);
        let got = json!({"src": project(&s, &names), "dst": project(&d, &names), "res": if r.is_ok() { "ok" } else { "err" }});
        // "leaving src_dir empty": the directory itself must survive
        let mut problems = vec![];
        if init["srcThere"] == true && !s.is_dir() {
            problems.push("the source directory itself disappeared".to_string());
        }
        if !allowed.contains(&got) {
            problems.push(format!("the outcome is none of the {} the model allows: got {got}; allowed e.g. {}", allowed.len(), allowed[0]));
        }
        // restore modes so that the temp dir can be removed
        for dir in [&s, &d] {
            if let Ok(rd) = fs::read_dir(dir) {
                for e in rd.flatten() {
                    if e.file_type().is_ok_and(|t| t.is_dir()) {
                        let _ = fs::set_permissions(e.path(), fs::Permissions::from_mode(0o755));
                    }
                }
            }
        }
        (problems, got["res"] == "err")
    });
    let mut s = Summary::default();
    s.evaluations = items.len();
    let mut errs = 0;
    for ((init, _), (probs, err)) in items.iter().zip(results) {
        if err { errs += 1; }
        for p in probs {
            s.mismatches.push(Mismatch { signature: p.split(':').next().unwrap_or("").chars().take(60).collect(), detail: p, case: init.clone() });
        }
    }
    s.distinct_nontrivial = items.iter().filter(|(i, _)| i["src0"].as_object().unwrap().values().filter(|e| e["k"] != "none").count() >= 2).count();
    s.extra.insert("runs_ending_in_error".into(), json!(errs));
    s.extra.insert("max_allowed_outcomes".into(), json!(items.iter().map(|(_, a)| a.len()).max().unwrap_or(0)));
    s.samples = items.iter().step_by((items.len() / 3).max(1)).take(3).map(|(i, _)| i.clone()).collect();
    s.print();
}
