//! One (possibly faulted) execution of a Layers.tla transition, used by fault_drive (C12).
//! argv: <vector.json> <work dir>. The LD_PRELOAD shim (tools/faultshim.c) is switched on only
//! around the call under test. Prints one JSON line: {"ret":..,"calls":..,"post":..,"raw":..,"count":N}
use serde_json::json;
use std::path::PathBuf;
use verif_harness::fsnap;
use verif_harness::layers::*;

fn shim(name: &str) -> Option<*mut libc::c_void> {
    let c = std::ffi::CString::new(name).unwrap();
    let p = unsafe { libc::dlsym(libc::RTLD_DEFAULT, c.as_ptr()) };
    if p.is_null() { None } else { Some(p) }
}

fn main() {
    let args: Vec<String> = std::env::args().collect();
    let v: Vector = serde_json::from_str(&std::fs::read_to_string(&args[1]).unwrap()).unwrap();
    let work = PathBuf::from(&args[2]);
    let layers_dir = work.join("layers");
    std::fs::create_dir_all(&layers_dir).unwrap();
    let u = Universe::standard(&work.join("exec-src"));
    u.write_exec_sources();
    let ctx = build_context(&layers_dir);
    let name = &v.obs.n;
    let lref = if is_writer(&v.obs.act) {
        let lname: libcnb::data::layer::LayerName = name.parse().unwrap();
        let r = ctx.uncached_layer(&lname, libcnb::layer::UncachedLayerDefinition { build: false, launch: false }).expect("ref");
        remove_layer_completely(&layers_dir, name);
        Some(AnyRef::Uncached(r))
    } else {
        None
    };
    materialize(&u, &layers_dir, name, &v.pre);
    let activate: Option<extern "C" fn(i32)> = shim("faultshim_activate").map(|p| unsafe { std::mem::transmute(p) });
    let count: Option<extern "C" fn() -> i64> = shim("faultshim_count").map(|p| unsafe { std::mem::transmute(p) });
    verif_harness::layers::FAULT_WINDOW.store(true, std::sync::atomic::Ordering::SeqCst);
    if let Some(a) = activate { a(1); }
    let result = std::panic::catch_unwind(std::panic::AssertUnwindSafe(|| execute(&u, &ctx, &v.obs, lref.as_ref())));
    verif_harness::layers::FAULT_WINDOW.store(false, std::sync::atomic::Ordering::SeqCst);
    if let Some(a) = activate { a(0); }
    let n = count.map_or(-1, |c| c());
    let (ret, calls) = match result {
        Ok((r, c, _)) => (r, c),
        // a panic of the code under test is a (loud) failure report, not a success
        Err(_) => (ARet { ok: false, kind: "Panic".into(), cause: "-".into(), c: "-".into(), md: no_md(), env: "none".into(), ty: no_ty() }, vec![]),
    };
    let post = project(&u, &layers_dir, name);
    let raw = fsnap::snapshot(&layers_dir);
    println!("{}", json!({"ret": ret, "calls": calls, "post": post, "raw": raw, "count": n}));
}
