//! Direction A for Runtime.tla (C05, C06): every complete path of the decision tree is set up
//! for real (buildpack dir, platform dir, plan, store, CNB_* variables, argv, executable name),
//! the scripted buildpack `vbp` (real libcnb_runtime) is run, and exit status, marker files,
//! output files and the dumped context are compared with the specification / the inputs.
use serde_json::{json, Value};
use std::collections::{BTreeMap, BTreeSet};
use std::ffi::OsString;
use std::fs;
use std::os::unix::ffi::{OsStrExt, OsStringExt};
use std::os::unix::process::ExitStatusExt;
use std::path::{Path, PathBuf};
use std::process::Command;
use verif_harness::fsnap;
use verif_harness::tomlgen::*;
use verif_harness::util::*;

fn pick<'a>(r: &mut fastrand::Rng, xs: &[&'a str]) -> &'a str {
    xs[r.usize(..xs.len())]
}

fn domain(field: &str) -> Vec<&'static str> {
    match field {
        "bpdir" => vec!["set", "unset"],
        "desc" => vec!["ok", "otherapi", "malformed", "missing", "restbad"],
        "exe" => vec!["detect", "build", "foo", "detect.bak", "build.sh", "rebuild", "Detect", "detect-v2"],
        "argc" => vec!["0", "1", "2", "3", "4"],
        "platform" => vec!["ok", "rich", "noenvdir", "envisfile", "nonutf8"],
        "plan" => vec!["ok", "malformed", "missing", "nonutf8"],
        "store" => vec!["absent", "ok", "malformed", "nonutf8", "isdir"],
        "t_os" | "t_arch" | "t_dname" | "t_dver" => vec!["set", "unset"],
        "t_variant" => vec!["set", "unset", "empty", "nonutf8"],
        "detect" => vec!["pass", "pass_plan", "fail", "error"],
        "planpath" => vec!["ok", "unwritable"],
        "berror" => vec!["none", "buildpack", "layer"],
        "launch" | "storeout" => vec!["yes", "empty", "no"],
        "pre" => vec!["yes", "no"],
        "bsbom" | "lsbom" => vec!["s0", "s1", "s2", "s3"],
        o => panic!("field {o}"),
    }
}
fn sbom_set(id: &str) -> Vec<&'static str> {
    match id {
        "s1" => vec!["cdx.json"],
        "s2" => vec!["spdx.json", "syft.json"],
        "s3" => vec!["cdx.json", "spdx.json", "syft.json"],
        _ => vec![],
    }
}

struct Problem {
    prop: &'static str,
    sig: String,
    detail: String,
}

thread_local! { static LAST_OUTPUTS: std::cell::RefCell<Option<fsnap::Snap>> = const { std::cell::RefCell::new(None) }; }

fn run_case(case: &Value, variation: u64, vbp: &Path, scratch: &Path) -> Vec<Problem> {
    let mut r = fastrand::Rng::with_seed(seed().wrapping_mul(1000003).wrapping_add(variation).wrapping_add(hash(&case.to_string())));
    let mut cfg: BTreeMap<String, String> = BTreeMap::new();
    let mut consulted = BTreeSet::new();
    for (k, v) in case["cfg"].as_object().unwrap() {
        let v = v.as_str().unwrap();
        if v == "?" {
            // variation 0: everything the path did not consult is valid and benign, so that a guard
            // that wrongly lets the run continue ends in a successful phase; other variations: random
            let benign = match k.as_str() {
                "bpdir" | "t_os" | "t_arch" | "t_dname" | "t_dver" | "t_variant" => "set",
                "desc" | "platform" | "plan" | "store" | "planpath" => "ok",
                "exe" => "detect",
                "argc" => "natural",
                "detect" => "pass_plan",
                "berror" => "none",
                "launch" | "storeout" => "yes",
                "bsbom" | "lsbom" => "s1",
                _ => "no",
            };
            cfg.insert(k.clone(), if variation == 0 { benign.to_string() } else { pick(&mut r, &domain(k)).to_string() });
        } else {
            consulted.insert(k.clone());
            cfg.insert(k.clone(), v.to_string());
        }
    }
    if cfg["argc"] == "natural" {
        let n = if cfg["exe"].to_lowercase().contains("build") { "3" } else { "2" };
        cfg.insert("argc".into(), n.into());
    }
    let c = |k: &str| cfg[k].as_str();
    let out = &case["out"];
    // extension X03: the buildpack is built with libcnb's `trace` feature; its telemetry goes to a
    // fixed directory keyed by the buildpack id, so every run gets an id of its own
    let telemetry = std::env::var_os("VERIF_TELEMETRY_VBP").is_some();
    static RUN_NO: std::sync::atomic::AtomicUsize = std::sync::atomic::AtomicUsize::new(0);
    let bp_id = if telemetry { format!("verif/t{}-{}", std::process::id(), RUN_NO.fetch_add(1, std::sync::atomic::Ordering::SeqCst)) } else { "verif/vbp".to_string() };
    let tmp = tempfile::tempdir_in(scratch).unwrap();
    let t = tmp.path().canonicalize().unwrap();
    let (bp, app, layers, platform, vout) = (t.join("bp dir"), t.join("app"), t.join("layers"), t.join("platform"), t.join("vout"));
    for d in [&bp, &app, &layers, &platform, &vout] {
        fs::create_dir_all(d).unwrap();
    }
    fs::create_dir_all(bp.join("bin")).unwrap();
    for n in ["detect", "build", "foo", "detect.bak", "build.sh", "rebuild", "Detect", "detect-v2"] {
        std::os::unix::fs::symlink(vbp, bp.join("bin").join(n)).unwrap();
    }
    // buildpack.toml
    let desc_md = gen_table(&mut r, 2);
    let style = r.u64(..);
    match c("desc") {
        "ok" | "otherapi" => {
            // (every other descriptor declares one SBOM format; what the build result provides is written whatever is declared)
            let declared = if r.bool() { "sbom-formats = [\"application/vnd.cyclonedx+json\"]\n" } else { "" };
            let mut s = format!("api = \"{}\"\n\n[buildpack]\nid = \"{bp_id}\"\nversion = \"1.2.3\"\nname = \"V b p\"\n{declared}\n[[targets]]\nos = \"linux\"\narch = \"amd64\"\n\n", if c("desc") == "ok" { "0.10" } else { "0.9" });
            emit_table(&["metadata".to_string()], &desc_md, style, &mut s);
            fs::write(bp.join("buildpack.toml"), s).unwrap();
        }
        // (not TOML at all, or an API version that is not <major>.<minor>: white space is no part of one)
        "malformed" => fs::write(bp.join("buildpack.toml"), ["api = = \"0.10\"\n", "api = \" 0.10\"\n\n[buildpack]\nid = \"a/b\"\nversion = \"1.0.0\"\n", "api = \"0.10\\n\"\n\n[buildpack]\nid = \"a/b\"\nversion = \"1.0.0\"\n"][r.usize(..3)]).unwrap(),
        "restbad" => fs::write(bp.join("buildpack.toml"), "api = \"0.10\"\n\n[buildpack]\nid = 5\n").unwrap(),
        _ => {}
    }
    // platform
    let mut expected_env: Vec<(Vec<u8>, Vec<u8>)> = vec![];
    let names: [&[u8]; 6] = [b"FOO", b"with space", b"a=b", b".dot", "\u{fc}n\u{ef}".as_bytes(), b"lower_case"];
    let contents: [&str; 5] = ["", "plain", "multi\nline\n", "uni \u{e9} \u{4e16}", " padded "];
    match c("platform") {
        "noenvdir" => {}
        "envisfile" => fs::write(platform.join("env"), "not a directory").unwrap(),
        kind => {
            let env = platform.join("env");
            fs::create_dir_all(&env).unwrap();
            for n in names.iter() {
                if r.bool() { continue; }
                let content = pick(&mut r, &contents);
                fs::write(env.join(OsString::from_vec(n.to_vec())), content).unwrap();
                expected_env.push((n.to_vec(), content.as_bytes().to_vec()));
            }
            if kind == "nonutf8" {
                fs::write(env.join("BINARY"), b"\xff\xfe\x00").unwrap();
            }
            if kind == "rich" {
                fs::create_dir_all(env.join("a_directory/inner")).unwrap();
                fs::write(env.join("a_directory/INNER_FILE"), "must not appear").unwrap();
                fs::write(t.join("link-target"), "via link\n").unwrap();
                std::os::unix::fs::symlink(t.join("link-target"), env.join("LINKED")).unwrap();
                expected_env.push((b"LINKED".to_vec(), b"via link\n".to_vec()));
                std::os::unix::fs::symlink(&app, env.join("LINK_TO_DIR")).unwrap();
                // (a dangling link is neither promised to be tolerated nor to be an error: not generated)
            }
        }
    }
    expected_env.sort();
    // buildpack plan (build input) / build plan (detect output)
    let plan_entries: Vec<(String, Value)> = (0..r.usize(0..3)).map(|i| (format!("{} {i}", pick(&mut r, &STRINGS[1..4])), gen_table(&mut r, 2))).collect();
    let plan_path = if c("exe") == "detect" && c("planpath") == "unwritable" { t.join("no such dir").join("plan.toml") } else { t.join("plan.toml") };
    // (long, so that a writer that does not truncate leaves a visible tail behind)
    let plan_sentinel_owned = format!("# sentinel written by the platform\n{}", "# padding padding padding padding padding padding padding padding\n".repeat(40));
    let plan_sentinel = plan_sentinel_owned.as_str();
    if c("exe").to_lowercase().contains("build") {
        match c("plan") {
            "ok" => {
                let mut s = String::new();
                for (n, md) in &plan_entries {
                    s.push_str(&format!("[[entries]]\nname = {}\n", emit_inline(&json!({"s": n}), 0)));
                    emit_table(&["entries".to_string(), "metadata".to_string()], md, r.u64(..), &mut s);
                    s.push('\n');
                }
                fs::write(&plan_path, s).unwrap();
            }
            "malformed" => fs::write(&plan_path, "[[entries]]\nnombre = \"x\"\n").unwrap(),
            "nonutf8" => fs::write(&plan_path, b"[[entries]]\nname = \"\xff\"\n").unwrap(),
            _ => {}
        }
    } else if plan_path.parent().unwrap().is_dir() {
        fs::write(&plan_path, plan_sentinel).unwrap();
    }
    // store
    let store_md = gen_table(&mut r, 2);
    let mut store_text: Option<String> = None;
    match c("store") {
        "ok" => {
            let mut s = String::new();
            emit_table(&["metadata".to_string()], &store_md, r.u64(..), &mut s);
            if s.is_empty() { s.push_str("[metadata]\n"); }
            store_text = Some(s);
        }
        "malformed" => store_text = Some("[metadata\nx = 1\n".into()),
        _ => {}
    }
    let mut store_bytes: Option<Vec<u8>> = store_text.clone().map(String::into_bytes);
    match c("store") {
        "nonutf8" => store_bytes = Some(b"[metadata]\nk = \"\xff\xfe\"\n".to_vec()),
        "isdir" => fs::create_dir_all(layers.join("store.toml")).unwrap(),
        _ => {}
    }
    if let Some(s) = &store_bytes {
        fs::write(layers.join("store.toml"), s).unwrap();
    }
    // pre-existing outputs of an earlier build
    let out_names = ["launch.toml", "build.sbom.cdx.json", "build.sbom.spdx.json", "build.sbom.syft.json", "launch.sbom.cdx.json", "launch.sbom.spdx.json", "launch.sbom.syft.json"];
    let pre = c("pre") == "yes";
    // "blocked:<file>": a directory sits where that output file has to be written
    let blocked = c("pre").strip_prefix("blocked:").map(str::to_string);
    let mut devfull = false;
    if let Some(f) = &blocked {
        // ... or (every other time) the file can be opened but not written: a link to /dev/full
        if r.bool() && Path::new("/dev/full").exists() {
            std::os::unix::fs::symlink("/dev/full", layers.join(f)).unwrap();
            devfull = true;
        } else {
            fs::create_dir_all(layers.join(f).join("not a file")).unwrap();
        }
    }
    if pre {
        for n in out_names {
            fs::write(layers.join(n), stale_content(n)).unwrap();
        }
    }
    // script + argv + environment
    let script = json!({"detect": c("detect"), "berror": c("berror"), "launch": c("launch"), "storeout": c("storeout"), "bsbom": sbom_set(c("bsbom")), "lsbom": sbom_set(c("lsbom"))});
    fs::write(t.join("script.json"), script.to_string()).unwrap();
    let exe_name = c("exe");
    let natural: Vec<PathBuf> = if c("exe").to_lowercase().contains("build") { vec![layers.clone(), platform.clone(), plan_path.clone()] } else { vec![platform.clone(), plan_path.clone()] };
    let argc: usize = c("argc").parse().unwrap();
    let mut argv: Vec<PathBuf> = natural.iter().take(argc).cloned().collect();
    while argv.len() < argc {
        argv.push(t.join(format!("extra{}", argv.len())));
    }
    let mut cmd = Command::new(bp.join("bin").join(exe_name));
    cmd.args(&argv).current_dir(&app).env_clear().envs(std::env::var_os("LLVM_PROFILE_FILE").map(|v| ("LLVM_PROFILE_FILE", v))).env("VBP_SCRIPT", t.join("script.json")).env("VBP_OUT", &vout).env("PATH", "/usr/bin:/bin")
        // (a stale PWD, as a shell that changed directory without exporting would leave it: the app directory is the working directory)
        .env("PWD", &bp);
    if c("bpdir") == "set" { cmd.env("CNB_BUILDPACK_DIR", &bp); }
    // (paired runs only) the scripted buildpack registers two different documents per SBOM format
    if DET.load(std::sync::atomic::Ordering::SeqCst) { cmd.env("VBP_DUP_SBOM", "1"); }
    // the target values are the platform's: whatever they are, they reach the context verbatim
    let tset: [[&str; 4]; 4] = [["linux", "arm64", "ubuntu core", "24.04"], ["windows", "amd64", "nanoserver", "10.0.20348.1970"], ["linux", "", "", ""], ["freebsd", "riscv64", "  padded ", "0"]];
    let tpick = tset[(hash(&case.to_string()) as usize + variation as usize) % tset.len()];
    let tvals = [("t_os", "CNB_TARGET_OS", tpick[0]), ("t_arch", "CNB_TARGET_ARCH", tpick[1]), ("t_dname", "CNB_TARGET_DISTRO_NAME", tpick[2]), ("t_dver", "CNB_TARGET_DISTRO_VERSION", tpick[3])];
    for (f, var, val) in tvals {
        if c(f) == "set" { cmd.env(var, val); }
    }
    match c("t_variant") {
        "set" => { cmd.env("CNB_TARGET_ARCH_VARIANT", "v8"); }
        "empty" => { cmd.env("CNB_TARGET_ARCH_VARIANT", ""); }
        "nonutf8" => { cmd.env("CNB_TARGET_ARCH_VARIANT", OsString::from_vec(b"v\xff8".to_vec())); }
        _ => {}
    }
    // X03: the telemetry file of this buildpack id and phase already holds a line of an earlier run
    let phase = match c("exe") { "detect" => Some("detect"), "build" => Some("build"), _ => None };
    let tfile = |ph: &str| PathBuf::from("/tmp/libcnb-telemetry").join(format!("{}-{ph}.jsonl", bp_id.replace(['/', '.', '-'], "_")));
    if telemetry {
        cmd.env("VBP_NO_DECOY", "1");   // tracing installs a process-global subscriber: one invocation per process
        fs::create_dir_all("/tmp/libcnb-telemetry").unwrap();
        if let Some(ph) = phase { fs::write(tfile(ph), "{\"earlier\":\"run\"}\n").unwrap(); }
    }
    let output = cmd.output().expect("spawn vbp");
    let code = output.status.code();
    let mut tproblems: Vec<String> = vec![];
    if telemetry {
        let want = out["telemetry"].as_str().unwrap_or("none");
        for ph in ["detect", "build"] {
            let text = fs::read_to_string(tfile(ph)).unwrap_or_default();
            let _ = fs::remove_file(tfile(ph));
            let lines: Vec<&str> = text.lines().collect();
            if Some(ph) != phase {
                if !lines.is_empty() { tproblems.push(format!("telemetry for phase {ph} although the executable ran as {}", c("exe"))); }
                continue;
            }
            if lines.first().copied() != Some("{\"earlier\":\"run\"}") { tproblems.push("the telemetry of an earlier run was not kept (the file must be appended to)".into()); }
            let new = &lines[1.min(lines.len())..];
            if want == "none" {
                if !new.is_empty() { tproblems.push(format!("{} telemetry line(s) although the phase never began", new.len())); }
                continue;
            }
            if new.len() != 1 { tproblems.push(format!("{} telemetry line(s) for one {ph} run, the specification says exactly one ({want})", new.len())); continue; }
            let line = new[0];
            let outcome = match want { "passed" => "libcnb-detect-passed".to_string(), "failed" => "libcnb-detect-failed".to_string(), "success" => "libcnb-build-success".to_string(), _ => format!("libcnb-{ph}-error") };
            match serde_json::from_str::<Value>(line) {
                Err(e) => tproblems.push(format!("telemetry line is not JSON: {e}")),
                Ok(v) => {
                    let spans: Vec<&Value> = v["resourceSpans"].as_array().into_iter().flatten().flat_map(|rs| rs["scopeSpans"].as_array().into_iter().flatten()).flat_map(|ss| ss["spans"].as_array().into_iter().flatten()).collect();
                    if spans.len() != 1 || spans[0]["name"] != format!("libcnb-{ph}").as_str() { tproblems.push(format!("expected exactly one span libcnb-{ph}, found {:?}", spans.iter().map(|s| s["name"].clone()).collect::<Vec<_>>())); }
                    let events: Vec<String> = spans.iter().flat_map(|s| s["events"].as_array().into_iter().flatten()).map(|e| e["name"].as_str().unwrap_or("?").to_string()).collect();
                    let outcomes: Vec<&String> = events.iter().filter(|e| e.starts_with("libcnb-")).collect();
                    if outcomes != vec![&outcome] { tproblems.push(format!("outcome events {outcomes:?}, the specification says [{outcome}] (exit {code:?})")); }
                    if !line.contains(&bp_id) || !line.contains("1.2.3") { tproblems.push("the telemetry record does not carry the buildpack id and version".into()); }
                }
            }
        }
    }
    let count = |m: &str| fs::read_to_string(vout.join(format!("{m}.called"))).map(|s| s.lines().count()).unwrap_or(0);
    let (n_detect, n_build, n_err) = (count("detect"), count("build"), count("on_error"));

    // C20: the bytes this run left behind (layers directory and plan file), relative to its temp root
    {
        let mut snap = fsnap::snapshot(&layers);
        if let Ok(b) = fs::read(&plan_path) { snap.insert("<plan>".into(), fsnap::Node::File { mode: 0, hex: hex(&b) }); }
        LAST_OUTPUTS.with(|l| *l.borrow_mut() = Some(snap));
    }
    let mut problems = vec![];
    // (the one known finding of C06 - a non-UTF-8 arch variant is treated as absent - also changes
    //  what the run reports about itself; it is C06's business, not the telemetry's)
    if consulted.contains("t_variant") && c("t_variant") == "nonutf8" { tproblems.clear(); }
    for p in tproblems {
        problems.push(Problem { prop: "X03", sig: format!("telemetry exe={} want={}: {}", c("exe"), out["telemetry"].as_str().unwrap_or("none"), p.split(',').next().unwrap_or("").chars().take(60).collect::<String>()), detail: p });
    }
    if String::from_utf8_lossy(&output.stderr).contains("HARNESS:") {
        problems.push(Problem { prop: "C06", sig: "HARNESS: decoy invocation".into(), detail: String::from_utf8_lossy(&output.stderr).lines().find(|l| l.contains("HARNESS:")).unwrap_or("").to_string() });
    }
    if consulted.contains("t_variant") && c("t_variant") == "nonutf8" {
        // C06: a value that cannot be represented must be a reported error, never dropped
        if n_detect + n_build > 0 {
            let ctx = fs::read_to_string(vout.join("ctx.json")).ok().and_then(|s| serde_json::from_str::<Value>(&s).ok()).unwrap_or(Value::Null);
            problems.push(Problem { prop: "C06", sig: format!("env:CNB_TARGET_ARCH_VARIANT=non-utf8 -> arch_variant={}", if ctx["target"]["arch_variant"].is_null() { "None".to_string() } else { ctx["target"]["arch_variant"].to_string() }),
                detail: format!("CNB_TARGET_ARCH_VARIANT holds bytes that are not UTF-8; the phase ran anyway (exit {code:?}) with target {}", ctx["target"]) });
        } else if n_err != 1 || code == Some(0) || code == Some(100) {
            problems.push(Problem { prop: "C06", sig: "env:CNB_TARGET_ARCH_VARIANT=non-utf8 not reported".into(), detail: format!("exit {code:?}, error handler ran {n_err} times") });
        }
        return problems;
    }
    let path_sig = format!("exe={} exit={} consulted={}", c("exe"), out["exit"].as_str().unwrap(), consulted.iter().filter(|k| case["cfg"][k.as_str()] != "set" && case["cfg"][k.as_str()] != "ok").map(|k| format!("{k}:{}", case["cfg"][k.as_str()].as_str().unwrap())).collect::<Vec<_>>().join(","));
    let stderr = String::from_utf8_lossy(&output.stderr).to_string();
    let Some(code) = code else {
        problems.push(Problem { prop: "C05", sig: path_sig.clone(), detail: format!("killed by signal {:?}; stderr: {}", output.status.signal(), stderr) });
        return problems;
    };
    if stderr.contains("panicked at") && !stderr.contains("scripted") {
        problems.push(Problem { prop: "C05", sig: path_sig.clone(), detail: format!("the buildpack process panicked: {}", stderr.lines().take(3).collect::<Vec<_>>().join(" | ")) });
    }
    // C06: an input that cannot be read / represented (store, plan, platform env content) must be
    // a reported error; if buildpack code ran anyway the input was silently dropped or altered
    if out["exit"] == "err" && out["userdetect"] == 0 && out["userbuild"] == 0 && n_detect + n_build > 0 {
        for f in ["store", "plan", "platform"] {
            if consulted.contains(f) && !matches!(c(f), "ok" | "rich" | "noenvdir" | "absent") {
                problems.push(Problem { prop: "C06", sig: format!("unreadable input silently ignored: {f}={}", c(f)), detail: format!("{f} is {} (must be a reported error) but the {} code ran with a context that pretends otherwise", c(f), c("exe")) });
            }
        }
    }
    // C06: inputs that must be tolerated (directories and links in <platform>/env, a missing env
    // directory, a missing store.toml) but made context assembly fail
    if matches!(out["exit"].as_str().unwrap(), "0" | "100") && n_detect + n_build == 0 && n_err > 0 {
        let e = fs::read_to_string(vout.join("on_error.txt")).unwrap_or_default();
        if e.contains("CannotCreatePlatformFromPath") || e.contains("CannotReadStore") {
            problems.push(Problem { prop: "C06", sig: format!("tolerated input rejected: platform={} store={}", c("platform"), c("store")), detail: format!("context assembly failed on an input the platform may legitimately supply: {}", e.chars().take(200).collect::<String>()) });
        }
    }
    // a link to /dev/full only blocks a writer that writes through it: one that puts a finished file in its
    // place (write elsewhere, rename) has written the output, and that is as good as the reported error
    let replaced = devfull && code == 0 && n_err == 0 && blocked.as_ref().is_some_and(|f| fs::symlink_metadata(layers.join(f)).is_ok_and(|m| m.file_type().is_file() && m.len() > 0));
    let mut out = out.clone();
    if replaced { out["exit"] = json!("0"); out["onerror"] = json!("0"); }
    let out = &out;
    let mut p5 = |d: String| problems.push(Problem { prop: "C05", sig: path_sig.clone(), detail: d });
    match out["exit"].as_str().unwrap() {
        "0" => if code != 0 { p5(format!("exit status {code}, specification says 0; stderr: {stderr}")) },
        "100" => if code != 100 { p5(format!("exit status {code}, specification says 100")) },
        "err" => if code == 0 || code == 100 { p5(format!("exit status {code} after an error inside the phase (must be neither 0 nor 100)")) },
        "guard" => if code == 0 { p5("exit status 0 although a guard in front of the phase must stop the run".into()) },
        o => panic!("exit {o}"),
    }
    match out["onerror"].as_str().unwrap() {
        "0" => if n_err != 0 { p5(format!("error handler called {n_err} times, specification says never")) },
        "1" => if n_err != 1 { p5(format!("error handler called {n_err} times, specification says exactly once")) },
        _ => if n_err > 1 { p5(format!("error handler called {n_err} times")) },
    }
    if n_detect as u64 != out["userdetect"].as_u64().unwrap() { p5(format!("detect code ran {n_detect} times, specification says {}", out["userdetect"])); }
    if n_build as u64 != out["userbuild"].as_u64().unwrap() { p5(format!("build code ran {n_build} times, specification says {}", out["userbuild"])); }
    // outputs
    if c("exe") == "detect" && plan_path.parent().unwrap().is_dir() {
        let text = fs::read_to_string(&plan_path).unwrap_or_default();
        if out["planwritten"] == true {
            // (the scripted plan: provides vbp, second, vbp, third; requires vbp with metadata; or: provides other)
            let names = |v: Option<&toml::Value>| -> Vec<String> { v.and_then(|p| p.as_array()).map(|a| a.iter().map(|x| x.get("name").and_then(|n| n.as_str()).unwrap_or("?").to_string()).collect()).unwrap_or_default() };
            let ok = text.parse::<toml::Table>().ok().is_some_and(|t| {
                names(t.get("provides")) == ["vbp", "second", "vbp", "third"] && names(t.get("requires")) == ["vbp"]
                    && t.get("requires").and_then(|r| r.get(0)).and_then(|r| r.get("metadata")).and_then(|m| m.as_table()).is_some_and(|m| m.len() == 5 && m.get("mike").and_then(|x| x.as_table()).is_some_and(|x| x.len() == 4))
                    && t.get("or").and_then(|o| o.as_array()).is_some_and(|o| o.len() == 1 && names(o[0].get("provides")) == ["other"])
            });
            if !ok { p5(format!("build plan was not written as provided: {text:?}")); }
        } else if text != plan_sentinel {
            p5(format!("build plan file was modified although no plan was to be written: {text:?}"));
        }
    }
    if (c("exe") == "build" && n_build > 0 || out["userbuild"] == 1) && blocked.is_none() {
        let want: BTreeSet<String> = out["files"].as_array().unwrap().iter().map(|v| v.as_str().unwrap().to_string()).collect();
        for n in out_names.iter().chain(["store.toml"].iter()) {
            let path = layers.join(n);
            let got = fs::read(&path).ok();
            if want.contains(*n) {
                let ok = match (*n, &got) {
                    (_, None) => false,
                    ("launch.toml", Some(b)) => String::from_utf8_lossy(b).parse::<toml::Table>().ok().is_some_and(|t| {
                        let procs = t.get("processes").and_then(|p| p.as_array()).cloned().unwrap_or_default();
                        if c("launch") == "empty" { procs.is_empty() && !String::from_utf8_lossy(b).contains("stale") } else { procs.len() == 4 && procs[0].get("type").and_then(|x| x.as_str()) == Some("web") }
                    }),
                    ("store.toml", Some(b)) => String::from_utf8_lossy(b).parse::<toml::Table>().ok().is_some_and(|t| {
                        let md = t.get("metadata").and_then(|m| m.as_table()).cloned().unwrap_or_default();
                        if c("storeout") == "empty" { md.is_empty() } else { md.len() == 7 && md.get("written-by").and_then(|x| x.as_str()) == Some("vbp") }
                    }),
                    ("launch.sbom.cdx.json", Some(b)) => {
                        // (built from a cyclonedx_bom::Bom without a serial number through libcnb's conversion)
                        serde_json::from_slice::<Value>(b).ok().is_some_and(|v| v["bomFormat"] == "CycloneDX" && v["components"][0]["name"] == "launch-component" && v.get("serialNumber").is_none())
                    }
                    (n, Some(b)) => {
                        let (kind, f) = n.split_once(".sbom.").unwrap();
                        *b == format!("{{\"sbom\":\"{kind} {f}\"}}").into_bytes()
                    }
                };
                if !ok { p5(format!("{n} was provided by the build result but the file is {:?}", got.map(|b| String::from_utf8_lossy(&b).to_string()))); }
            } else {
                let before: Option<Vec<u8>> = if *n == "store.toml" { store_bytes.clone() } else if pre { Some(stale_content(n).into_bytes()) } else { None };
                if got != before {
                    p5(format!("{n} was not provided by the build result but changed: before {:?}, after {:?}", before.map(|b| String::from_utf8_lossy(&b).to_string()), got.map(|b| String::from_utf8_lossy(&b).to_string())));
                }
            }
        }
    }
    // C06: the context the buildpack code saw
    if n_detect + n_build > 0 {
        let mut p6 = |d: String| problems.push(Problem { prop: "C06", sig: d.split(':').next().unwrap_or("").to_string(), detail: d });
        match fs::read_to_string(vout.join("ctx.json")).ok().and_then(|s| serde_json::from_str::<Value>(&s).ok()) {
            None => p6("context dump missing".into()),
            Some(ctx) => {
                let hx = |p: &Path| hex(p.as_os_str().as_bytes());
                if ctx["app_dir"] != json!(hx(&app)) { p6(format!("app_dir: context has {}, platform supplied {}", ctx["app_dir"], hx(&app))); }
                if ctx["buildpack_dir"] != json!(hx(&bp)) { p6(format!("buildpack_dir: context has {}, platform supplied {}", ctx["buildpack_dir"], hx(&bp))); }
                if c("exe") == "build" && ctx["layers_dir"] != json!(hx(&layers)) { p6(format!("layers_dir: context has {}, platform supplied {}", ctx["layers_dir"], hx(&layers))); }
                let want_t = json!({"os": tpick[0], "arch": tpick[1], "arch_variant": match c("t_variant") { "set" => json!("v8"), "empty" => json!(""), _ => Value::Null }, "distro_name": tpick[2], "distro_version": tpick[3]});
                if ctx["target"] != want_t { p6(format!("target: context has {}, CNB_TARGET_* say {}", ctx["target"], want_t)); }
                let want_env: Vec<(String, String)> = expected_env.iter().map(|(k, v)| (hex(k), hex(v))).collect();
                if ctx["env"] != json!(want_env) { p6(format!("platform env: context has {} entries {:?}, the platform directory holds {:?}", ctx["env"].as_array().map_or(0, Vec::len), ctx["env"], want_env)); }
                let d = &ctx["descriptor"];
                if d["id"] != bp_id.as_str() || d["version"] != "1.2.3" || d["name"] != "V b p" || d["api"] != "0.10" { p6(format!("descriptor: context has {d}")); }
                let want_md = if desc_md["t"].as_object().unwrap().is_empty() { vec![Value::Null, desc_md.clone()] } else { vec![desc_md.clone()] };
                if !want_md.contains(&d["metadata"]) { p6(format!("descriptor metadata: context has {}, buildpack.toml says {}", d["metadata"], desc_md)); }
                if c("exe") == "build" {
                    let want_plan: Vec<Value> = plan_entries.iter().map(|(n, md)| json!({"name": n, "metadata": md})).collect();
                    if ctx["plan"] != json!(want_plan) { p6(format!("buildpack plan: context has {}, plan file says {}", ctx["plan"], json!(want_plan))); }
                    let want_store = if c("store") == "ok" { store_md.clone() } else { Value::Null };
                    if ctx["store"] != want_store { p6(format!("store: context has {}, store.toml says {}", ctx["store"], want_store)); }
                }
            }
        }
    }
    problems
}

/// what an earlier, larger build left in an output file
fn stale_content(n: &str) -> String {
    format!("# stale {n}\n{}", "# left over from an earlier build with a much larger result ..........\n".repeat(60))
}

fn hash(s: &str) -> u64 {
    s.bytes().fold(1469598103934665603u64, |h, b| (h ^ b as u64).wrapping_mul(1099511628211))
}

static DET: std::sync::atomic::AtomicBool = std::sync::atomic::AtomicBool::new(false);

fn main() {
    let args: Vec<String> = std::env::args().collect();
    let input = PathBuf::from(&args[1]);
    let single = args.get(2).map(String::as_str) == Some("--single");
    let variations: u64 = std::env::var("VERIF_VARIATIONS").ok().and_then(|s| s.parse().ok()).unwrap_or(2);
    let scratch = PathBuf::from(std::env::var("VERIF_SCRATCH").unwrap_or_else(|_| "/dev/shm/verif-scratch".into()));
    fs::create_dir_all(&scratch).unwrap();
    let vbp = std::env::var_os("VERIF_TELEMETRY_VBP").map_or_else(|| std::env::current_exe().unwrap().parent().unwrap().join("vbp"), PathBuf::from);
    let raw: Vec<Value> = if single { vec![serde_json::from_str(&fs::read_to_string(&input).unwrap()).unwrap()] } else { read_tlc_tagged(&input, "RP") };
    if args.get(2).map(String::as_str) == Some("--det") {
        DET.store(true, std::sync::atomic::Ordering::SeqCst);
        // C20: every path that writes outputs, twice with identical inputs in two fresh processes
        // and temp roots (every fifth pair with the clock advanced in between)
        let cases: Vec<&Value> = raw.iter().filter(|c| matches!(c["out"]["exit"].as_str(), Some("0" | "100"))).collect();
        let results = par_map(&cases, threads(), |i, case| {
            let _ = run_case(case, 0, &vbp, &scratch);
            let a = LAST_OUTPUTS.with(|l| l.borrow_mut().take());
            if i % 50 == 0 { std::thread::sleep(std::time::Duration::from_millis(1100)); }
            let _ = run_case(case, 0, &vbp, &scratch);
            let b = LAST_OUTPUTS.with(|l| l.borrow_mut().take());
            match (a, b) {
                (Some(a), Some(b)) if a == b => (a.len(), None),
                (Some(a), Some(b)) => (a.len(), Some(format!("{:?}", fsnap::diff(&a, &b)))),
                _ => (0, Some("a run left no outputs".to_string())),
            }
        });
        let mut s = Summary::default();
        s.evaluations = cases.len() * 2;
        for (case, (n, d)) in cases.iter().zip(results) {
            if n >= 2 { s.distinct_nontrivial += 1; }
            if let Some(d) = d {
                s.mismatches.push(Mismatch { signature: format!("outputs of exe={} differ between two identical runs", case["cfg"]["exe"].as_str().unwrap()), detail: d.chars().take(900).collect(), case: (*case).clone() });
            }
        }
        s.extra.insert("pairs".into(), json!(cases.len()));
        s.print();
        return;
    }
    let jobs: Vec<(usize, u64)> = (0..raw.len()).flat_map(|i| (0..variations).map(move |k| (i, k))).collect();
    let results = par_map(&jobs, threads(), |_, (i, k)| {
        let case = if single { &raw[*i]["case"] } else { &raw[*i] };
        let k = if single { raw[*i]["variation"].as_u64().unwrap_or(*k) } else { *k };
        run_case(case, k, &vbp, &scratch)
    });
    let mut s = Summary::default();
    s.evaluations = jobs.len();
    let mut exits: BTreeMap<String, usize> = BTreeMap::new();
    let mut ctx_checked = 0usize;
    for ((i, k), probs) in jobs.iter().zip(results) {
        let case = if single { &raw[*i]["case"] } else { &raw[*i] };
        *exits.entry(format!("{}:{}", case["cfg"]["exe"].as_str().unwrap(), case["out"]["exit"].as_str().unwrap())).or_default() += 1;
        if case["out"]["userdetect"] == 1 || case["out"]["userbuild"] == 1 { ctx_checked += 1; }
        for p in probs {
            s.mismatches.push(Mismatch { signature: format!("{}:{}", p.prop, p.sig), detail: p.detail, case: json!({"case": case, "variation": k}) });
        }
    }
    s.distinct_nontrivial = raw.len();
    s.extra.insert("paths".into(), json!(raw.len()));
    s.extra.insert("exits".into(), json!(exits));
    s.extra.insert("contexts_compared".into(), json!(ctx_checked));
    let step = (raw.len() / 4).max(1);
    s.samples = raw.iter().step_by(step).take(4).cloned().collect();
    s.print();
}
