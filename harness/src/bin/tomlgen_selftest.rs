//! Self-test of the emitter: everything it writes must be read back identically by the toml crate.
use verif_harness::tomlgen::*;
fn main() {
    let mut r = fastrand::Rng::with_seed(7);
    let mut n = 0;
    for i in 0..20000u64 {
        let t = gen_table(&mut r, 3);
        let mut s = String::new();
        emit_table(&["metadata".to_string()], &t, i, &mut s);
        let parsed: toml::Table = s.parse().unwrap_or_else(|e| panic!("emitter wrote invalid TOML: {e}\n{s}"));
        let back = to_tagged(parsed.get("metadata").unwrap_or(&toml::Value::Table(toml::Table::new())));
        if back != t { panic!("emitter round trip differs:\n{s}\n{t}\n{back}"); }
        n += 1;
    }
    println!("ok {n}");
}
