//! Interprets one TestHarness.tla scenario with the real libcnb-test TestRunner.
//! argv: <scenario.json>  (fields: script, cfg). External commands go to the stand-ins on PATH.
use libcnb_test::{BuildConfig, BuildpackReference, ContainerConfig, ContainerContext, PackResult, TestContext, TestRunner};
use serde_json::Value;
use std::cell::Cell;

struct Interp {
    script: Vec<Value>,
    pos: Cell<usize>,
    cfg: Value,
}

impl Interp {
    fn next(&self) -> Option<&Value> {
        let i = self.pos.get();
        self.pos.set(i + 1);
        self.script.get(i)
    }
    fn build_config(&self, o: &Value, first: bool) -> BuildConfig {
        let app_dir = self.cfg["app_dir"].as_str().unwrap_or("fixture app");
        let mut c = BuildConfig::new(self.cfg["builder"].as_str().unwrap_or("heroku/builder:24"), app_dir);
        let bps: Vec<BuildpackReference> = self.cfg["buildpacks"].as_array().map(|a| a.iter().map(|b| {
            if let Some(s) = b.as_str() { BuildpackReference::Other(s.to_string()) }
            else if let Some(id) = b["workspace"].as_str() { BuildpackReference::WorkspaceBuildpack(id.parse().unwrap()) }
            else { BuildpackReference::CurrentCrate }
        }).collect()).unwrap_or_else(|| vec![BuildpackReference::Other("heroku/procfile".into())]);
        c.buildpacks(bps);
        if let Some(t) = self.cfg["target_triple"].as_str() { c.target_triple(t); }
        if self.cfg["release"] == true { c.cargo_profile(libcnb_test::CargoProfile::Release); }
        // (the app dir may also be set after construction)
        if !first { c.app_dir(app_dir); }
        if let Some(env) = self.cfg["build_env"].as_array() {
            // the first pair one by one, the rest in two batches: every way of adding merges
            let pairs: Vec<(String, String)> = env.iter().map(|kv| (kv[0].as_str().unwrap().to_string(), kv[1].as_str().unwrap().to_string())).collect();
            let (single, rest) = pairs.split_at(pairs.len().min(1));
            for (k, v) in single { c.env(k, v); }
            let (b1, b2) = rest.split_at(rest.len() / 2);
            c.envs(b1.to_vec());
            c.envs(b2.to_vec());
        }
        c.expected_pack_result(if o["expected"] == "Success" { PackResult::Success } else { PackResult::Failure });
        if first && o["preproc"] == true {
            c.app_dir_preprocessor(|dir| {
                std::fs::write(dir.join("added-by-preprocessor"), "x").unwrap();
                let _ = std::fs::remove_file(dir.join("Procfile"));
                // (not idempotent: running twice over the same directory shows)
                std::fs::OpenOptions::new().create(true).append(true).open(dir.join("count")).and_then(|mut h| std::io::Write::write_all(&mut h, b"+p")).unwrap();
                // an existing file rewritten in place (same inode), appended to and made private
                use std::io::Write as _;
                use std::os::unix::fs::PermissionsExt as _;
                let f = dir.join("sub/file");
                std::fs::OpenOptions::new().write(true).truncate(true).open(&f).and_then(|mut h| h.write_all(b"rewritten")).unwrap();
                std::fs::OpenOptions::new().append(true).open(&f).and_then(|mut h| h.write_all(b"+appended")).unwrap();
                std::fs::set_permissions(&f, std::fs::Permissions::from_mode(0o600)).unwrap();
                std::fs::set_permissions(dir.join("sub"), std::fs::Permissions::from_mode(0o700)).unwrap();
            });
        }
        c
    }
    fn container_config(&self) -> ContainerConfig {
        let mut c = ContainerConfig::new();
        c.expose_port(8080);
        let k = &self.cfg["container"];
        // (the setters are independent of each other: either order gives the same configuration)
        let command_first = self.cfg["command_first"] == true;
        if command_first { if let Some(cmd) = k["command"].as_array() { c.command(cmd.iter().map(|x| x.as_str().unwrap().to_string()).collect::<Vec<_>>()); } }
        if let Some(e) = k["entrypoint"].as_str() { c.entrypoint(e); }
        if !command_first { if let Some(cmd) = k["command"].as_array() { c.command(cmd.iter().map(|x| x.as_str().unwrap().to_string()).collect::<Vec<_>>()); } }
        if let Some(env) = k["env"].as_array() {
            // the first pair through env(), the others through envs(): both add to what is there
            let pairs: Vec<(String, String)> = env.iter().map(|kv| (kv[0].as_str().unwrap().to_string(), kv[1].as_str().unwrap().to_string())).collect();
            let (single, rest) = pairs.split_at(pairs.len().min(1));
            for (k, v) in single { c.env(k, v); }
            c.envs(rest.to_vec());
        }
        if let Some(ports) = k["ports"].as_array() { for p in ports { c.expose_port(p.as_u64().unwrap() as u16); } }
        if let Some(m) = k["mounts"].as_array() { for st in m { c.bind_mount(st[0].as_str().unwrap(), st[1].as_str().unwrap()); } }
        c
    }
    fn build_body(&self, ctx: TestContext) {
        loop {
            let Some(s) = self.next() else { return };
            match s["step"].as_str().unwrap() {
                "shell" => { let _ = ctx.run_shell_command(self.cfg["shell"].as_str().unwrap_or("echo hi")); }
                "sbom" => ctx.download_sbom_files(|files| {
                    // where the stand-in pack put the launch SBOM of buildpack x/y
                    let p = files.path_for(libcnb_data::buildpack_id!("x/y"), libcnb_test::SbomType::Launch, libcnb_data::sbom::SbomFormat::CycloneDxJson);
                    assert!(p.ends_with("layers/sbom/launch/x_y/sbom.cdx.json"), "HARNESS-OBSERVED: SbomFiles::path_for gave {p:?}");
                }),
                "start_container" => ctx.start_container(self.container_config(), |cc| self.container_body(cc)),
                "rebuild" => {
                    // either a configuration of its own, or the documented idiom: the context's configuration again
                    let config = if self.cfg["rebuild_from_context"] == true {
                        let mut c = ctx.config.clone();
                        c.expected_pack_result(if s["outcome"]["expected"] == "Success" { PackResult::Success } else { PackResult::Failure });
                        c
                    } else {
                        self.build_config(&s["outcome"], false)
                    };
                    ctx.rebuild(config, |ctx2| self.build_body(ctx2));
                    // the context was consumed: only the test's own code can follow
                    loop {
                        let Some(t) = self.next() else { return };
                        match t["step"].as_str().unwrap() {
                            "panic" => panic!("scripted panic"),
                            "return" => return,
                            o => panic!("HARNESS: step {o} without a context"),
                        }
                    }
                }
                "panic" => panic!("scripted panic"),
                "return" => return,
                o => panic!("HARNESS: unknown build step {o}"),
            }
        }
    }
    fn container_body(&self, cc: ContainerContext) {
        loop {
            let Some(s) = self.next() else { return };
            match s["step"].as_str().unwrap() {
                "logs" => { if self.pos.get() % 2 == 0 { let _ = cc.logs_now(); } else { let _ = cc.logs_wait(); } }
                "port" => { let _ = cc.address_for_port(8080); }
                "exec" => { let _ = cc.shell_exec("true"); }
                "panic" => panic!("scripted panic"),
                "return" => return,
                o => panic!("HARNESS: unknown container step {o}"),
            }
        }
    }
}

fn main() {
    let path = std::env::args().nth(1).expect("scenario file");
    let v: Value = serde_json::from_str(&std::fs::read_to_string(path).unwrap()).unwrap();
    let it = Interp { script: v["script"].as_array().unwrap().clone(), pos: Cell::new(0), cfg: v["cfg"].clone() };
    let first = it.next().expect("build step").clone();
    assert_eq!(first["step"], "build");
    TestRunner::default().build(it.build_config(&first["outcome"], true), |ctx| it.build_body(ctx));
}
