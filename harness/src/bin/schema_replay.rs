//! Direction A for Schemas.tla (C08): every (valid instance, single-point mutation) is rendered as
//! TOML by the harness's own emitter and parsed with the public libcnb-data types; verdicts and,
//! on acceptance, the parsed values are compared with the specification.
use libcnb_data::buildpack::{BuildpackDescriptor, ComponentBuildpackDescriptor, CompositeBuildpackDescriptor};
use libcnb_data::buildpack_plan::BuildpackPlan;
use libcnb_data::launch::{Launch, WorkingDirectory};
use libcnb_data::layer_content_metadata::LayerContentMetadata;
use libcnb_data::package_descriptor::PackageDescriptor;
use libcnb_data::store::Store;
use serde_json::{json, Map, Value};
use std::collections::BTreeMap;
use std::path::PathBuf;
use verif_harness::tomlgen::*;
use verif_harness::util::*;

thread_local! { static EMPTY_STRINGS: std::cell::Cell<bool> = const { std::cell::Cell::new(false) }; }
fn concrete(schema: &str, path: &str, kind: &str, free: &Value) -> Value {
    // every third variation: the strings no grammar constrains are empty - present and empty is not absent
    let empty = EMPTY_STRINGS.with(std::cell::Cell::get);
    match (path, kind) {
        ("api", _) => json!({"s": "0.10"}),
        // (ids the grammar admits although they look odd: any of [[:alnum:]./-]+ but the three reserved words)
        (p, _) if (p.ends_with("buildpack.id") || p.ends_with("group[].id")) && empty => json!({"s": if p.contains("group") { "./-" } else { "-dash/first." }}),
        (p, _) if p.ends_with("buildpack.id") || p.ends_with("group[].id") => json!({"s": "verif/schema-bp"}),
        (p, _) if p.ends_with(".version") && !p.contains("distros") => json!({"s": "1.2.3"}),
        ("buildpack.sbom-formats", _) => json!({"a": [{"s": "application/vnd.cyclonedx+json"}, {"s": "application/spdx+json"}]}),
        ("buildpack.uri", _) => json!({"s": "."}),
        // (deliberately not in RFC 3986 normal form: the value must come back as written)
        ("dependencies[].uri", _) => json!({"s": "docker://Registry.Example.COM:5000/a/../b%7ec/./y:1"}),
        ("platform.os", _) => json!({"s": "windows"}),
        ("processes[].type", _) => json!({"s": "web-1.x_y"}),
        (_, "string") if empty => json!({"s": ""}),
        (p, "string") => json!({"s": format!("value of {p} in {schema} \"quoted\"")}),
        (_, "bool") => json!({"b": true}),
        (_, "strings") if empty => json!({"a": [{"s": ""}, {"s": "two"}]}),
        (p, "strings") => json!({"a": [{"s": format!("{p} one")}, {"s": "two"}]}),
        (_, "free") => free.clone(),
        (_, "table") => json!({"t": {}}),
        (_, "tables") => json!({"a": [{"t": {}}]}),
        (p, k) => panic!("no concrete value for {p} {k}"),
    }
}

/// navigates to (and creates) the table a path's parent denotes; "x[]" = first element of array x
fn table_at<'a>(root: &'a mut Value, segs: &[&str]) -> &'a mut Map<String, Value> {
    let mut cur = root;
    for s in segs {
        let (name, arr) = s.strip_suffix("[]").map_or((*s, false), |n| (n, true));
        let t = cur["t"].as_object_mut().expect("table");
        let entry = t.entry(name.to_string()).or_insert_with(|| if arr { json!({"a": [{"t": {}}]}) } else { json!({"t": {}}) });
        cur = if arr { &mut entry["a"][0] } else { entry };
    }
    cur["t"].as_object_mut().expect("table")
}

fn kinds(schema: &str) -> BTreeMap<&'static str, &'static str> {
    // (path, kind) of every field; mirrors Schemas.tla (only used to pick concrete values)
    let common: Vec<(&str, &str)> = vec![("api", "string"), ("buildpack", "table"), ("buildpack.id", "string"), ("buildpack.version", "string"), ("buildpack.name", "string"), ("buildpack.homepage", "string"), ("buildpack.clear-env", "bool"), ("buildpack.description", "string"), ("buildpack.keywords", "strings"), ("buildpack.sbom-formats", "strings"), ("buildpack.licenses[]", "tables"), ("buildpack.licenses[].type", "string"), ("buildpack.licenses[].uri", "string"), ("metadata", "free")];
    let v: Vec<(&str, &str)> = match schema {
        "component" => [common, vec![("targets[]", "tables"), ("targets[].os", "string"), ("targets[].arch", "string"), ("targets[].variant", "string"), ("targets[].distros[]", "tables"), ("targets[].distros[].name", "string"), ("targets[].distros[].version", "string"), ("stacks[]", "tables"), ("stacks[].id", "string"), ("stacks[].mixins", "strings")]].concat(),
        "composite" => [common, vec![("order[]", "tables"), ("order[].group[]", "tables"), ("order[].group[].id", "string"), ("order[].group[].version", "string"), ("order[].group[].optional", "bool")]].concat(),
        "plan" => vec![("entries[]", "tables"), ("entries[].name", "string"), ("entries[].metadata", "free")],
        "layer" => vec![("types", "table"), ("types.launch", "bool"), ("types.build", "bool"), ("types.cache", "bool"), ("metadata", "free")],
        "launch" => vec![("labels[]", "tables"), ("labels[].key", "string"), ("labels[].value", "string"), ("processes[]", "tables"), ("processes[].type", "string"), ("processes[].command", "strings"), ("processes[].args", "strings"), ("processes[].default", "bool"), ("processes[].working-dir", "string"), ("slices[]", "tables"), ("slices[].paths", "strings")],
        "store" => vec![("metadata", "free")],
        "package" => vec![("buildpack", "table"), ("buildpack.uri", "string"), ("dependencies[]", "tables"), ("dependencies[].uri", "string"), ("platform", "table"), ("platform.os", "string")],
        o => panic!("schema {o}"),
    };
    v.into_iter().collect()
}

fn build_doc(schema: &str, paths: &[String], free: &Value) -> Value {
    let ks = kinds(schema);
    let mut root = json!({"t": {}});
    let mut sorted: Vec<&String> = paths.iter().collect();
    sorted.sort_by_key(|p| p.matches('.').count());
    for p in sorted {
        let segs: Vec<&str> = p.split('.').collect();
        let (last, parents) = segs.split_last().unwrap();
        let kind = ks.get(p.as_str()).unwrap_or_else(|| panic!("unknown path {p} in {schema}"));
        let t = table_at(&mut root, parents);
        let name = last.strip_suffix("[]").unwrap_or(last);
        if !t.contains_key(name) {
            t.insert(name.to_string(), concrete(schema, p, kind, free));
        }
    }
    root
}

fn mutate(schema: &str, doc: &mut Value, m: &Value, variant: usize) {
    let p = m["p"].as_str().unwrap();
    let segs: Vec<&str> = if p.is_empty() { vec![] } else { p.split('.').collect() };
    match m["k"].as_str().unwrap() {
        "none" => {}
        "unknown-key" | "unknown-key-in-free" => {
            let t = table_at(doc, &segs);
            t.insert("zz-not-in-the-spec".into(), json!({"s": "x"}));
        }
        "delete" => {
            let (last, parents) = segs.split_last().unwrap();
            table_at(doc, parents).remove(last.strip_suffix("[]").unwrap_or(last));
        }
        "retype" => {
            let (last, parents) = segs.split_last().unwrap();
            let t = table_at(doc, parents);
            let cur = t.get(*last).unwrap().clone();
            // (which wrong kind rotates with the variation index)
            let new = if cur.get("s").is_some() {
                [json!({"i": 42}), json!({"d": "2024-01-01"}), json!({"b": true}), json!({"d": "1979-05-27T07:32:00Z"}), json!({"f": format!("{}", 1.5f64.to_bits())}), json!({"a": [cur.clone()]})][variant % 6].clone()
            } else if cur.get("b").is_some() {
                [json!({"s": "true"}), json!({"i": 1}), json!({"s": "false"}), json!({"i": 0})][variant % 4].clone()
            } else {
                // an array of strings: a single string instead, or one element of another kind among / instead of the strings
                let mut elems = cur["a"].as_array().unwrap().clone();
                match variant % 6 {
                    0 => json!({"s": "a single string instead of an array"}),
                    1 => json!({"a": [{"i": 42}]}),
                    2 => { elems.push(json!({"b": true})); json!({"a": elems}) }
                    3 => { elems.insert(0, json!({"d": "2024-01-01"})); json!({"a": elems}) }
                    4 => { elems.push(json!({"a": []})); json!({"a": elems}) }
                    _ => { elems.push(json!({"t": {}})); json!({"a": elems}) }
                }
            };
            t.insert(last.to_string(), new);
        }
        "retype-as-table" => {
            // `key = "value"` becomes `key = { value = {} }` (for arrays: every element)
            let (last, parents) = segs.split_last().unwrap();
            let t = table_at(doc, parents);
            let cur = t.get(*last).unwrap().clone();
            let wrap = |v: &Value| -> Value { let mut m = serde_json::Map::new(); m.insert(v["s"].as_str().unwrap().to_string(), json!({"t": {}})); json!({"t": m}) };
            let new = if cur.get("s").is_some() { wrap(&cur) } else { json!({"a": cur["a"].as_array().unwrap().iter().map(wrap).collect::<Vec<_>>()}) };
            t.insert(last.to_string(), new);
        }
        "retype-table" => {
            // the table (or every element of the array of tables) becomes an array: of the values it
            // held, or empty
            let (last, parents) = segs.split_last().unwrap();
            let name = last.strip_suffix("[]").unwrap_or(last);
            let t = table_at(doc, parents);
            let cur = t.get(name).unwrap().clone();
            let as_array = |tab: &Value| -> Value {
                if variant % 2 == 0 { json!({"a": tab["t"].as_object().unwrap().values().cloned().collect::<Vec<_>>()}) } else { json!({"a": []}) }
            };
            let new = if cur.get("t").is_some() { as_array(&cur) } else { json!({"a": cur["a"].as_array().unwrap().iter().map(as_array).collect::<Vec<_>>()}) };
            t.insert(name.to_string(), new);
        }
        "add" => {
            let t = doc["t"].as_object_mut().unwrap();
            match p {
                "order" => { t.insert("order".into(), json!({"a": [{"t": {"group": {"a": [{"t": {"id": {"s": "a/b"}, "version": {"s": "1.0.0"}}}]}}}]})); }
                "targets" => { t.insert("targets".into(), json!({"a": [{"t": {"os": {"s": "linux"}}}]})); }
                "stacks" => { t.insert("stacks".into(), json!({"a": [{"t": {"id": {"s": "*"}}}]})); }
                o => panic!("add {o}"),
            }
        }
        o => panic!("mutation {o}"),
    }
    let _ = schema;
}

/// flat projection path -> tagged value of what libcnb parsed (absent optional = not in the map)
fn project_buildpack(b: &libcnb_data::buildpack::Buildpack, m: &mut BTreeMap<String, Value>) {
    m.insert("buildpack.id".into(), json!({"s": b.id.to_string()}));
    m.insert("buildpack.version".into(), json!({"s": b.version.to_string()}));
    if let Some(x) = &b.name { m.insert("buildpack.name".into(), json!({"s": x})); }
    if let Some(x) = &b.homepage { m.insert("buildpack.homepage".into(), json!({"s": x})); }
    if b.clear_env { m.insert("buildpack.clear-env".into(), json!({"b": true})); }
    if let Some(x) = &b.description { m.insert("buildpack.description".into(), json!({"s": x})); }
    if !b.keywords.is_empty() { m.insert("buildpack.keywords".into(), json!({"a": b.keywords.iter().map(|k| json!({"s": k})).collect::<Vec<_>>()})); }
    if !b.sbom_formats.is_empty() { m.insert("buildpack.sbom-formats".into(), json!({"n": b.sbom_formats.len()})); }
    if let Some(l) = b.licenses.first() {
        m.insert("buildpack.licenses[]".into(), json!(b.licenses.len()));
        if let Some(x) = &l.r#type { m.insert("buildpack.licenses[].type".into(), json!({"s": x})); }
        if let Some(x) = &l.uri { m.insert("buildpack.licenses[].uri".into(), json!({"s": x})); }
    }
}

fn expected_flat(schema: &str, paths: &[String], free: &Value) -> BTreeMap<String, Value> {
    let ks = kinds(schema);
    let mut m = BTreeMap::new();
    for p in paths {
        let kind = ks[p.as_str()];
        match kind {
            "table" => {}
            "tables" => { m.insert(p.clone(), json!(1)); }
            "free" => { m.insert(p.clone(), free.clone()); }
            _ if p == "buildpack.sbom-formats" => { m.insert(p.clone(), json!({"n": 2})); }
            _ => { m.insert(p.clone(), concrete(schema, p, kind, free)); }
        }
    }
    m
}

thread_local! { static VIA_FILE: std::cell::Cell<bool> = const { std::cell::Cell::new(false) }; }
/// `toml::from_str`, or (every other variation) the way libcnb itself reads documents: `read_toml_file`
fn parse<T: serde::de::DeserializeOwned>(text: &str) -> Result<T, String> {
    if VIA_FILE.with(std::cell::Cell::get) {
        let f = tempfile::NamedTempFile::new_in("/dev/shm").map_err(|e| format!("HARNESS: {e}"))?;
        std::fs::write(f.path(), text).map_err(|e| format!("HARNESS: {e}"))?;
        libcnb_common::toml_file::read_toml_file::<T>(f.path()).map_err(|e| e.to_string())
    } else {
        toml::from_str::<T>(text).map_err(|e| e.to_string())
    }
}

fn parse_and_project(schema: &str, text: &str) -> Result<BTreeMap<String, Value>, String> {
    let mut m = BTreeMap::new();
    let free = |t: &Option<toml::Table>| t.as_ref().map(table_to_tagged);
    match schema {
        "component" => {
            let d: ComponentBuildpackDescriptor = parse(text)?;
            m.insert("api".into(), json!({"s": d.api.to_string()}));
            project_buildpack(&d.buildpack, &mut m);
            if let Some(t) = d.targets.first() {
                m.insert("targets[]".into(), json!(d.targets.len()));
                if let Some(x) = &t.os { m.insert("targets[].os".into(), json!({"s": x})); }
                if let Some(x) = &t.arch { m.insert("targets[].arch".into(), json!({"s": x})); }
                if let Some(x) = &t.variant { m.insert("targets[].variant".into(), json!({"s": x})); }
                if let Some(x) = t.distros.first() {
                    m.insert("targets[].distros[]".into(), json!(t.distros.len()));
                    m.insert("targets[].distros[].name".into(), json!({"s": x.name}));
                    m.insert("targets[].distros[].version".into(), json!({"s": x.version}));
                }
            }
            if let Some(s) = d.stacks.first() {
                m.insert("stacks[]".into(), json!(d.stacks.len()));
                m.insert("stacks[].id".into(), json!({"s": s.id}));
                if !s.mixins.is_empty() { m.insert("stacks[].mixins".into(), json!({"a": s.mixins.iter().map(|k| json!({"s": k})).collect::<Vec<_>>()})); }
            }
            if let Some(f) = free(&d.metadata) { m.insert("metadata".into(), f); }
        }
        "composite" => {
            let d: CompositeBuildpackDescriptor = parse(text)?;
            m.insert("api".into(), json!({"s": d.api.to_string()}));
            project_buildpack(&d.buildpack, &mut m);
            m.insert("order[]".into(), json!(d.order.len()));
            if let Some(o) = d.order.first() {
                m.insert("order[].group[]".into(), json!(o.group.len()));
                if let Some(g) = o.group.first() {
                    m.insert("order[].group[].id".into(), json!({"s": g.id.to_string()}));
                    m.insert("order[].group[].version".into(), json!({"s": g.version.to_string()}));
                    if g.optional { m.insert("order[].group[].optional".into(), json!({"b": true})); }
                }
            }
            if let Some(f) = free(&d.metadata) { m.insert("metadata".into(), f); }
        }
        "plan" => {
            let d: BuildpackPlan = parse(text)?;
            if let Some(e) = d.entries.first() {
                m.insert("entries[]".into(), json!(d.entries.len()));
                m.insert("entries[].name".into(), json!({"s": e.name}));
                if !e.metadata.is_empty() { m.insert("entries[].metadata".into(), table_to_tagged(&e.metadata)); }
            }
        }
        "layer" => {
            let d: LayerContentMetadata = parse(text)?;
            if let Some(t) = d.types {
                if t.launch { m.insert("types.launch".into(), json!({"b": true})); }
                if t.build { m.insert("types.build".into(), json!({"b": true})); }
                if t.cache { m.insert("types.cache".into(), json!({"b": true})); }
            }
            if let Some(f) = free(&d.metadata) { m.insert("metadata".into(), f); }
        }
        "launch" => {
            let d: Launch = parse(text)?;
            if let Some(l) = d.labels.first() { m.insert("labels[]".into(), json!(d.labels.len())); m.insert("labels[].key".into(), json!({"s": l.key})); m.insert("labels[].value".into(), json!({"s": l.value})); }
            if let Some(p) = d.processes.first() {
                m.insert("processes[]".into(), json!(d.processes.len()));
                m.insert("processes[].type".into(), json!({"s": p.r#type.to_string()}));
                m.insert("processes[].command".into(), json!({"a": p.command.iter().map(|k| json!({"s": k})).collect::<Vec<_>>()}));
                if !p.args.is_empty() { m.insert("processes[].args".into(), json!({"a": p.args.iter().map(|k| json!({"s": k})).collect::<Vec<_>>()})); }
                if p.default { m.insert("processes[].default".into(), json!({"b": true})); }
                if let WorkingDirectory::Directory(dir) = &p.working_directory { m.insert("processes[].working-dir".into(), json!({"s": dir.to_string_lossy()})); }
            }
            if let Some(s) = d.slices.first() { m.insert("slices[]".into(), json!(d.slices.len())); m.insert("slices[].paths".into(), json!({"a": s.path_globs.iter().map(|k| json!({"s": k})).collect::<Vec<_>>()})); }
        }
        "store" => {
            let d: Store = parse(text)?;
            if !d.metadata.is_empty() { m.insert("metadata".into(), table_to_tagged(&d.metadata)); }
        }
        "package" => {
            let d: PackageDescriptor = parse(text)?;
            m.insert("buildpack.uri".into(), json!({"s": d.buildpack.uri.to_string()}));
            if let Some(x) = d.dependencies.first() { m.insert("dependencies[]".into(), json!(d.dependencies.len())); m.insert("dependencies[].uri".into(), json!({"s": x.uri.to_string()})); }
            m.insert("platform.os".into(), json!({"s": format!("{:?}", d.platform.os).to_lowercase()}));
        }
        o => panic!("schema {o}"),
    }
    Ok(m)
}

fn run(v: &Value, idx: usize, variant: usize) -> Vec<String> {
    VIA_FILE.with(|c| c.set((variant + idx) % 2 == 1));
    EMPTY_STRINGS.with(|c| c.set((variant + idx / 2) % 3 == 0));
    let schema = v["schema"].as_str().unwrap();
    let paths: Vec<String> = serde_json::from_value(v["doc"].clone()).unwrap();
    let mut r = fastrand::Rng::with_seed(seed().wrapping_add(idx as u64));
    // a non-empty free-form table with nested content
    let mut free = gen_table(&mut r, 2);
    free["t"].as_object_mut().unwrap().insert("always".into(), json!({"t": {"nested": {"i": 1}}}));
    let mut doc = build_doc(schema, &paths, &free);
    if v["mut"]["k"] == "near-miss-key" {
        // every other plausible spelling of a key this table defines (kebab / snake / camel case, plural /
        // singular, prefixed with a sibling's or the parent's name) is an undefined key
        let table = v["mut"]["p"].as_str().unwrap();
        let ks = kinds(schema);
        let prefix = if table.is_empty() { String::new() } else { format!("{table}.") };
        let children: Vec<(String, &str)> = ks.iter().filter(|(p, _)| p.starts_with(&prefix) && !p[prefix.len()..].contains('.')).map(|(p, k)| (p[prefix.len()..].trim_end_matches("[]").to_string(), *k)).collect();
        let defined: std::collections::BTreeSet<String> = children.iter().map(|(n, _)| n.clone()).collect();
        let parent_name = table.rsplit('.').next().unwrap_or("").trim_end_matches("[]").to_string();
        let mut problems = vec![];
        for (name, kind) in &children {
            let camel: String = { let mut up = false; name.chars().filter_map(|ch| if ch == '-' || ch == '_' { up = true; None } else if up { up = false; Some(ch.to_ascii_uppercase()) } else { Some(ch) }).collect() };
            let mut aliases = vec![name.replace('-', "_"), name.replace('_', "-"), camel, format!("{name}s"), name.trim_end_matches('s').to_string(), name.to_uppercase(), format!("{parent_name}-{name}"), format!("{parent_name}_{name}")];
            for (sib, _) in &children { if sib != name { aliases.push(format!("{sib}-{name}")); aliases.push(format!("{sib}_{name}")); } }
            aliases.sort();
            aliases.dedup();
            for alias in aliases.into_iter().filter(|a| !a.is_empty() && !defined.contains(a)) {
                let mut d2 = doc.clone();
                let segs: Vec<&str> = if table.is_empty() { vec![] } else { table.split('.').collect() };
                let value = match *kind { "bool" => json!({"b": true}), "strings" => json!({"a": [{"s": "x"}]}), "table" | "free" => json!({"t": {}}), "tables" => json!({"a": [{"t": {}}]}), _ => json!({"s": "x"}) };
                table_at(&mut d2, &segs).insert(alias.clone(), value);
                let mut text = String::new();
                emit_table(&[], &d2, r.u64(..), &mut text);
                if parse_and_project(schema, &text).is_ok() {
                    problems.push(format!("{schema}: the undefined key {alias:?} (another spelling of {name:?}) is accepted in table {table:?}\n--- document ---\n{text}"));
                }
            }
        }
        return problems;
    }
    mutate(schema, &mut doc, &v["mut"], variant);
    let mut text = String::new();
    emit_table(&[], &doc, r.u64(..), &mut text);
    let verdict = v["verdict"].as_str().unwrap();
    let mut p = vec![];
    let parsed = parse_and_project(schema, &text);
    match (verdict, &parsed) {
        ("accept", Err(e)) => p.push(format!("{schema}: a document that conforms to the spec is rejected ({}): {e}", v["mut"])),
        ("reject", Ok(_)) => p.push(format!("{schema}: mutation {} must make parsing fail but the document is accepted", v["mut"])),
        _ => {}
    }
    if let (true, Ok(got)) = (verdict == "accept", &parsed) {
        let mut want = expected_flat(schema, &paths, &free);
        if v["mut"]["k"] == "unknown-key-in-free" {
            let key = v["mut"]["p"].as_str().unwrap().to_string();
            want.get_mut(&key).unwrap()["t"].as_object_mut().unwrap().insert("zz-not-in-the-spec".into(), json!({"s": "x"}));
        }
        if schema == "package" && !want.contains_key("platform.os") { want.insert("platform.os".into(), json!({"s": "linux"})); }
        if *got != want {
            let diff: Vec<String> = want.iter().filter(|(k, w)| got.get(*k) != Some(w)).map(|(k, w)| format!("{k}: document has {w}, parsed value is {:?}", got.get(k))).chain(got.iter().filter(|(k, _)| !want.contains_key(*k)).map(|(k, g)| format!("{k}: not in the document, parsed as {g}"))).collect();
            p.push(format!("{schema}: parsed values differ from the document: {}", diff.join("; ")));
        }
    }
    // component / composite classification through the untagged enum
    let class = v["class"].as_str().unwrap();
    if class != "-" {
        let c = parse::<BuildpackDescriptor>(&text);
        let got = match &c { Ok(BuildpackDescriptor::Component(_)) => "component", Ok(BuildpackDescriptor::Composite(_)) => "composite", Err(_) => "reject" };
        if got != class {
            p.push(format!("{schema}: as a buildpack descriptor the document ({}) is classified {got}, the specification says {class}", v["mut"]));
        }
    }
    p.into_iter().map(|x| format!("{x}\n--- document ---\n{text}")).collect()
}

fn main() {
    let args: Vec<String> = std::env::args().collect();
    let raw = read_tlc_tagged(&PathBuf::from(&args[1]), "SD");
    let reps: usize = std::env::var("VERIF_VARIATIONS").ok().and_then(|s| s.parse().ok()).unwrap_or(2);
    let jobs: Vec<(usize, usize)> = (0..raw.len()).flat_map(|i| (0..reps).map(move |k| (i, k))).collect();
    let results = par_map(&jobs, threads(), |_, (i, k)| std::panic::catch_unwind(|| run(&raw[*i], i * 31 + k * 7919, *k)).unwrap_or_else(|e| vec![format!("PANIC in harness or library: {:?}", e.downcast_ref::<String>())]));
    let mut s = Summary::default();
    s.evaluations = jobs.len();
    s.distinct_nontrivial = raw.iter().filter(|v| v["mut"]["k"] != "none").count();
    let mut verdicts: BTreeMap<String, usize> = BTreeMap::new();
    for v in &raw { *verdicts.entry(format!("{}:{}", v["schema"].as_str().unwrap(), v["verdict"].as_str().unwrap())).or_default() += 1; }
    for ((i, _), probs) in jobs.iter().zip(results) {
        for p in probs {
            let v = &raw[*i];
            let signature = if v["mut"]["k"] == "retype-table" && p.contains("must make parsing fail") {
                format!("{}: an array is accepted where the table {} must be", v["schema"].as_str().unwrap(), v["mut"]["p"].as_str().unwrap())
            } else if v["mut"]["k"] == "retype-as-table" && p.contains("must make parsing fail") {
                format!("{}: a one-key table is accepted where the string {} must be", v["schema"].as_str().unwrap(), v["mut"]["p"].as_str().unwrap())
            } else if v["mut"]["k"] == "near-miss-key" {
                format!("{}: undefined key accepted: {}", v["schema"].as_str().unwrap(), p.split('"').nth(1).unwrap_or("?"))
            } else {
                format!("{} {} {}: {}", v["schema"].as_str().unwrap(), v["mut"]["k"].as_str().unwrap(), v["mut"]["p"].as_str().unwrap(), p.split(':').nth(1).unwrap_or("").split('(').next().unwrap_or("").trim().chars().take(60).collect::<String>())
            };
            s.mismatches.push(Mismatch { signature, detail: p, case: v.clone() });
        }
    }
    s.extra.insert("verdicts".into(), json!(verdicts));
    s.samples = raw.iter().step_by((raw.len() / 4).max(1)).take(4).cloned().collect();
    s.print();
}
