//! Direction B through the real executable: multi-build histories where every build is a run of
//! the scripted buildpack (real `libcnb_runtime` -> `build`) doing random layer work, with the
//! harness playing the lifecycle (cache restore) between builds. Events are written for
//! LayersTrace.tla; the store written by build k must be the store handed to build k+1.
use serde_json::{json, Value};
use std::io::Write;
use std::path::PathBuf;
use std::process::Command;
use verif_harness::layers::*;
use verif_harness::layers_gen::*;
use verif_harness::util::*;

fn main() {
    let args: Vec<String> = std::env::args().collect();
    let out = PathBuf::from(&args[1]);
    let histories: usize = args[2].parse().unwrap();
    let builds: usize = args[3].parse().unwrap();
    let steps: usize = args[4].parse().unwrap();
    let scratch = PathBuf::from(std::env::var("VERIF_SCRATCH").unwrap_or_else(|_| "/dev/shm/verif-scratch".into()));
    std::fs::create_dir_all(&scratch).unwrap();
    let bin = std::env::current_exe().unwrap().parent().unwrap().to_path_buf();
    let mut r = fastrand::Rng::with_seed(seed());
    let mut f = std::io::BufWriter::new(std::fs::File::create(&out).unwrap());
    let mut s = Summary::default();
    let names: Vec<String> = NAMES.iter().map(|n| n.to_string()).collect();
    for h in 0..histories {
        let tmp = tempfile::tempdir_in(&scratch).unwrap();
        let t = tmp.path().canonicalize().unwrap();
        for d in ["bp/bin", "app", "layers", "platform/env", "vout"] { std::fs::create_dir_all(t.join(d)).unwrap(); }
        std::fs::write(t.join("bp/buildpack.toml"), "api = \"0.10\"\n[buildpack]\nid = \"verif/vbp\"\nversion = \"1.0.0\"\n[[targets]]\nos = \"linux\"\narch = \"amd64\"\n").unwrap();
        std::os::unix::fs::symlink(bin.join("vbp"), t.join("bp/bin/build")).unwrap();
        std::fs::write(t.join("plan.toml"), "").unwrap();
        let g = Gen::new(&t.join("exec-src"));
        let layers = t.join("layers");
        let (l, rf) = g.snapshot(&layers, &Default::default());
        writeln!(f, "{}", json!({"obs": env_obs("reset", "-"), "L": l, "refs": rf, "history": h})).unwrap();
        let mut expected_store: Option<i64> = None;
        for b in 0..builds {
            let _ = std::fs::remove_file(t.join("vout/events.ndjson"));
            std::fs::write(t.join("script.json"), json!({"berror": "none", "launch": "yes", "storeout": "yes", "store_counter": b, "bsbom": ["cdx.json"], "lsbom": [],
                "layer_steps": steps, "layer_seed": r.u64(..), "exec_src": t.join("exec-src")}).to_string()).unwrap();
            let o = Command::new(t.join("bp/bin/build")).arg(&layers).arg(t.join("platform")).arg(t.join("plan.toml")).current_dir(t.join("app")).env_clear().envs(std::env::var_os("LLVM_PROFILE_FILE").map(|v| ("LLVM_PROFILE_FILE", v)))
                .env("VBP_SCRIPT", t.join("script.json")).env("VBP_OUT", t.join("vout")).env("CNB_BUILDPACK_DIR", t.join("bp"))
                .env("CNB_TARGET_OS", "linux").env("CNB_TARGET_ARCH", "amd64").env("CNB_TARGET_DISTRO_NAME", "ubuntu").env("CNB_TARGET_DISTRO_VERSION", "24.04")
                .output().expect("vbp");
            s.evaluations += 1;
            if o.status.code() != Some(0) {
                s.mismatches.push(Mismatch { signature: "build phase failed during a layer history".into(), detail: format!("history {h} build {b}: exit {:?}: {}", o.status.code(), String::from_utf8_lossy(&o.stderr).chars().take(400).collect::<String>()), case: json!({"history": h, "build": b}) });
                break;
            }
            // the store the previous build wrote is the store this build was handed
            let ctx: Value = serde_json::from_str(&std::fs::read_to_string(t.join("vout/ctx.json")).unwrap_or_default()).unwrap_or(Value::Null);
            let got = ctx["store"]["t"]["build-number"]["i"].as_i64();
            if got != expected_store {
                s.mismatches.push(Mismatch { signature: "C06:store not handed to the next build".into(), detail: format!("history {h} build {b}: context.store build-number {got:?}, the previous build wrote {expected_store:?}"), case: json!({"history": h, "build": b}) });
            }
            expected_store = Some(b as i64);
            for line in std::fs::read_to_string(t.join("vout/events.ndjson")).unwrap_or_default().lines() {
                let mut e: Value = serde_json::from_str(line).unwrap();
                e["history"] = json!(h);
                writeln!(f, "{e}").unwrap();
                s.distinct_nontrivial += 1;
            }
            // the platform between two builds
            lifecycle_restore(&g.u, &layers, &names);
            let (l, rf) = g.snapshot(&layers, &Default::default());
            writeln!(f, "{}", json!({"obs": env_obs("restore", "-"), "L": l, "refs": rf, "history": h})).unwrap();
        }
    }
    f.flush().unwrap();
    s.extra.insert("histories".into(), json!(histories));
    s.extra.insert("builds_per_history".into(), json!(builds));
    s.print();
}
