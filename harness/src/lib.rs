//! Conformance harness binding the TLA+ specifications in /verif/spec to heroku/libcnb.rs.
#![allow(deprecated)]
#![allow(clippy::all)]

pub mod envmod;
pub mod fsnap;
pub mod layers;
pub mod layers_gen;
pub mod tomlgen;
pub mod util;
