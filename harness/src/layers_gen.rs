//! Random library actions on a <layers> directory in the vocabulary of Layers.tla, shared by
//! drivers that run inside another process (the scripted buildpack `vbp` executes them from its
//! real `build` phase). One call of `Gen::step` = one public libcnb call, logged as an AObs.
use crate::layers::*;
use libcnb::build::BuildContext;
use serde_json::{json, Value};
use std::collections::{BTreeMap, BTreeSet};
use std::path::Path;

pub fn sbom3(r: &mut fastrand::Rng, toks: &[&str], p_none: f64) -> BTreeMap<String, String> {
    FORMATS.iter().map(|(f, _)| (f.to_string(), if r.f64() < p_none { "none".to_string() } else { toks[r.usize(..toks.len())].to_string() })).collect()
}
pub fn no_sbom3() -> BTreeMap<String, String> {
    FORMATS.iter().map(|(f, _)| (f.to_string(), "none".to_string())).collect()
}
pub fn no_shape() -> AShape {
    AShape { env: "none".into(), execd: BTreeSet::new(), sbom: no_sbom3(), files: BTreeSet::new() }
}
pub fn no_res() -> ARes {
    ARes { k: "unused".into(), md: no_md(), shape: no_shape() }
}
pub fn no_arg() -> AArg {
    AArg { md: no_md(), env: "none".into(), execd: BTreeSet::new(), sbom: no_sbom3(), file: "-".into() }
}
pub fn env_obs(act: &str, n: &str) -> AObs {
    AObs { act: act.into(), n: n.into(), ty: no_ty(), t: "G".into(), ima: no_dec(), rla: no_dec(), strat: no_dec(), mig: no_dec(), cres: no_res(), ures: no_res(), arg: no_arg(), ret: ret_unit(), calls: vec![] }
}
fn subset(r: &mut fastrand::Rng, toks: &[&str]) -> BTreeSet<String> {
    toks.iter().filter(|_| r.bool()).map(|s| s.to_string()).collect()
}
fn pick<'a>(r: &mut fastrand::Rng, xs: &[&'a str]) -> &'a str {
    xs[r.usize(..xs.len())]
}

pub const NAMES: [&str; 4] = ["x", "xx", "x y", "x.y"];

pub struct Gen {
    pub u: Universe,
}

impl Gen {
    pub fn new(exec_src: &Path) -> Self {
        let u = Universe::standard(exec_src);
        u.write_exec_sources();
        Gen { u }
    }

    pub fn snapshot(&self, layers_dir: &Path, refs: &BTreeMap<String, AnyRef>) -> (Value, Value) {
        let l: BTreeMap<String, ALayer> = NAMES.iter().map(|n| (n.to_string(), project(&self.u, layers_dir, n))).collect();
        (json!(l), json!(refs.keys().collect::<Vec<_>>()))
    }

    /// one random request or writer call; None when a writer was drawn but no LayerRef exists yet
    pub fn step(&self, r: &mut fastrand::Rng, ctx: &BuildContext<TB>, refs: &mut BTreeMap<String, AnyRef>) -> Option<AObs> {
        let u = &self.u;
        let (sboms, files, execs, mdv, causes) = (["s1", "s2", "s3"], ["f1", "f2", "f3"], ["p1", "p2", "p3"], ["1", "2", "3"], ["c1", "c2"]);
        let env_toks = ["e1", "e2", "e3"];
        let md_of = |r: &mut fastrand::Rng, t: &str| -> AMd {
            let kind = match t { "G" => pick(r, &["none", "A", "B", "X", "AX"]), "L" => "A", k => k };
            if kind == "none" { no_md() } else { AMd { kind: kind.into(), v: pick(r, &mdv).into() } }
        };
        if r.u32(..100) < 55 {
            let n = pick(r, &NAMES).to_string();
            let mut o = env_obs("?", &n);
            let t = pick(r, &["A", "B", "G", "L"]).to_string();
            o.t = t.clone();
            let dec = |r: &mut fastrand::Rng, ks: &[&str], with_md: bool| -> ADec {
                let k = pick(r, ks);
                ADec { k: k.into(), c: if k == "Err" { "-".into() } else { pick(r, &causes).into() }, md: if with_md && k == "Replace" && t != "G" { AMd { kind: if t == "L" { "A".into() } else { t.clone() }, v: pick(r, &mdv).into() } } else { no_md() } }
            };
            let res = |r: &mut fastrand::Rng| -> ARes {
                if r.u32(..8) == 0 { return ARes { k: "Err".into(), md: no_md(), shape: no_shape() }; }
                ARes { k: "Ok".into(), md: md_of(r, &t), shape: AShape { env: if r.bool() { "none".into() } else { pick(r, &env_toks).into() }, execd: subset(r, &execs), sbom: sbom3(r, &sboms, 0.5), files: subset(r, &files) } }
            };
            let kind = pick(r, &["cached_layer", "cached_layer", "uncached_layer", "handle_layer", "handle_layer"]);
            o.act = kind.into();
            o.ty = ATy { set: true, build: r.bool(), launch: r.bool(), cache: match kind { "cached_layer" => true, "uncached_layer" => false, _ => r.bool() } };
            match kind {
                "cached_layer" => {
                    o.ima = if t == "G" { ADec { k: "Delete".into(), c: "c1".into(), md: no_md() } } else { dec(r, &["Delete", "Replace", "Replace", "Err"], true) };
                    o.rla = dec(r, &["Keep", "Keep", "Delete", "Err"], false);
                }
                "uncached_layer" => o.t = "G".into(),
                _ => {
                    o.strat = ADec { c: "-".into(), ..dec(r, &["Keep", "Keep", "Update", "Update", "Recreate", "Err", "Default"], false) };
                    o.mig = if t == "G" { ADec { k: "Recreate".into(), c: "-".into(), md: no_md() } } else { ADec { c: "-".into(), ..dec(r, &["Recreate", "Replace", "Replace", "Err", "Default"], true) } };
                    o.cres = res(r);
                    o.ures = if r.u32(..5) == 0 { ARes { k: "Default".into(), md: no_md(), shape: no_shape() } } else { res(r) };
                }
            }
            let (ret, calls, newref) = execute(u, ctx, &o, None);
            if let Some(nr) = newref { refs.insert(n.clone(), nr); }
            let consulted = |cb: &str| calls.iter().any(|c| c.cb == cb);
            if kind == "uncached_layer" {
                if ret.cause == "RestoredLayerAction" { o.rla = ADec { k: "Delete".into(), c: "unit".into(), md: no_md() }; }
                if ret.cause == "InvalidMetadataAction" { o.ima = ADec { k: "Delete".into(), c: "unit".into(), md: no_md() }; }
            } else {
                if !consulted("ima") { o.ima = no_dec(); }
                if !consulted("rla") { o.rla = no_dec(); }
            }
            if !consulted("strategy") { o.strat = no_dec(); }
            if !consulted("migrate") { o.mig = no_dec(); }
            if !consulted("create") { o.cres = no_res(); }
            if !consulted("update") { o.ures = no_res(); }
            o.ret = ret;
            o.calls = calls;
            Some(o)
        } else {
            if refs.is_empty() { return None; }
            let keys: Vec<String> = refs.keys().cloned().collect();
            let n = keys[r.usize(..keys.len())].clone();
            let mut o = env_obs("?", &n);
            let kind = pick(r, &["write_metadata", "write_env", "write_env", "read_env", "write_sboms", "write_exec_d", "write_file"]);
            o.act = kind.into();
            match kind {
                "write_metadata" => o.arg.md = md_of(r, "G"),
                "write_env" => o.arg.env = if r.u32(..5) == 0 { "none".into() } else { pick(r, &env_toks).into() },
                "write_sboms" => o.arg.sbom = sbom3(r, &sboms, 0.4),
                // (now and then one of the programs does not exist: the call fails and changes nothing)
                "write_exec_d" => { o.arg.execd = subset(r, &execs); if r.u32(..4) == 0 { o.arg.execd.insert(if r.bool() { "gone" } else { "dangling" }.into()); } }
                "write_file" => o.arg.file = pick(r, &files).into(),
                _ => {}
            }
            let (ret, calls, _) = execute(u, ctx, &o, refs.get(&n));
            o.ret = ret;
            o.calls = calls;
            Some(o)
        }
    }
}
