//! Binding of spec/LayerEnv.tla to libcnb::layer_env (C03, C04, C10).
use crate::fsnap;
use libcnb::layer_env::{LayerEnv, Scope};
use libcnb::Env;
use serde::{Deserialize, Serialize};
use serde_json::Value;
use std::collections::BTreeMap;
use std::ffi::OsString;
use std::fs;
use std::os::unix::ffi::{OsStrExt, OsStringExt};
use std::path::{Path, PathBuf};

#[derive(Serialize, Deserialize, Clone, Debug, PartialEq, Eq, PartialOrd, Ord)]
pub struct SEntry {
    pub scope: String,
    pub beh: String,
    pub name: String,
    pub v: Vec<String>,
}
#[derive(Serialize, Deserialize, Clone, Debug, PartialEq, Eq)]
pub struct SVal {
    pub set: bool,
    pub v: Vec<String>,
}
pub type SEnv = BTreeMap<String, SVal>;

/// How tokens of the specification become bytes in one execution of a vector.
#[derive(Clone, Debug)]
pub struct Mapping {
    pub id: usize,
    pub names: BTreeMap<String, Vec<u8>>,
    pub suffix: Vec<u8>,
    pub layer_dir: Option<PathBuf>,
}

pub const NAME_VARIANTS: [[&[u8]; 2]; 4] = [[b"FOO", b"BAR"], [b"A.B", b".hid"], [b"X.append", b"N\xffU"], [b"with space", b"=eq"]];

impl Mapping {
    pub fn variant(id: usize) -> Self {
        let v = NAME_VARIANTS[id % NAME_VARIANTS.len()];
        let mut names = BTreeMap::new();
        names.insert("N1".to_string(), v[0].to_vec());
        names.insert("N2".to_string(), v[1].to_vec());
        Mapping { id, names, suffix: if id % 2 == 1 { vec![0xff, b'\n'] } else { vec![] }, layer_dir: None }
    }
    pub fn name(&self, n: &str) -> Vec<u8> {
        self.names.get(n).cloned().unwrap_or_else(|| n.as_bytes().to_vec())
    }
    pub fn value(&self, toks: &[String]) -> Vec<u8> {
        let mut out = Vec::new();
        let mut i = 0;
        while i < toks.len() {
            if toks[i] == "@" {
                // <<"@", d>> = "<layer dir>/<d>"
                let p = self.layer_dir.as_ref().expect("layer dir").join(&toks[i + 1]);
                out.extend_from_slice(p.as_os_str().as_bytes());
                i += 2;
            } else {
                out.extend_from_slice(toks[i].as_bytes());
                out.extend_from_slice(&self.suffix);
                i += 1;
            }
        }
        out
    }
    pub fn env(&self, e: &SEnv) -> Env {
        let mut env = Env::new();
        for (n, v) in e {
            if v.set {
                env.insert(OsString::from_vec(self.name(n)), OsString::from_vec(self.value(&v.v)));
            }
        }
        env
    }
    pub fn entries(&self, e: &[SEntry]) -> Vec<crate::layers::EnvEntry> {
        e.iter().map(|x| crate::layers::ee(&x.scope, &x.beh, &self.name(&x.name), &self.value(&x.v))).collect()
    }
}

pub fn scope_of(q: &str) -> Scope {
    crate::layers::scope_of(q)
}

/// Compares `got` with the expected abstract environment over the names the spec knows.
pub fn compare_env(m: &Mapping, got: &Env, want: &SEnv, what: &str) -> Result<(), String> {
    for (n, v) in want {
        let g = got.get(OsString::from_vec(m.name(n))).map(|o| o.as_bytes().to_vec());
        let w = if v.set { Some(m.value(&v.v)) } else { None };
        if g != w {
            return Err(format!(
                "{what}: variable {n} is {} but the specification says {}",
                g.map_or("unset".to_string(), |b| format!("{:?}", String::from_utf8_lossy(&b))),
                w.map_or("unset".to_string(), |b| format!("{:?}", String::from_utf8_lossy(&b)))
            ));
        }
    }
    let known: Vec<Vec<u8>> = want.keys().map(|n| m.name(n)).collect();
    for (k, _) in got {
        if !known.contains(&k.as_bytes().to_vec()) {
            return Err(format!("{what}: unexpected variable {k:?} in the result"));
        }
    }
    Ok(())
}

pub fn build_layer_env(m: &Mapping, entries: &[SEntry], order_seed: u64, chain: bool) -> LayerEnv {
    let mut es = m.entries(entries);
    let mut r = fastrand::Rng::with_seed(order_seed);
    r.shuffle(&mut es);
    if chain {
        let mut e = LayerEnv::new();
        for x in es.iter().rev() {
            e = e.chainable_insert(
                crate::layers::scope_of(&x.scope),
                crate::layers::beh_of(&x.beh),
                OsString::from_vec(x.name.clone()),
                OsString::from_vec(x.value.clone()),
            );
        }
        e
    } else {
        crate::layers::layer_env_of(&es)
    }
}

// ------------------------------------------------------------------------------------------
// C04

#[derive(Deserialize, Serialize, Clone, Debug)]
pub struct V4 {
    #[serde(rename = "E")]
    pub e: Vec<SEntry>,
    pub env0: SEnv,
    pub results: BTreeMap<String, SEnv>,
}

pub fn run_v4(v: &V4, seed: u64) -> Result<(), String> {
    for id in 0..NAME_VARIANTS.len() {
        let m = Mapping::variant(id);
        for chain in [false, true] {
            let le = build_layer_env(&m, &v.e, seed.wrapping_add(id as u64), chain);
            let env0 = m.env(&v.env0);
            let before = env0.clone();
            for (q, want) in &v.results {
                let got = le.apply(scope_of(q), &env0);
                compare_env(&m, &got, want, &format!("apply({q}) [names {id}, chain={chain}]"))?;
                if env0 != before {
                    return Err("apply modified its input environment".into());
                }
                if v.env0.values().all(|x| !x.set) {
                    let got2 = le.apply_to_empty(scope_of(q));
                    compare_env(&m, &got2, want, &format!("apply_to_empty({q})"))?;
                }
            }
        }
    }
    Ok(())
}

// ------------------------------------------------------------------------------------------
// C10

#[derive(Deserialize, Serialize, Clone, Debug)]
pub struct V10 {
    pub kinds: BTreeMap<String, String>,
    pub explicit: String,
    #[serde(rename = "E")]
    pub e: Vec<SEntry>,
    pub env0: SEnv,
    pub results: BTreeMap<String, SEnv>,
}

pub fn make_node(layer: &Path, outside: &Path, d: &str, kind: &str) {
    let p = layer.join(d);
    match kind {
        "absent" => {}
        "dir" => fs::create_dir_all(&p).unwrap(),
        "file" => fs::write(&p, b"not a directory").unwrap(),
        "linkdir" => {
            let t = outside.join(format!("{d}-target-dir"));
            fs::create_dir_all(&t).unwrap();
            std::os::unix::fs::symlink(&t, &p).unwrap();
        }
        "linkfile" => {
            let t = outside.join(format!("{d}-target-file"));
            fs::write(&t, b"x").unwrap();
            std::os::unix::fs::symlink(&t, &p).unwrap();
        }
        "dangling" => std::os::unix::fs::symlink(outside.join("nowhere"), &p).unwrap(),
        o => panic!("kind {o}"),
    }
}

pub fn run_v10(v: &V10, scratch: &Path) -> Result<(), String> {
    let tmp = tempfile::tempdir_in(scratch).unwrap();
    let layer = tmp.path().join("layers").join("the layer");
    let outside = tmp.path().join("outside");
    fs::create_dir_all(&layer).unwrap();
    fs::create_dir_all(&outside).unwrap();
    for (d, k) in &v.kinds {
        make_node(&layer, &outside, d, k);
    }
    let mut m = Mapping::variant(0);
    m.layer_dir = Some(layer.clone());
    crate::layers::write_env_entries(&layer, &m.entries(&v.e));
    let le = LayerEnv::read_from_layer_dir(&layer).map_err(|e| format!("read_from_layer_dir failed: {e}"))?;
    let env0 = m.env(&v.env0);
    for (q, want) in &v.results {
        let got = le.apply(scope_of(q), &env0);
        compare_env(&m, &got, want, &format!("apply({q}) after read_from_layer_dir"))?;
    }
    // never persisted: read -> write cycles leave the layer unchanged
    let before = fsnap::snapshot(tmp.path());
    let mut cur = le;
    for i in 0..3 {
        cur.write_to_layer_dir(&layer).map_err(|e| format!("write_to_layer_dir failed: {e}"))?;
        let after = fsnap::snapshot(tmp.path());
        let d = fsnap::diff(&before, &after);
        if !d.is_empty() {
            return Err(format!("read->write cycle {} changed the layer: {:?}", i + 1, d));
        }
        cur = LayerEnv::read_from_layer_dir(&layer).map_err(|e| format!("re-read failed: {e}"))?;
        for (q, want) in &v.results {
            let got = cur.apply(scope_of(q), &env0);
            compare_env(&m, &got, want, &format!("apply({q}) after cycle {}", i + 1))?;
        }
    }
    Ok(())
}

// ------------------------------------------------------------------------------------------
// C03

#[derive(Deserialize, Serialize, Clone, Debug, PartialEq, Eq, PartialOrd, Ord)]
pub struct SFile {
    pub dir: String,
    pub stem: String,
    pub ext: String,
    pub v: Vec<String>,
    pub sub: bool,
}
#[derive(Deserialize, Serialize, Clone, Debug)]
pub struct Probe {
    pub env0: SEnv,
    pub result: SEnv,
}
#[derive(Deserialize, Serialize, Clone, Debug)]
pub struct TW {
    pub kind: String,
    pub arg: Value,
    pub pre: Vec<SFile>,
    pub predirs: Vec<String>,
    pub post: Vec<SFile>,
    pub postdirs: Vec<String>,
    pub readback: BTreeMap<String, Vec<Probe>>,
}

fn file_path(m: &Mapping, layer: &Path, f: &SFile) -> PathBuf {
    let mut name = m.name(&f.stem);
    if !f.ext.is_empty() {
        name.push(b'.');
        if f.ext == "bogus" {
            // the model's "unknown suffix": not UTF-8 / an ordinary word / a known suffix in the wrong case
            name.extend_from_slice([&b"\xff\xfe"[..], &b"bogus"[..], &b"OVERRIDE"[..]][m.id % 3]);
        } else {
            name.extend_from_slice(f.ext.as_bytes());
        }
    }
    let mut d = layer.join(&f.dir);
    if f.sub {
        d = d.join("sub");
    }
    d.join(OsString::from_vec(name))
}

pub fn put_file(m: &Mapping, layer: &Path, f: &SFile) {
    let p = file_path(m, layer, f);
    fs::create_dir_all(p.parent().unwrap()).unwrap();
    fs::write(p, m.value(&f.v)).unwrap();
}

/// Lists the env files below the layer: relative path -> bytes (every file below env, env.build,
/// env.launch at any depth).
pub fn list_env_files(layer: &Path) -> BTreeMap<String, Vec<u8>> {
    let snap = fsnap::snapshot(layer);
    let mut m = BTreeMap::new();
    for (k, n) in snap {
        let top = k.split('/').next().unwrap_or("");
        if ["env", "env.build", "env.launch"].contains(&top) {
            match n {
                fsnap::Node::File { hex, .. } => {
                    m.insert(k, hex.into_bytes());
                }
                fsnap::Node::Dir { .. } => {}
                other => {
                    m.insert(k, format!("{other:?}").into_bytes());
                }
            }
        }
    }
    m
}

pub fn run_tw(v: &TW, scratch: &Path, seed: u64) -> Result<(), String> {
    let suffixless = v.pre.iter().chain(v.post.iter()).any(|f| f.ext.is_empty());
    // names with dots only where the reading of a suffix-less file is not at stake (DESIGN C03)
    let variants: Vec<usize> = if suffixless { vec![0] } else { vec![0, 1, 2] };
    for id in variants {
        let m = Mapping::variant(id);
        let tmp = tempfile::tempdir_in(scratch).unwrap();
        let layer = tmp.path().join("layer");
        fs::create_dir_all(&layer).unwrap();
        // things that are not env files and must survive untouched
        fs::create_dir_all(layer.join("bin")).unwrap();
        fs::write(layer.join("bin/tool"), b"#!/bin/sh\n").unwrap();
        fs::write(layer.join("env.txt"), b"not an env dir").unwrap();
        fs::create_dir_all(layer.join("envx")).unwrap();
        fs::write(layer.join("envx/FOO.override"), b"not an env dir either").unwrap();
        fs::create_dir_all(layer.join("exec.d")).unwrap();
        fs::write(layer.join("exec.d/prog"), b"x").unwrap();
        // (directories whose name merely starts like an env directory's)
        for d in ["env.d", "env.production", "env.launch.bak", "env.build-cache"] {
            fs::create_dir_all(layer.join(d)).unwrap();
            fs::write(layer.join(d).join("PATH.append"), b"part of the layer, not of its environment").unwrap();
        }
        fs::write(tmp.path().join("layer.toml"), b"[types]\nlaunch = true\n").unwrap();
        for d in &v.predirs {
            fs::create_dir_all(layer.join(d)).unwrap();
        }
        for f in &v.pre {
            put_file(&m, &layer, f);
        }
        let others = |root: &Path| -> fsnap::Snap {
            fsnap::snapshot(root).into_iter().filter(|(k, _)| !(k == "layer/env" || k.starts_with("layer/env/") || k == "layer/env.build" || k.starts_with("layer/env.build/") || k == "layer/env.launch" || k.starts_with("layer/env.launch/") || k == "layer")).collect()
        };
        let before_others = others(tmp.path());
        match v.kind.as_str() {
            "write" => {
                let e: Vec<SEntry> = serde_json::from_value(v.arg.clone()).map_err(|e| e.to_string())?;
                let le = build_layer_env(&m, &e, seed, id % 2 == 1);
                le.write_to_layer_dir(&layer).map_err(|e| format!("write_to_layer_dir failed: {e}"))?;
            }
            "foreign" => {
                let f: SFile = serde_json::from_value(v.arg.clone()).map_err(|e| e.to_string())?;
                put_file(&m, &layer, &f);
            }
            o => panic!("kind {o}"),
        }
        // exact layout
        let got = list_env_files(&layer);
        let mut want = BTreeMap::new();
        for f in &v.post {
            let p = file_path(&m, &layer, f);
            let key = fsnap::lossy(p.strip_prefix(&layer).unwrap());
            want.insert(key, crate::util::hex(&m.value(&f.v)).into_bytes());
        }
        if got != want {
            let g: Vec<_> = got.keys().collect();
            let w: Vec<_> = want.keys().collect();
            return Err(format!("env files after {} [names {id}]: on disk {g:?}, prescribed {w:?} (or contents differ)", v.kind));
        }
        let d = fsnap::diff(&before_others, &others(tmp.path()));
        if !d.is_empty() {
            return Err(format!("{} touched something that is not an env file: {d:?}", v.kind));
        }
        // read back
        let le = LayerEnv::read_from_layer_dir(&layer).map_err(|e| format!("read_from_layer_dir failed: {e}"))?;
        for (q, probes) in &v.readback {
            for p in probes {
                // the layer has a bin directory: PATH is an implicit entry outside this model
                let mut got = le.apply(scope_of(q), &m.env(&p.env0));
                let _ = &mut got;
                let got_filtered: Env = {
                    let mut e = Env::new();
                    for (k, val) in &got {
                        if k != "PATH" {
                            e.insert(k.clone(), val.clone());
                        }
                    }
                    e
                };
                compare_env(&m, &got_filtered, &p.result, &format!("apply({q}) of the env read back after {} [names {id}]", v.kind))?;
            }
        }
    }
    Ok(())
}
