//! Binding of spec/Layers.tla to the real layer APIs of libcnb.
//!
//! * abstract state (`ALayer`) <-> directory contents: `materialize` / `project`
//! * one spec action = one public call: `execute`
//! * the environment actions (`restore`, ...) are performed by the harness itself
use crate::fsnap;
use libcnb::build::{BuildContext, BuildResult};
use libcnb::data::layer::LayerName;
use libcnb::data::layer_content_metadata::LayerTypes;
use libcnb::data::sbom::SbomFormat;
use libcnb::detect::{DetectContext, DetectResult};
use libcnb::generic::{GenericMetadata, GenericPlatform};
use libcnb::layer::{
    CachedLayerDefinition, EmptyLayerCause, ExistingLayerStrategy, InvalidMetadataAction, Layer, LayerData,
    LayerRef, LayerResult, LayerState, MetadataMigration, RestoredLayerAction, UncachedLayerDefinition,
};
use libcnb::layer_env::{LayerEnv, ModificationBehavior, Scope};
use libcnb::sbom::Sbom;
use libcnb::{Buildpack, Env, Target};
use serde::de::DeserializeOwned;
use serde::{Deserialize, Serialize};
use serde_json::{json, Value};
use std::cell::RefCell;
use std::collections::{BTreeMap, BTreeSet, HashMap};
use std::fs;
use std::os::unix::ffi::{OsStrExt, OsStringExt};
use std::os::unix::fs::PermissionsExt;
use std::path::{Path, PathBuf};
use std::rc::Rc;

// ---------------------------------------------------------------------------------------------
// abstract state (mirrors the records of Layers.tla; field names are the JSON keys TLC prints)

#[derive(Serialize, Deserialize, Clone, Debug, PartialEq, Eq)]
pub struct ATy {
    pub set: bool,
    pub build: bool,
    pub launch: bool,
    pub cache: bool,
}
#[derive(Serialize, Deserialize, Clone, Debug, PartialEq, Eq, PartialOrd, Ord)]
pub struct AMd {
    pub kind: String,
    pub v: String,
}
#[derive(Serialize, Deserialize, Clone, Debug, PartialEq, Eq)]
pub struct AToml {
    pub k: String,
    pub ty: ATy,
    pub md: AMd,
}
#[derive(Serialize, Deserialize, Clone, Debug, PartialEq, Eq)]
pub struct ALayer {
    pub dir: bool,
    pub files: BTreeSet<String>,
    pub env: String,
    pub execd: BTreeSet<String>,
    pub sbom: BTreeMap<String, String>,
    pub toml: AToml,
}
#[derive(Serialize, Deserialize, Clone, Debug, PartialEq, Eq)]
pub struct ADec {
    pub k: String,
    pub c: String,
    pub md: AMd,
}
#[derive(Serialize, Deserialize, Clone, Debug, PartialEq, Eq)]
pub struct AShape {
    pub env: String,
    pub execd: BTreeSet<String>,
    pub sbom: BTreeMap<String, String>,
    pub files: BTreeSet<String>,
}
#[derive(Serialize, Deserialize, Clone, Debug, PartialEq, Eq)]
pub struct ARes {
    pub k: String,
    pub md: AMd,
    pub shape: AShape,
}
#[derive(Serialize, Deserialize, Clone, Debug, PartialEq, Eq)]
pub struct ARet {
    pub ok: bool,
    pub kind: String,
    pub cause: String,
    pub c: String,
    pub md: AMd,
    pub env: String,
    pub ty: ATy,
}
#[derive(Serialize, Deserialize, Clone, Debug, PartialEq, Eq)]
pub struct ACall {
    pub cb: String,
    pub md: AMd,
    pub env: String,
    pub empty: bool,
}
#[derive(Serialize, Deserialize, Clone, Debug, PartialEq, Eq)]
pub struct AArg {
    pub md: AMd,
    pub env: String,
    pub execd: BTreeSet<String>,
    pub sbom: BTreeMap<String, String>,
    pub file: String,
}
#[derive(Serialize, Deserialize, Clone, Debug, PartialEq, Eq)]
pub struct AObs {
    pub act: String,
    pub n: String,
    pub ty: ATy,
    #[serde(rename = "T")]
    pub t: String,
    pub ima: ADec,
    pub rla: ADec,
    pub strat: ADec,
    pub mig: ADec,
    pub cres: ARes,
    pub ures: ARes,
    pub arg: AArg,
    pub ret: ARet,
    pub calls: Vec<ACall>,
}

pub fn no_md() -> AMd {
    AMd { kind: "none".into(), v: "-".into() }
}
pub fn no_ty() -> ATy {
    ATy { set: false, build: false, launch: false, cache: false }
}
pub fn no_dec() -> ADec {
    ADec { k: "unused".into(), c: "-".into(), md: no_md() }
}
pub fn ret(ok: bool, kind: &str, cause: &str, c: &str, md: AMd, env: &str) -> ARet {
    ARet { ok, kind: kind.into(), cause: cause.into(), c: c.into(), md, env: env.into(), ty: no_ty() }
}
pub fn ret_err_buildpack() -> ARet {
    ret(false, "ErrBuildpack", "-", "-", no_md(), "none")
}
pub fn ret_err_layer() -> ARet {
    ret(false, "ErrLayer", "-", "-", no_md(), "none")
}
pub fn ret_unit() -> ARet {
    ret(true, "Unit", "-", "-", no_md(), "none")
}

// ---------------------------------------------------------------------------------------------
// tokens <-> bytes

pub const FORMATS: [(&str, &str); 3] = [("cdx", "cdx.json"), ("spdx", "spdx.json"), ("syft", "syft.json")];

pub fn sbom_format(tok: &str) -> SbomFormat {
    match tok {
        "cdx" => SbomFormat::CycloneDxJson,
        "spdx" => SbomFormat::SpdxJson,
        "syft" => SbomFormat::SyftJson,
        o => panic!("unknown sbom format token {o}"),
    }
}

/// One entry of a layer environment: (scope, behaviour, name bytes, value bytes); scope is
/// "all" | "build" | "launch" | "process:<name>".
#[derive(Serialize, Deserialize, Clone, Debug, PartialEq, Eq, PartialOrd, Ord)]
pub struct EnvEntry {
    pub scope: String,
    pub beh: String,
    pub name: Vec<u8>,
    pub value: Vec<u8>,
}

pub fn ee(scope: &str, beh: &str, name: &[u8], value: &[u8]) -> EnvEntry {
    EnvEntry { scope: scope.into(), beh: beh.into(), name: name.to_vec(), value: value.to_vec() }
}

pub fn scope_of(s: &str) -> Scope {
    match s {
        "all" => Scope::All,
        "build" => Scope::Build,
        "launch" => Scope::Launch,
        o => Scope::Process(o.strip_prefix("process:").expect("scope token").to_string()),
    }
}
pub fn beh_of(s: &str) -> ModificationBehavior {
    match s {
        "append" => ModificationBehavior::Append,
        "default" => ModificationBehavior::Default,
        "delim" => ModificationBehavior::Delimiter,
        "override" => ModificationBehavior::Override,
        "prepend" => ModificationBehavior::Prepend,
        o => panic!("behaviour token {o}"),
    }
}

pub fn layer_env_of(entries: &[EnvEntry]) -> LayerEnv {
    // inserted in an order that differs from process to process (C04: the result does not depend on
    // it; C20: neither do the written bytes)
    use std::hash::{BuildHasher, Hasher};
    let mut order: Vec<&EnvEntry> = entries.iter().collect();
    fastrand::Rng::with_seed(std::collections::hash_map::RandomState::new().build_hasher().finish()).shuffle(&mut order);
    let mut e = LayerEnv::new();
    for x in order {
        e.insert(
            scope_of(&x.scope),
            beh_of(&x.beh),
            std::ffi::OsString::from_vec(x.name.clone()),
            std::ffi::OsString::from_vec(x.value.clone()),
        );
    }
    e
}

/// The token universe of one run: what every token stands for on disk.
#[derive(Clone, Debug, Default)]
pub struct Universe {
    pub envs: BTreeMap<String, Vec<EnvEntry>>,
    pub sboms: BTreeMap<String, Vec<u8>>,
    pub files: BTreeMap<String, (String, Vec<u8>)>,
    pub execs: BTreeMap<String, Vec<u8>>,
    pub mdvals: BTreeMap<String, String>,
    /// directory holding the exec.d source programs (one file per token)
    pub exec_src: PathBuf,
}

impl Universe {
    /// The universe of the exhaustive models: e1,e2 / s1,s2 / f1,f2 / p1,p2 / md values 1,2.
    pub fn standard(exec_src: &Path) -> Self {
        let mut u = Universe { exec_src: exec_src.to_path_buf(), ..Default::default() };
        u.envs.insert(
            "e1".into(),
            vec![
                ee("all", "override", b"E1_ALL", b"all value"),
                ee("build", "append", b"E1.B", b"b"),
                ee("build", "delim", b"E1.B", b":"),
                ee("launch", "prepend", b"E1_L", b"l\nl"),
                ee("process:web", "default", b"E1_P", b""),
            ],
        );
        u.envs.insert(
            "e2".into(),
            vec![
                ee("all", "default", b"E2_ALL", b"\xff\xfe"),
                ee("launch", "override", b"E1_L", b"other"),
                ee("process:worker", "append", b"E2_P", b"w"),
                ee("process:web", "override", b"E2_W", b"x=y"),
                // process names that differ only in a character outside [A-Za-z0-9._-]
                ee("process:side kiq", "override", b"E2_S", b"space"),
                ee("process:side:kiq", "override", b"E2_S", b"colon"),
                // ... and a dotted one next to its own stem
                ee("process:web.worker", "override", b"E2_D", b"dotted"),
            ],
        );
        u.envs.insert("e3".into(), vec![ee("process:web.v2", "prepend", b"ONLY_PROC", b"p")]);
        for (t, b) in [("s1", &b"{\"sbom\":\"s1\"}"[..]), ("s2", &b"{\"sbom\":\"s2\", \"x\": [1,2]}\n"[..]), ("s3", &b""[..])] {
            u.sboms.insert(t.into(), b.to_vec());
        }
        for (t, n, b) in [("f1", "env.d/f1.txt", &b"file one\n"[..]), ("f2", "bin/f2 tool", &b"\x00\x01binary"[..]), ("f3", ".hidden", &b""[..])] {
            u.files.insert(t.into(), (n.into(), b.to_vec()));
        }
        for (t, b) in [("p1", &b"#!/bin/sh\necho p1\n"[..]), ("p2", &b"#!/bin/sh\necho p2 >&3\n"[..]), ("p3", &b"\x7fELF"[..])] {
            u.execs.insert(t.into(), b.to_vec());
        }
        u.mdvals.insert("1".into(), "one \"quoted\" \\ back\nnewline é".into());
        u.mdvals.insert("2".into(), "".into());
        u.mdvals.insert("3".into(), "three".into());
        u
    }

    pub fn write_exec_sources(&self) {
        fs::create_dir_all(&self.exec_src).unwrap();
        // "gone" is no file at all; "dangling" is a symbolic link to nowhere: missing just the same
        let d = self.exec_src.join("dangling");
        if fs::symlink_metadata(&d).is_err() {
            let _ = std::os::unix::fs::symlink("no/such/program", &d);
        }
        for (t, b) in &self.execs {
            let p = self.exec_src.join(t);
            if !p.exists() {
                fs::write(&p, b).unwrap();
                fs::set_permissions(&p, fs::Permissions::from_mode(0o755)).unwrap();
            }
        }
    }

    pub fn env_entries(&self, tok: &str) -> Vec<EnvEntry> {
        if tok == "none" {
            return vec![];
        }
        self.envs.get(tok).unwrap_or_else(|| panic!("unknown env token {tok}")).clone()
    }
    pub fn layer_env(&self, tok: &str) -> LayerEnv {
        layer_env_of(&self.env_entries(tok))
    }
    pub fn env_token_of_entries(&self, mut entries: Vec<EnvEntry>) -> String {
        entries.sort();
        if entries.is_empty() {
            return "none".into();
        }
        for (t, e) in &self.envs {
            let mut e = e.clone();
            e.sort();
            if e == entries {
                return t.clone();
            }
        }
        format!("UNKNOWN:{entries:?}")
    }
    /// Token of an environment the library handed out for the layer at `layer_dir`: it has to be
    /// what reading that directory gives (explicit entries - identified by the harness's own
    /// reader - plus the implicit bin/lib/... entries).
    pub fn env_token_at(&self, env: &LayerEnv, layer_dir: &Path) -> String {
        let _p = Pause::new();   // the harness's own reads are no part of the call under test
        match LayerEnv::read_from_layer_dir(layer_dir) {
            Ok(disk) if disk == *env => match read_env_entries(layer_dir) {
                Ok(e) => self.env_token_of_entries(e),
                Err(e) => format!("UNKNOWN:{e}"),
            },
            Ok(disk) if disk != LayerEnv::new() || layer_dir.join("bin").is_dir() => format!("DIFFERS-FROM-DISK:{env:?}"),
            _ => self.env_token_of_layer_env(env),
        }
    }
    pub fn env_token_of_layer_env(&self, env: &LayerEnv) -> String {
        if *env == LayerEnv::new() {
            return "none".into();
        }
        for (t, e) in &self.envs {
            if layer_env_of(e) == *env {
                return t.clone();
            }
        }
        format!("UNKNOWN:{env:?}")
    }
    pub fn md_payload(&self, v: &str) -> String {
        self.mdvals.get(v).unwrap_or_else(|| panic!("unknown md value token {v}")).clone()
    }
    pub fn md_token_of_payload(&self, p: &str) -> String {
        for (t, s) in &self.mdvals {
            if s == p {
                return t.clone();
            }
        }
        format!("UNKNOWN:{p:?}")
    }
    pub fn sboms_of(&self, m: &BTreeMap<String, String>) -> Vec<Sbom> {
        // (paired runs of C20 only) a second, different document of the same format ahead of each: which of two
        // documents of one format ends up in the file is the library's choice - the same choice in every process
        let dup = std::env::var_os("VERIF_DIGESTS").is_some();
        m.iter()
            .filter(|(_, t)| t.as_str() != "none")
            .flat_map(|(f, t)| {
                let real = Sbom::from_bytes(sbom_format(f), self.sboms.get(t).unwrap_or_else(|| panic!("sbom token {t}")).clone());
                if dup { vec![Sbom::from_bytes(sbom_format(f), format!("{{\"another\": \"document of {f}\"}}")), real] } else { vec![real] }
            })
            .collect()
    }
    pub fn exec_programs(&self, x: &BTreeSet<String>) -> HashMap<String, PathBuf> {
        x.iter().map(|t| (t.clone(), self.exec_src.join(t))).collect()
    }
}

// ---------------------------------------------------------------------------------------------
// metadata types a buildpack may ask for

pub trait MdType: Serialize + DeserializeOwned + Clone + 'static {
    fn make(u: &Universe, md: &AMd) -> Self;
    fn project(&self, u: &Universe) -> AMd;
}

#[derive(Serialize, Deserialize, Clone, Debug, PartialEq, Eq)]
#[serde(deny_unknown_fields)]
pub struct MdA {
    pub a: String,
}
#[derive(Serialize, Deserialize, Clone, Debug, PartialEq, Eq)]
#[serde(deny_unknown_fields)]
pub struct MdB {
    pub b: String,
}
/// a lenient metadata type: the field of `MdA`, unknown keys are ignored (no deny_unknown_fields)
#[derive(Serialize, Deserialize, Clone, Debug, PartialEq, Eq)]
pub struct MdL {
    pub a: String,
}
impl MdType for MdL {
    fn make(u: &Universe, md: &AMd) -> Self {
        assert_eq!(md.kind, "A");
        MdL { a: u.md_payload(&md.v) }
    }
    fn project(&self, u: &Universe) -> AMd {
        AMd { kind: "A".into(), v: u.md_token_of_payload(&self.a) }
    }
}
pub const EXTRA_KEY: &str = "zz-extra";
/// (a date-time: the one TOML kind that only survives a round trip through the document form)
pub const EXTRA_VALUE: &str = "1979-05-27T07:32:00Z";
fn extra_value() -> toml::Value {
    toml::Value::Datetime(EXTRA_VALUE.parse().unwrap())
}
impl MdType for MdA {
    fn make(u: &Universe, md: &AMd) -> Self {
        assert_eq!(md.kind, "A");
        MdA { a: u.md_payload(&md.v) }
    }
    fn project(&self, u: &Universe) -> AMd {
        AMd { kind: "A".into(), v: u.md_token_of_payload(&self.a) }
    }
}
impl MdType for MdB {
    fn make(u: &Universe, md: &AMd) -> Self {
        assert_eq!(md.kind, "B");
        MdB { b: u.md_payload(&md.v) }
    }
    fn project(&self, u: &Universe) -> AMd {
        AMd { kind: "B".into(), v: u.md_token_of_payload(&self.b) }
    }
}
fn md_key(kind: &str) -> &'static str {
    match kind {
        "A" => "a",
        "B" => "b",
        "X" => "x",
        "AX" => "a",
        o => panic!("md kind {o}"),
    }
}
pub fn project_table(u: &Universe, t: &toml::Table) -> AMd {
    if t.len() == 2 && t.get(EXTRA_KEY) == Some(&extra_value()) {
        if let Some(toml::Value::String(s)) = t.get("a") {
            return AMd { kind: "AX".into(), v: u.md_token_of_payload(s) };
        }
    }
    if t.len() == 1 {
        for (kind, key) in [("A", "a"), ("B", "b"), ("X", "x")] {
            if let Some(toml::Value::String(s)) = t.get(key) {
                return AMd { kind: kind.into(), v: u.md_token_of_payload(s) };
            }
        }
    }
    AMd { kind: "UNKNOWN".into(), v: format!("{t:?}") }
}
impl MdType for GenericMetadata {
    fn make(u: &Universe, md: &AMd) -> Self {
        if md.kind == "none" {
            return None;
        }
        let mut t = toml::Table::new();
        t.insert(md_key(&md.kind).into(), toml::Value::String(u.md_payload(&md.v)));
        if md.kind == "AX" {
            t.insert(EXTRA_KEY.into(), extra_value());
        }
        Some(t)
    }
    fn project(&self, u: &Universe) -> AMd {
        match self {
            None => no_md(),
            Some(t) => project_table(u, t),
        }
    }
}

// ---------------------------------------------------------------------------------------------
// abstract layer -> directory

fn toml_escape(s: &str) -> String {
    let mut r = String::from("\"");
    for c in s.chars() {
        match c {
            '"' => r.push_str("\\\""),
            '\\' => r.push_str("\\\\"),
            '\n' => r.push_str("\\n"),
            '\t' => r.push_str("\\t"),
            '\r' => r.push_str("\\r"),
            c if (c as u32) < 0x20 || c as u32 == 0x7f => r.push_str(&format!("\\u{:04X}", c as u32)),
            c => r.push(c),
        }
    }
    r.push('"');
    r
}

pub const GARBAGE_TOML: &str = "this is = = not toml [\n";

/// Text of a content metadata file as the lifecycle (not libcnb) would have left it.
pub fn render_toml(u: &Universe, t: &AToml) -> Option<String> {
    match t.k.as_str() {
        "absent" => None,
        "garbage" => Some(GARBAGE_TOML.into()),
        "ok" => {
            let mut s = String::new();
            if t.ty.set {
                s.push_str(&format!("[types]\nlaunch = {}\nbuild = {}\ncache = {}\n\n", t.ty.launch, t.ty.build, t.ty.cache));
            }
            if t.md.kind != "none" {
                s.push_str(&format!("[metadata]\n{} = {}\n", md_key(&t.md.kind), toml_escape(&u.md_payload(&t.md.v))));
                if t.md.kind == "AX" {
                    s.push_str(&format!("{} = {}\n", toml_escape(EXTRA_KEY), EXTRA_VALUE));
                }
            }
            Some(s)
        }
        o => panic!("toml kind {o}"),
    }
}

pub fn env_dir_of_scope(scope: &str) -> PathBuf {
    match scope {
        "all" => PathBuf::from("env"),
        "build" => PathBuf::from("env.build"),
        "launch" => PathBuf::from("env.launch"),
        o => PathBuf::from("env.launch").join(o.strip_prefix("process:").expect("scope")),
    }
}

pub fn write_env_entries(layer_dir: &Path, entries: &[EnvEntry]) {
    for e in entries {
        let d = layer_dir.join(env_dir_of_scope(&e.scope));
        fs::create_dir_all(&d).unwrap();
        let mut name = e.name.clone();
        name.extend_from_slice(format!(".{}", e.beh).as_bytes());
        fs::write(d.join(std::ffi::OsString::from_vec(name)), &e.value).unwrap();
    }
}

/// Writes the file of a file token (its name may lie in a sub-directory such as `bin/`, which makes
/// the layer contribute implicit PATH entries).
pub fn write_file_token(dir: &Path, n: &str, b: &[u8]) -> std::io::Result<()> {
    let p = dir.join(n);
    if let Some(parent) = p.parent() {
        fs::create_dir_all(parent)?;
    }
    fs::write(p, b)
}

/// Creates the files of layer `name` in `layers_dir` exactly as the abstract layer says.
pub fn materialize(u: &Universe, layers_dir: &Path, name: &str, l: &ALayer) {
    let dir = layers_dir.join(name);
    if l.dir {
        fs::create_dir_all(&dir).unwrap();
        for f in &l.files {
            let (n, b) = u.files.get(f).unwrap_or_else(|| panic!("file token {f}"));
            write_file_token(&dir, n, b).unwrap();
        }
        write_env_entries(&dir, &u.env_entries(&l.env));
        if !l.execd.is_empty() {
            fs::create_dir_all(dir.join("exec.d")).unwrap();
            for x in &l.execd {
                let p = dir.join("exec.d").join(x);
                fs::write(&p, u.execs.get(x).unwrap_or_else(|| panic!("exec token {x}"))).unwrap();
                fs::set_permissions(&p, fs::Permissions::from_mode(0o755)).unwrap();
            }
        }
    } else {
        assert!(l.files.is_empty() && l.env == "none" && l.execd.is_empty(), "content without dir");
    }
    for (f, t) in &l.sbom {
        if t != "none" {
            let suffix = FORMATS.iter().find(|(k, _)| k == f).expect("format").1;
            fs::write(layers_dir.join(format!("{name}.sbom.{suffix}")), u.sboms.get(t).expect("sbom token")).unwrap();
        }
    }
    if let Some(text) = render_toml(u, &l.toml) {
        fs::write(layers_dir.join(format!("{name}.toml")), text).unwrap();
    }
}

// ---------------------------------------------------------------------------------------------
// directory -> abstract layer (the projection; independent of libcnb's own readers)

pub fn read_env_entries(layer_dir: &Path) -> Result<Vec<EnvEntry>, String> {
    let mut out = Vec::new();
    for (scope, d) in [("all", "env"), ("build", "env.build"), ("launch", "env.launch")] {
        let p = layer_dir.join(d);
        if !p.exists() {
            continue;
        }
        read_env_dir(&p, scope, scope == "launch", &mut out)?;
    }
    Ok(out)
}

fn read_env_dir(p: &Path, scope: &str, allow_sub: bool, out: &mut Vec<EnvEntry>) -> Result<(), String> {
    for e in fs::read_dir(p).map_err(|e| format!("{p:?}: {e}"))? {
        let e = e.map_err(|e| e.to_string())?;
        let ft = e.file_type().map_err(|e| e.to_string())?;
        let fname = e.file_name();
        if ft.is_dir() {
            if allow_sub {
                let proc_name = fname.to_str().ok_or("non-utf8 process dir")?.to_string();
                read_env_dir(&e.path(), &format!("process:{proc_name}"), false, out)?;
                continue;
            }
            return Err(format!("unexpected directory {:?}", e.path()));
        }
        let bytes = fname.as_bytes();
        let dot = bytes.iter().rposition(|b| *b == b'.').ok_or_else(|| format!("env file without suffix {:?}", e.file_name()))?;
        let beh = std::str::from_utf8(&bytes[dot + 1..]).map_err(|_| "suffix".to_string())?;
        if !["append", "default", "delim", "override", "prepend"].contains(&beh) {
            return Err(format!("unknown suffix {:?}", e.path()));
        }
        out.push(EnvEntry {
            scope: scope.into(),
            beh: beh.into(),
            name: bytes[..dot].to_vec(),
            value: fs::read(e.path()).map_err(|e| e.to_string())?,
        });
    }
    Ok(())
}

/// Classifies the content metadata file with the harness's own reading of the CNB layout.
pub fn project_toml(u: &Universe, path: &Path) -> AToml {
    let garbage = AToml { k: "garbage".into(), ty: no_ty(), md: no_md() };
    let text = match fs::read(path) {
        Err(e) if e.kind() == std::io::ErrorKind::NotFound => return AToml { k: "absent".into(), ty: no_ty(), md: no_md() },
        Err(_) => return garbage,
        Ok(b) => match String::from_utf8(b) {
            Ok(s) => s,
            Err(_) => return garbage,
        },
    };
    let table: toml::Table = match text.parse() {
        Ok(t) => t,
        Err(_) => return garbage,
    };
    // what other TOML readers (the lifecycle) would see: the toml crate's private spelling of a
    // date-time is a table to them
    if text.contains("$__toml_private") {
        return AToml { k: "ok".into(), ty: no_ty(), md: AMd { kind: "UNKNOWN".into(), v: "a date-time was written as the toml crate's private marker table".into() } };
    }
    let mut ty = no_ty();
    let mut md = no_md();
    for (k, v) in &table {
        match (k.as_str(), v) {
            ("types", toml::Value::Table(t)) => {
                ty.set = true;
                for (tk, tv) in t {
                    match (tk.as_str(), tv) {
                        ("build", toml::Value::Boolean(b)) => ty.build = *b,
                        ("launch", toml::Value::Boolean(b)) => ty.launch = *b,
                        ("cache", toml::Value::Boolean(b)) => ty.cache = *b,
                        _ => return garbage,
                    }
                }
            }
            ("metadata", toml::Value::Table(t)) => md = project_table(u, t),
            _ => return garbage,
        }
    }
    AToml { k: "ok".into(), ty, md }
}

pub fn project(u: &Universe, layers_dir: &Path, name: &str) -> ALayer {
    let dir = layers_dir.join(name);
    let mut l = ALayer {
        dir: false,
        files: BTreeSet::new(),
        env: "none".into(),
        execd: BTreeSet::new(),
        sbom: BTreeMap::new(),
        toml: project_toml(u, &layers_dir.join(format!("{name}.toml"))),
    };
    if let Ok(md) = fs::symlink_metadata(&dir) {
        if md.is_dir() {
            l.dir = true;
            let mut names: Vec<_> = fs::read_dir(&dir).unwrap().map(|e| e.unwrap().file_name()).collect();
            names.sort();
            for n in names {
                let s = n.to_string_lossy().to_string();
                match s.as_str() {
                    "env" | "env.build" | "env.launch" => {}
                    "exec.d" => {
                        for e in fs::read_dir(dir.join("exec.d")).unwrap() {
                            let e = e.unwrap();
                            let t = e.file_name().to_string_lossy().to_string();
                            let ok = u.execs.get(&t).is_some_and(|b| fs::read(e.path()).is_ok_and(|c| c == *b));
                            // an exec.d program is a program: it keeps the executable bits of its source
                            let executable = fs::metadata(e.path()).is_ok_and(|m| m.permissions().mode() & 0o111 == 0o111);
                            l.execd.insert(if ok && executable { t } else if ok { format!("UNKNOWN:{t} (not executable)") } else { format!("UNKNOWN:{t}") });
                        }
                    }
                    _ => {
                        let tok = u
                            .files
                            .iter()
                            .find(|(_, (fname, bytes))| {
                                if let Some((d, f)) = fname.split_once('/') {
                                    d == s && fs::read(dir.join(d).join(f)).is_ok_and(|c| c == *bytes) && fs::read_dir(dir.join(d)).is_ok_and(|rd| rd.count() == 1)
                                } else {
                                    *fname == s && fs::read(dir.join(&n)).is_ok_and(|c| c == *bytes)
                                }
                            })
                            .map(|(t, _)| t.clone());
                        l.files.insert(tok.unwrap_or_else(|| format!("UNKNOWN:{s}")));
                    }
                }
            }
            l.env = match read_env_entries(&dir) {
                Ok(e) => u.env_token_of_entries(e),
                Err(e) => format!("UNKNOWN:{e}"),
            };
        } else {
            l.files.insert("UNKNOWN:layer path is not a directory".into());
        }
    }
    for (f, suffix) in FORMATS {
        let p = layers_dir.join(format!("{name}.sbom.{suffix}"));
        let tok = match fs::read(&p) {
            Ok(b) => u.sboms.iter().find(|(_, c)| **c == b).map_or_else(|| "UNKNOWN".to_string(), |(t, _)| t.clone()),
            Err(_) => "none".into(),
        };
        l.sbom.insert(f.into(), tok);
    }
    l
}

/// Restricts an sbom map to the formats the model of this vector knows about.
pub fn restrict_sbom(m: &BTreeMap<String, String>, like: &BTreeMap<String, String>) -> Result<BTreeMap<String, String>, String> {
    let mut r = BTreeMap::new();
    for (f, t) in m {
        if like.contains_key(f) {
            r.insert(f.clone(), t.clone());
        } else if t != "none" {
            return Err(format!("SBOM file of format {f} ({t}) outside the model"));
        }
    }
    Ok(r)
}

// ---------------------------------------------------------------------------------------------
// the buildpack used by the harness

#[derive(Debug)]
pub struct TErr(pub String);

pub struct TB;
impl Buildpack for TB {
    type Platform = GenericPlatform;
    type Metadata = GenericMetadata;
    type Error = TErr;
    fn detect(&self, _c: DetectContext<Self>) -> libcnb::Result<DetectResult, TErr> {
        unreachable!()
    }
    fn build(&self, _c: BuildContext<Self>) -> libcnb::Result<BuildResult, TErr> {
        unreachable!()
    }
}

pub fn build_context(layers_dir: &Path) -> BuildContext<TB> {
    BuildContext {
        layers_dir: layers_dir.to_path_buf(),
        app_dir: PathBuf::from("/nonexistent/app"),
        buildpack_dir: PathBuf::from("/nonexistent/bp"),
        target: Target {
            os: "linux".into(),
            arch: "amd64".into(),
            arch_variant: None,
            distro_name: "ubuntu".into(),
            distro_version: "24.04".into(),
        },
        platform: GenericPlatform::new(Env::new()),
        buildpack_plan: libcnb::data::buildpack_plan::BuildpackPlan { entries: vec![] },
        buildpack_descriptor: toml::from_str(
            "api = \"0.10\"\n[buildpack]\nid = \"verif/harness\"\nversion = \"0.0.1\"\n[[targets]]\nos = \"linux\"\narch = \"amd64\"\n",
        )
        .expect("descriptor"),
        store: None,
    }
}

fn err_ret<T>(e: &libcnb::Error<TErr>) -> ARet {
    let _ = std::marker::PhantomData::<T>;
    match e {
        libcnb::Error::BuildpackError(_) => ret_err_buildpack(),
        _ => ret_err_layer(),
    }
}

type Log = Rc<RefCell<Vec<ACall>>>;

/// Fault injection (C12) must only hit the library, not the harness's own callbacks: while a
/// callback of the scripted buildpack runs, the LD_PRELOAD shim (if loaded and switched on by
/// fault_child) is paused.
pub static FAULT_WINDOW: std::sync::atomic::AtomicBool = std::sync::atomic::AtomicBool::new(false);
pub fn shim_activate(on: bool) {
    let c = std::ffi::CString::new("faultshim_activate").unwrap();
    let p = unsafe { libc::dlsym(libc::RTLD_DEFAULT, c.as_ptr()) };
    if !p.is_null() {
        let f: extern "C" fn(i32) = unsafe { std::mem::transmute(p) };
        f(i32::from(on));
    }
}
/// Pauses the fault shim while the harness itself touches the file system (callbacks, projections);
/// nestable.
struct Pause;
static PAUSE_DEPTH: std::sync::atomic::AtomicUsize = std::sync::atomic::AtomicUsize::new(0);
impl Pause {
    fn new() -> Self {
        if FAULT_WINDOW.load(std::sync::atomic::Ordering::SeqCst) && PAUSE_DEPTH.fetch_add(1, std::sync::atomic::Ordering::SeqCst) == 0 {
            shim_activate(false);
        }
        Pause
    }
}
impl Drop for Pause {
    fn drop(&mut self) {
        if FAULT_WINDOW.load(std::sync::atomic::Ordering::SeqCst) && PAUSE_DEPTH.fetch_sub(1, std::sync::atomic::Ordering::SeqCst) == 1 {
            shim_activate(true);
        }
    }
}

fn call(cb: &str, md: AMd, env: &str, empty: bool) -> ACall {
    ACall { cb: cb.into(), md, env: env.into(), empty }
}

// ---------------------------------------------------------------------------------------------
// struct API

fn run_cached<M: MdType>(u: &Universe, ctx: &BuildContext<TB>, name: &LayerName, o: &AObs, log: &Log) -> (ARet, Option<LayerRef<TB, String, String>>) {
    let layers_dir = ctx.layers_dir.clone();
    let n = o.n.clone();
    let ima = |md: &GenericMetadata| -> Result<(InvalidMetadataAction<M>, String), TErr> {
        let _p = Pause::new();
        log.borrow_mut().push(call("ima", md.project(u), "none", false));
        match o.ima.k.as_str() {
            "Delete" => Ok((InvalidMetadataAction::DeleteLayer, o.ima.c.clone())),
            "Replace" => Ok((InvalidMetadataAction::ReplaceMetadata(M::make(u, &o.ima.md)), o.ima.c.clone())),
            "Err" => Err(TErr("ima".into())),
            other => {
                log.borrow_mut().push(call(&format!("UNSCRIPTED ima ({other})"), no_md(), "none", false));
                Err(TErr("unscripted".into()))
            }
        }
    };
    let rla = |md: &M, path: &Path| -> Result<(RestoredLayerAction, String), TErr> {
        let _p = Pause::new();
        let mut c = call("rla", md.project(u), "none", false);
        if path != layers_dir.join(&n) {
            c.cb = format!("rla with wrong path {path:?}");
        }
        log.borrow_mut().push(c);
        match o.rla.k.as_str() {
            "Keep" => Ok((RestoredLayerAction::KeepLayer, o.rla.c.clone())),
            "Delete" => Ok((RestoredLayerAction::DeleteLayer, o.rla.c.clone())),
            "Err" => Err(TErr("rla".into())),
            other => {
                log.borrow_mut().push(call(&format!("UNSCRIPTED rla ({other})"), no_md(), "none", false));
                Err(TErr("unscripted".into()))
            }
        }
    };
    let r = ctx.cached_layer(
        name,
        CachedLayerDefinition { build: o.ty.build, launch: o.ty.launch, invalid_metadata_action: &ima, restored_layer_action: &rla },
    );
    match r {
        Ok(lr) => {
            let ret = match &lr.state {
                LayerState::Restored { cause } => ret(true, "Restored", "-", cause, no_md(), "none"),
                LayerState::Empty { cause } => match cause {
                    EmptyLayerCause::NewlyCreated => ret(true, "Empty", "NewlyCreated", "-", no_md(), "none"),
                    EmptyLayerCause::InvalidMetadataAction { cause } => ret(true, "Empty", "InvalidMetadataAction", cause, no_md(), "none"),
                    EmptyLayerCause::RestoredLayerAction { cause } => ret(true, "Empty", "RestoredLayerAction", cause, no_md(), "none"),
                },
            };
            let ret = if lr.path() == ctx.layers_dir.join(&o.n) { ret } else { ARet { kind: format!("{} with wrong path", ret.kind), ..ret } };
            (ret, Some(lr))
        }
        Err(e) => (err_ret::<()>(&e), None),
    }
}

fn run_uncached(ctx: &BuildContext<TB>, name: &LayerName, o: &AObs) -> (ARet, Option<LayerRef<TB, (), ()>>) {
    match ctx.uncached_layer(name, UncachedLayerDefinition { build: o.ty.build, launch: o.ty.launch }) {
        Ok(lr) => {
            let ret = match &lr.state {
                LayerState::Restored { .. } => ret(true, "Restored", "-", "unit", no_md(), "none"),
                LayerState::Empty { cause } => match cause {
                    EmptyLayerCause::NewlyCreated => ret(true, "Empty", "NewlyCreated", "-", no_md(), "none"),
                    EmptyLayerCause::InvalidMetadataAction { .. } => ret(true, "Empty", "InvalidMetadataAction", "unit", no_md(), "none"),
                    EmptyLayerCause::RestoredLayerAction { .. } => ret(true, "Empty", "RestoredLayerAction", "unit", no_md(), "none"),
                },
            };
            (ret, Some(lr))
        }
        Err(e) => (err_ret::<()>(&e), None),
    }
}

// ---------------------------------------------------------------------------------------------
// trait API

struct ScriptLayer<'a, M> {
    u: &'a Universe,
    o: &'a AObs,
    log: Log,
    /// The layer's types depend on what its callbacks found out (`create` / `update` take `&mut self`):
    /// until one of them has run - or it is settled that none will (Keep, replaced metadata) - `types()`
    /// answers the opposite of the scripted flags. "Will be called ... after create, update and when the
    /// layer is not modified at all."
    settled: std::cell::Cell<bool>,
    _m: std::marker::PhantomData<M>,
}

impl<M: MdType> ScriptLayer<'_, M> {
    fn result(&self, layer_path: &Path, res: &ARes, which: &str) -> Result<LayerResult<M>, TErr> {
        match res.k.as_str() {
            "Ok" => {
                for f in &res.shape.files {
                    let (n, b) = self.u.files.get(f).expect("file token");
                    write_file_token(layer_path, n, b).map_err(|e| TErr(format!("harness write: {e}")))?;
                }
                Ok(LayerResult {
                    metadata: M::make(self.u, &res.md),
                    env: if res.shape.env == "none" { None } else { Some(self.u.layer_env(&res.shape.env)) },
                    exec_d_programs: self.u.exec_programs(&res.shape.execd),
                    sboms: self.u.sboms_of(&res.shape.sbom),
                })
            }
            "Err" => Err(TErr(which.into())),
            other => {
                self.log.borrow_mut().push(call(&format!("UNSCRIPTED {which} ({other})"), no_md(), "none", false));
                Err(TErr("unscripted".into()))
            }
        }
    }
}

/// A Layer that overrides nothing but the two required methods: used to run the library's own
/// default `existing_layer_strategy`, `update` and `migrate_incompatible_metadata`.
struct PlainLayer<M> {
    types: LayerTypes,
    _m: std::marker::PhantomData<M>,
}
impl<M: MdType> Layer for PlainLayer<M> {
    type Buildpack = TB;
    type Metadata = M;
    fn types(&self) -> LayerTypes {
        self.types
    }
    fn create(&mut self, _c: &BuildContext<TB>, _p: &Path) -> Result<LayerResult<M>, TErr> {
        Err(TErr("PlainLayer::create must not be reached".into()))
    }
}

impl<M: MdType> Layer for ScriptLayer<'_, M> {
    type Buildpack = TB;
    type Metadata = M;

    fn types(&self) -> LayerTypes {
        if self.settled.get() {
            LayerTypes { build: self.o.ty.build, launch: self.o.ty.launch, cache: self.o.ty.cache }
        } else {
            LayerTypes { build: !self.o.ty.build, launch: !self.o.ty.launch, cache: !self.o.ty.cache }
        }
    }

    fn create(&mut self, ctx: &BuildContext<TB>, layer_path: &Path) -> Result<LayerResult<M>, TErr> {
        let _p = Pause::new();
        self.settled.set(true);
        let empty = fs::read_dir(layer_path).map(|mut d| d.next().is_none()).unwrap_or(false);
        let mut c = call("create", no_md(), "none", empty);
        if layer_path != ctx.layers_dir.join(&self.o.n) {
            c.cb = format!("create with wrong path {layer_path:?}");
        }
        self.log.borrow_mut().push(c);
        self.result(layer_path, &self.o.cres, "create")
    }

    fn existing_layer_strategy(&mut self, _ctx: &BuildContext<TB>, d: &LayerData<M>) -> Result<ExistingLayerStrategy, TErr> {
        let _p = Pause::new();
        self.log.borrow_mut().push(call("strategy", d.content_metadata.metadata.project(self.u), &self.u.env_token_at(&d.env, &d.path), false));
        match self.o.strat.k.as_str() {
            "Default" => {
                let r = PlainLayer::<M> { types: self.types(), _m: std::marker::PhantomData }.existing_layer_strategy(_ctx, d);
                if matches!(r, Ok(ExistingLayerStrategy::Keep)) { self.settled.set(true); }
                r
            }
            "Keep" => { self.settled.set(true); Ok(ExistingLayerStrategy::Keep) }
            "Update" => Ok(ExistingLayerStrategy::Update),
            "Recreate" => Ok(ExistingLayerStrategy::Recreate),
            "Err" => Err(TErr("strategy".into())),
            other => {
                self.log.borrow_mut().push(call(&format!("UNSCRIPTED strategy ({other})"), no_md(), "none", false));
                Err(TErr("unscripted".into()))
            }
        }
    }

    fn update(&mut self, _ctx: &BuildContext<TB>, d: &LayerData<M>) -> Result<LayerResult<M>, TErr> {
        let _p = Pause::new();
        self.log.borrow_mut().push(call("update", d.content_metadata.metadata.project(self.u), &self.u.env_token_at(&d.env, &d.path), false));
        self.settled.set(true);
        if self.o.ures.k == "Default" {
            return PlainLayer::<M> { types: self.types(), _m: std::marker::PhantomData }.update(_ctx, d);
        }
        self.result(&d.path, &self.o.ures, "update")
    }

    fn migrate_incompatible_metadata(&mut self, _ctx: &BuildContext<TB>, md: &GenericMetadata) -> Result<MetadataMigration<M>, TErr> {
        let _p = Pause::new();
        self.log.borrow_mut().push(call("migrate", md.project(self.u), "none", false));
        match self.o.mig.k.as_str() {
            "Default" => {
                let r = PlainLayer::<M> { types: self.types(), _m: std::marker::PhantomData }.migrate_incompatible_metadata(_ctx, md);
                if matches!(r, Ok(MetadataMigration::ReplaceMetadata(_))) { self.settled.set(true); }
                r
            }
            "Recreate" => Ok(MetadataMigration::RecreateLayer),
            "Replace" => { self.settled.set(true); Ok(MetadataMigration::ReplaceMetadata(M::make(self.u, &self.o.mig.md))) }
            "Err" => Err(TErr("migrate".into())),
            other => {
                self.log.borrow_mut().push(call(&format!("UNSCRIPTED migrate ({other})"), no_md(), "none", false));
                Err(TErr("unscripted".into()))
            }
        }
    }
}

fn run_trait<M: MdType>(u: &Universe, ctx: &BuildContext<TB>, name: &LayerName, o: &AObs, log: &Log) -> ARet {
    let layer = ScriptLayer::<M> { u, o, log: log.clone(), settled: std::cell::Cell::new(false), _m: std::marker::PhantomData };
    match ctx.handle_layer(name.clone(), layer) {
        Ok(d) => {
            let mut r = ret(true, "Data", "-", "-", d.content_metadata.metadata.project(u), &u.env_token_at(&d.env, &d.path));
            r.ty = d.content_metadata.types.map_or_else(no_ty, |t| ATy { set: true, build: t.build, launch: t.launch, cache: t.cache });
            if d.path != ctx.layers_dir.join(&o.n) || d.name != *name {
                r.kind = "Data with wrong path or name".into();
            }
            r
        }
        Err(e) => err_ret::<()>(&e),
    }
}

// ---------------------------------------------------------------------------------------------
// executing one action

/// A LayerRef of either request kind, kept by drivers that run histories.
pub enum AnyRef {
    Cached(LayerRef<TB, String, String>),
    Uncached(LayerRef<TB, (), ()>),
}

macro_rules! with_ref {
    ($r:expr, $lr:ident => $e:expr) => {
        match $r {
            AnyRef::Cached($lr) => $e,
            AnyRef::Uncached($lr) => $e,
        }
    };
}

fn unit_ret(r: libcnb::Result<(), TErr>) -> ARet {
    match r {
        Ok(()) => ret_unit(),
        Err(e) => err_ret::<()>(&e),
    }
}

/// Executes the action described by `o` (its `ret` and `calls` fields are ignored) on the real
/// library and returns what was observed. `lref` is the LayerRef to use for writer actions; a
/// successful struct request returns the new ref.
pub fn execute(u: &Universe, ctx: &BuildContext<TB>, o: &AObs, lref: Option<&AnyRef>) -> (ARet, Vec<ACall>, Option<AnyRef>) {
    let log: Log = Rc::new(RefCell::new(Vec::new()));
    let name: LayerName = o.n.parse().expect("layer name");
    let mut newref = None;
    let ret = match o.act.as_str() {
        "cached_layer" => {
            let (r, lr) = match o.t.as_str() {
                "A" => run_cached::<MdA>(u, ctx, &name, o, &log),
                "B" => run_cached::<MdB>(u, ctx, &name, o, &log),
                "L" => run_cached::<MdL>(u, ctx, &name, o, &log),
                "G" => run_cached::<GenericMetadata>(u, ctx, &name, o, &log),
                t => panic!("metadata type {t}"),
            };
            newref = lr.map(AnyRef::Cached);
            r
        }
        "uncached_layer" => {
            let (r, lr) = run_uncached(ctx, &name, o);
            newref = lr.map(AnyRef::Uncached);
            r
        }
        "handle_layer" => match o.t.as_str() {
            "A" => run_trait::<MdA>(u, ctx, &name, o, &log),
            "B" => run_trait::<MdB>(u, ctx, &name, o, &log),
            "L" => run_trait::<MdL>(u, ctx, &name, o, &log),
            "G" => run_trait::<GenericMetadata>(u, ctx, &name, o, &log),
            t => panic!("metadata type {t}"),
        },
        "write_metadata" => {
            let r = lref.expect("ref");
            let md = &o.arg.md;
            unit_ret(match md.kind.as_str() {
                "A" => with_ref!(r, lr => lr.write_metadata(MdA::make(u, md))),
                "B" => with_ref!(r, lr => lr.write_metadata(MdB::make(u, md))),
                _ => with_ref!(r, lr => lr.write_metadata(<GenericMetadata as MdType>::make(u, md))),
            })
        }
        "write_env" => {
            let env = u.layer_env(&o.arg.env);
            unit_ret(with_ref!(lref.expect("ref"), lr => lr.write_env(&env)))
        }
        "read_env" => match with_ref!(lref.expect("ref"), lr => lr.read_env()) {
            Ok(e) => { let path = with_ref!(lref.expect("ref"), lr => lr.path()); ret(true, "Env", "-", "-", no_md(), &u.env_token_at(&e, &path)) }
            Err(e) => err_ret::<()>(&e),
        },
        "write_sboms" => {
            let s = u.sboms_of(&o.arg.sbom);
            unit_ret(with_ref!(lref.expect("ref"), lr => lr.write_sboms(&s)))
        }
        "write_exec_d" => {
            let p = u.exec_programs(&o.arg.execd);
            unit_ret(with_ref!(lref.expect("ref"), lr => lr.write_exec_d_programs(p)))
        }
        "write_file" => {
            let (n, b) = u.files.get(&o.arg.file).expect("file token");
            let path = with_ref!(lref.expect("ref"), lr => lr.path());
            match write_file_token(&path, n, b) {
                Ok(()) => ret_unit(),
                Err(_) => ret_err_layer(),
            }
        }
        a => panic!("unknown action {a}"),
    };
    let calls = log.borrow().clone();
    (ret, calls, newref)
}

// ---------------------------------------------------------------------------------------------
// environment actions, performed by the harness on the real directory

pub fn names_on_disk(layers_dir: &Path) -> BTreeSet<String> {
    let mut s = BTreeSet::new();
    if let Ok(rd) = fs::read_dir(layers_dir) {
        for e in rd.flatten() {
            let n = e.file_name().to_string_lossy().to_string();
            let base = if let Some(i) = n.find(".sbom.") {
                n[..i].to_string()
            } else if let Some(b) = n.strip_suffix(".toml") {
                b.to_string()
            } else {
                n
            };
            s.insert(base);
        }
    }
    s
}

/// Entries directly below <layers> that belong to none of the given layer names (nor to the
/// phase outputs): a library call must never leave any.
pub fn strays(layers_dir: &Path, names: &[&str]) -> Vec<String> {
    let mut out = vec![];
    if let Ok(rd) = fs::read_dir(layers_dir) {
        for e in rd.flatten() {
            let n = e.file_name().to_string_lossy().to_string();
            let own = names.iter().any(|l| n == *l || n == format!("{l}.toml") || FORMATS.iter().any(|(_, s)| n == format!("{l}.sbom.{s}")));
            let output = n == "launch.toml" || n == "store.toml" || n.starts_with("build.sbom.") || n.starts_with("launch.sbom.");
            if !own && !output {
                out.push(n);
            }
        }
    }
    out.sort();
    out
}

pub fn remove_layer_completely(layers_dir: &Path, name: &str) {
    let _ = fs::remove_dir_all(layers_dir.join(name));
    let _ = fs::remove_file(layers_dir.join(format!("{name}.toml")));
    for (_, suffix) in FORMATS {
        let _ = fs::remove_file(layers_dir.join(format!("{name}.sbom.{suffix}")));
    }
}

/// What the lifecycle leaves for the next build (see Layers.tla LifecycleRestore).
pub fn lifecycle_restore(u: &Universe, layers_dir: &Path, names: &[String]) {
    for name in names {
        let toml_path = layers_dir.join(format!("{name}.toml"));
        let t = project_toml(u, &toml_path);
        let has_dir = layers_dir.join(name).is_dir();
        if t.k == "ok" && t.ty.set && t.ty.cache && has_dir {
            strip_types(&toml_path);
        } else if t.k == "ok" && t.ty.set && t.ty.launch {
            remove_layer_except_toml(layers_dir, name);
            strip_types(&toml_path);
        } else {
            remove_layer_completely(layers_dir, name);
        }
    }
}

fn remove_layer_except_toml(layers_dir: &Path, name: &str) {
    let _ = fs::remove_dir_all(layers_dir.join(name));
    for (_, suffix) in FORMATS {
        let _ = fs::remove_file(layers_dir.join(format!("{name}.sbom.{suffix}")));
    }
}

fn strip_types(toml_path: &Path) {
    let text = fs::read_to_string(toml_path).expect("toml");
    let mut table: toml::Table = text.parse().expect("parse");
    table.remove("types");
    fs::write(toml_path, toml::to_string(&table).expect("ser")).unwrap();
}

// ---------------------------------------------------------------------------------------------
// direction A: one TLC transition = one test vector

#[derive(Deserialize, Serialize, Clone, Debug)]
pub struct Vector {
    pub pre: ALayer,
    pub inrefs: bool,
    pub post: ALayer,
    pub obs: AObs,
}

pub fn is_writer(act: &str) -> bool {
    matches!(act, "write_metadata" | "write_env" | "read_env" | "write_sboms" | "write_exec_d" | "write_file")
}

/// Runs one vector in a fresh directory below `scratch`. Returns a description of the first
/// disagreement, if any.
pub fn run_vector(u: &Universe, scratch: &Path, v: &Vector, bystander: &[(String, ALayer)]) -> Result<(), String> {
    let tmp = tempfile::tempdir_in(scratch).expect("tempdir");
    let layers_dir = tmp.path().join("layers");
    fs::create_dir_all(&layers_dir).unwrap();
    let ctx = build_context(&layers_dir);
    let name = &v.obs.n;

    // a LayerRef is only obtainable from a request; it is just (name, layers_dir), so get one first
    let lref = if is_writer(&v.obs.act) {
        let lname: LayerName = name.parse().unwrap();
        let r = ctx
            .uncached_layer(&lname, UncachedLayerDefinition { build: false, launch: false })
            .map_err(|e| format!("harness could not obtain a LayerRef: {e:?}"))?;
        remove_layer_completely(&layers_dir, name);
        Some(AnyRef::Uncached(r))
    } else {
        None
    };

    materialize(u, &layers_dir, name, &v.pre);
    for (bn, bl) in bystander {
        materialize(u, &layers_dir, bn, bl);
    }
    // self-check of the projection: what we wrote must project to what we meant
    let check = project(u, &layers_dir, name);
    let check = ALayer { sbom: restrict_sbom(&check.sbom, &v.pre.sbom)?, ..check };
    if check != v.pre {
        return Err(format!("HARNESS: materialize/project disagree: {:?} vs {:?}", v.pre, check));
    }
    let before: Vec<fsnap::Snap> = bystander.iter().map(|_| fsnap::snapshot(&layers_dir)).take(1).collect();

    let (ret, calls, _) = execute(u, &ctx, &v.obs, lref.as_ref());

    let mut problems = Vec::new();
    if ret != v.obs.ret {
        problems.push(format!("returned {:?}, specification says {:?}", ret, v.obs.ret));
    }
    if calls != v.obs.calls {
        problems.push(format!("callbacks {:?}, specification says {:?}", calls, v.obs.calls));
    }
    let post = project(u, &layers_dir, name);
    match restrict_sbom(&post.sbom, &v.post.sbom) {
        Ok(s) => {
            let post = ALayer { sbom: s, ..post };
            if post != v.post {
                problems.push(format!("layer afterwards {}, specification says {}", layer_diff(&post, &v.post), "see diff"));
            }
        }
        Err(e) => problems.push(e),
    }
    // frame: everything that does not belong to the target layer is byte-identical
    if let Some(b) = before.first() {
        let after = fsnap::snapshot(&layers_dir);
        let own = |k: &str| k == name || k.starts_with(&format!("{name}/")) || k == format!("{name}.toml") || k.starts_with(&format!("{name}.sbom."));
        let b2: fsnap::Snap = b.iter().filter(|(k, _)| !own(k) && !k.is_empty()).map(|(k, v)| (k.clone(), v.clone())).collect();
        let a2: fsnap::Snap = after.iter().filter(|(k, _)| !own(k) && !k.is_empty()).map(|(k, v)| (k.clone(), v.clone())).collect();
        let d = fsnap::diff(&b2, &a2);
        if !d.is_empty() {
            problems.push(format!("other layers changed: {d:?}"));
        }
    }
    if problems.is_empty() { Ok(()) } else { Err(problems.join("; ")) }
}

pub fn layer_diff(got: &ALayer, want: &ALayer) -> String {
    let g = serde_json::to_value(got).unwrap();
    let w = serde_json::to_value(want).unwrap();
    let mut d = Vec::new();
    for (k, gv) in g.as_object().unwrap() {
        if gv != &w[k] {
            d.push(format!("{k}: got {gv} want {}", w[k]));
        }
    }
    d.join(", ")
}

/// Signature of a vector for known-finding matching: action, pre-state class, decisions.
pub fn vector_signature(v: &Vector) -> String {
    let o = &v.obs;
    format!(
        "{} T={} pre[dir={} toml={} md={} sbom={}] ima={} rla={} strat={} mig={}",
        o.act,
        o.t,
        v.pre.dir,
        v.pre.toml.k,
        v.pre.toml.md.kind,
        v.pre.sbom.values().any(|t| t != "none"),
        o.ima.k,
        o.rla.k,
        o.strat.k,
        o.mig.k
    )
}

pub fn sample_json(v: &Vector) -> Value {
    json!({"act": v.obs.act, "n": v.obs.n, "T": v.obs.t, "pre": v.pre, "decisions": {"ima": v.obs.ima.k, "rla": v.obs.rla.k, "strat": v.obs.strat.k, "mig": v.obs.mig.k, "create": v.obs.cres.k, "update": v.obs.ures.k}, "expected_ret": v.obs.ret, "expected_post": v.post})
}
