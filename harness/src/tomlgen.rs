//! A small tagged value model for TOML documents, a seeded generator, and an emitter that is
//! independent of the `toml` crate (own quoting, several equivalent notations chosen by seed).
use serde_json::{json, Map, Value};

/// Tagged JSON: {"s": str} {"i": int} {"f": "<f64 bits>"} {"b": bool} {"d": "datetime"}
/// {"a": [..]} {"t": {k: ..}}
pub fn to_tagged(v: &toml::Value) -> Value {
    match v {
        toml::Value::String(s) => json!({"s": s}),
        toml::Value::Integer(i) => json!({"i": i}),
        toml::Value::Float(f) => json!({"f": format!("{}", f.to_bits())}),
        toml::Value::Boolean(b) => json!({"b": b}),
        toml::Value::Datetime(d) => json!({"d": d.to_string()}),
        toml::Value::Array(a) => json!({"a": a.iter().map(to_tagged).collect::<Vec<_>>()}),
        toml::Value::Table(t) => table_to_tagged(t),
    }
}
pub fn table_to_tagged(t: &toml::Table) -> Value {
    let mut m = Map::new();
    for (k, v) in t {
        m.insert(k.clone(), to_tagged(v));
    }
    json!({"t": m})
}

pub const STRINGS: [&str; 10] = ["", "plain", "with \"quotes\"", "back\\slash", "new\nline", "tab\there", "uni \u{e9}\u{4e16}\u{1f600}", "'single'", "ctrl \u{1}\u{7f}", "a = b # c"];
pub const KEYS: [&str; 8] = ["k", "key-1", "with space", "dotted.key", "\u{fc}ber", "", "quo\"te", "under_score"];

pub fn gen_value(r: &mut fastrand::Rng, depth: u32) -> Value {
    let top = if depth == 0 { 7 } else { 9 };
    match r.u32(..top) {
        0 | 1 => json!({"s": STRINGS[r.usize(..STRINGS.len())]}),
        2 => {
            let i = [0i64, 1, -1, 42, i64::MAX, i64::MIN, 255][r.usize(..7)];
            json!({"i": i})
        }
        3 => {
            let f = [1.5f64, -2.25, 1e10, 0.0, f64::INFINITY, 3.0][r.usize(..6)];
            json!({"f": format!("{}", f.to_bits())})
        }
        4 => json!({"b": r.bool()}),
        5 => {
            let d = ["1979-05-27T07:32:00Z", "1979-05-27T00:32:00-07:00", "1979-05-27T07:32:00", "1979-05-27", "07:32:00"][r.usize(..5)];
            json!({"d": d})
        }
        6 => json!({"s": STRINGS[r.usize(..STRINGS.len())]}),
        7 => json!({"a": (0..r.usize(0..4)).map(|_| gen_value(r, depth - 1)).collect::<Vec<_>>()}),
        _ => gen_table(r, depth - 1),
    }
}

pub fn gen_table(r: &mut fastrand::Rng, depth: u32) -> Value {
    let mut m = Map::new();
    for _ in 0..r.usize(0..4) {
        m.insert(KEYS[r.usize(..KEYS.len())].to_string(), gen_value(r, depth));
    }
    json!({"t": m})
}

fn basic_string(s: &str) -> String {
    let mut o = String::from("\"");
    for c in s.chars() {
        match c {
            '"' => o.push_str("\\\""),
            '\\' => o.push_str("\\\\"),
            '\n' => o.push_str("\\n"),
            '\t' => o.push_str("\\t"),
            '\r' => o.push_str("\\r"),
            c if (c as u32) < 0x20 || c as u32 == 0x7f => o.push_str(&format!("\\u{:04X}", c as u32)),
            c => o.push(c),
        }
    }
    o.push('"');
    o
}

fn emit_string(s: &str, style: u64) -> String {
    let has_ctrl = s.chars().any(|c| ((c as u32) < 0x20 && c != '\t') || c as u32 == 0x7f);
    match style % 3 {
        1 if !s.contains('\'') && !has_ctrl && !s.contains('\n') => format!("'{s}'"),
        2 if !s.contains("\"\"\"") && !has_ctrl_except_nl(s) && !s.contains('\\') && !s.ends_with('"') => format!("\"\"\"\n{s}\"\"\""),
        _ => basic_string(s),
    }
}
fn has_ctrl_except_nl(s: &str) -> bool {
    s.chars().any(|c| ((c as u32) < 0x20 && c != '\t' && c != '\n') || c as u32 == 0x7f)
}

pub fn emit_key(k: &str) -> String {
    if !k.is_empty() && k.chars().all(|c| c.is_ascii_alphanumeric() || c == '_' || c == '-') { k.to_string() } else { basic_string(k) }
}

/// Inline rendering of any value.
pub fn emit_inline(v: &Value, style: u64) -> String {
    let o = v.as_object().expect("tagged");
    let (tag, x) = o.iter().next().expect("tag");
    match tag.as_str() {
        "s" => emit_string(x.as_str().unwrap(), style),
        "i" => {
            let i = x.as_i64().unwrap();
            if style % 4 == 3 && i >= 0 { format!("0x{i:x}") } else { i.to_string() }
        }
        "f" => {
            let f = f64::from_bits(x.as_str().unwrap().parse().unwrap());
            if f.is_infinite() { if f > 0.0 { "inf".into() } else { "-inf".into() } } else if f.fract() == 0.0 && f.abs() < 1e15 { format!("{f:.1}") } else { format!("{f:e}") }
        }
        "b" => x.as_bool().unwrap().to_string(),
        "d" => x.as_str().unwrap().to_string(),
        "a" => format!("[{}]", x.as_array().unwrap().iter().map(|e| emit_inline(e, style / 3 + 1)).collect::<Vec<_>>().join(", ")),
        "t" => format!("{{ {} }}", x.as_object().unwrap().iter().map(|(k, e)| format!("{} = {}", emit_key(k), emit_inline(e, style / 3 + 2))).collect::<Vec<_>>().join(", ")),
        o => panic!("tag {o}"),
    }
}

/// Renders a table under the header path `path` (e.g. ["metadata"]); nested tables become
/// sub-headers or inline tables depending on `style`.
pub fn emit_table(path: &[String], t: &Value, style: u64, out: &mut String) {
    let m = t["t"].as_object().expect("table");
    if !path.is_empty() {
        out.push_str(&format!("[{}]\n", path.iter().map(|k| emit_key(k)).collect::<Vec<_>>().join(".")));
    }
    let mut later = vec![];
    for (i, (k, v)) in m.iter().enumerate() {
        let is_table = v.get("t").is_some();
        if is_table && (style + i as u64) % 2 == 0 {
            later.push((k, v));
        } else {
            out.push_str(&format!("{} = {}\n", emit_key(k), emit_inline(v, style + i as u64)));
        }
    }
    for (k, v) in later {
        let mut p = path.to_vec();
        p.push(k.clone());
        out.push('\n');
        emit_table(&p, v, style / 2 + 1, out);
    }
}
