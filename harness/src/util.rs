//! Shared plumbing: reading TLC output, parallel map, summaries.
use serde::Serialize;
use serde_json::Value;
use std::io::{BufRead, BufReader};
use std::path::Path;
use std::sync::atomic::{AtomicUsize, Ordering};
use std::sync::Mutex;

/// Extracts the JSON payloads TLC printed with `PrintT(<<tag, ToJson(..)>>)`.
/// A line looks like `<<"TR", "{\"a\":1}">>`.
pub fn read_tlc_tagged(path: &Path, tag: &str) -> Vec<Value> {
    let file = std::fs::File::open(path).unwrap_or_else(|e| panic!("open {path:?}: {e}"));
    let prefix = format!("<<\"{tag}\", \"");
    let mut out = Vec::new();
    for line in BufReader::new(file).lines() {
        let line = line.expect("read line");
        if let Some(rest) = line.strip_prefix(&prefix) {
            if let Some(body) = rest.strip_suffix("\">>") {
                let json = unescape_tla(body);
                match serde_json::from_str(&json) {
                    Ok(v) => out.push(v),
                    Err(e) => panic!("bad JSON from TLC: {e}: {json}"),
                }
            }
        }
    }
    out
}

pub fn unescape_tla(s: &str) -> String {
    let mut r = String::with_capacity(s.len());
    let mut it = s.chars();
    while let Some(c) = it.next() {
        if c == '\\' {
            match it.next() {
                Some('"') => r.push('"'),
                Some('\\') => r.push('\\'),
                Some('n') => r.push('\n'),
                Some('t') => r.push('\t'),
                Some(o) => {
                    r.push('\\');
                    r.push(o);
                }
                None => r.push('\\'),
            }
        } else {
            r.push(c);
        }
    }
    r
}

pub fn read_ndjson(path: &Path) -> Vec<Value> {
    let file = std::fs::File::open(path).unwrap_or_else(|e| panic!("open {path:?}: {e}"));
    BufReader::new(file)
        .lines()
        .map(|l| l.expect("line"))
        .filter(|l| !l.trim().is_empty())
        .map(|l| serde_json::from_str(&l).expect("ndjson"))
        .collect()
}

/// Runs `f` over all items on `threads` threads; results keep input order.
pub fn par_map<T: Sync, R: Send>(items: &[T], threads: usize, f: impl Fn(usize, &T) -> R + Sync) -> Vec<R> {
    let next = AtomicUsize::new(0);
    let results: Mutex<Vec<Option<R>>> = Mutex::new((0..items.len()).map(|_| None).collect());
    std::thread::scope(|s| {
        for _ in 0..threads.max(1) {
            s.spawn(|| {
                loop {
                    let i = next.fetch_add(1, Ordering::SeqCst);
                    if i >= items.len() {
                        break;
                    }
                    let r = f(i, &items[i]);
                    results.lock().unwrap()[i] = Some(r);
                }
            });
        }
    });
    results.into_inner().unwrap().into_iter().map(|r| r.expect("result")).collect()
}

pub fn threads() -> usize {
    std::env::var("VERIF_THREADS").ok().and_then(|s| s.parse().ok()).unwrap_or(16)
}

pub fn seed() -> u64 {
    std::env::var("VERIF_SEED").ok().and_then(|s| s.parse().ok()).unwrap_or(1)
}

/// One disagreement between the specification and the implementation.
#[derive(Serialize, Clone, Debug)]
pub struct Mismatch {
    /// canonical, run-independent description (used for known-findings matching)
    pub signature: String,
    pub detail: String,
    /// the case itself, re-runnable with --replay
    pub case: Value,
}

#[derive(Serialize, Default, Debug)]
pub struct Summary {
    pub evaluations: usize,
    pub distinct_nontrivial: usize,
    pub mismatches: Vec<Mismatch>,
    pub samples: Vec<Value>,
    pub extra: serde_json::Map<String, Value>,
}

impl Summary {
    pub fn print(&self) {
        // cap what is reported in full: a few cases per distinct signature, so that one frequent
        // signature (e.g. a known finding) can never crowd out a different one
        let mut s = serde_json::to_value(self).unwrap();
        if self.mismatches.len() > 50 {
            let mut per_sig: std::collections::BTreeMap<&str, usize> = std::collections::BTreeMap::new();
            let kept: Vec<&Mismatch> = self.mismatches.iter().filter(|m| { let c = per_sig.entry(m.signature.as_str()).or_insert(0); *c += 1; *c <= 3 }).take(600).collect();
            s["mismatches"] = serde_json::to_value(&kept).unwrap();
            s["mismatches_total"] = Value::from(self.mismatches.len());
        }
        println!("SUMMARY {}", serde_json::to_string(&s).unwrap());
    }
}

pub fn hex(bytes: &[u8]) -> String {
    bytes.iter().map(|b| format!("{b:02x}")).collect()
}
