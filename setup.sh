#!/bin/bash
# Build the verification framework from files on disk only (offline).
set -e
cd "$(dirname "$0")"
export CARGO_NET_OFFLINE=true
mkdir -p work evidence replays
chmod 1777 work 2>/dev/null || true
if [ -f tools/faultshim.c ]; then gcc -O2 -shared -fPIC -o tools/faultshim.so tools/faultshim.c -ldl; fi
(cd harness && cargo build 2>&1 | tail -3)
echo "setup done"
