----------------------------- MODULE LayerEnvMC -----------------------------
(* Bounded instances of LayerEnv: the exhaustive case enumerations for C04  *)
(* and C10 (evaluated as ASSUMEs, every case also printed as a test vector) *)
(* and the constants of the disk model for C03.                             *)
EXTENDS LayerEnv, IOUtils

CONSTANT Mode     \* which enumeration this run evaluates: "c04q" "c04t" "c10" "c03"

MCNames == <<"N1", "N2">>
MCProcs == {"web.x"}   \* (a dot is a legal character of a process type)
MCProcs3 == {"web.x", "web", "worker", "a b"}

-----------------------------------------------------------------------------
(* C04 *)

\* one delta on N1: any subset of the five behaviours, values tagged by delta and behaviour;
\* with ev the appended / prepended values are empty strings (a legal empty NAME.append file)
DeltaOnE(s, tag, bs, ev) ==
  { Entry(s, b, "N1", IF b = "delim" THEN <<tag \o ":">>
                      ELSE IF ev /\ b \in {"append", "prepend"} THEN <<>> ELSE <<tag \o b>>) : b \in bs }
DeltaOn(s, tag, bs) == DeltaOnE(s, tag, bs, FALSE)

\* what happens to the bystander variable N2
N2Variants(s) == { {}, {Entry("all", "override", "N2", <<"n2o">>)}, {Entry(s, "append", "N2", <<"n2a">>)} }

\* (the last two: a value that already ends with the delimiter one of the deltas will use)
Prevs == {Unset, Val(<<>>), Val(<<"p">>), Val(<<"p", "A:">>), Val(<<"p", "S:">>)}

C04Cases(allSubsets, ownSubsets, scopes) ==
  { [E |-> DeltaOnE("all", "A", ba, ev) \cup DeltaOnE(s, "S", bs, ev) \cup n2, prev |-> pv]
      : ev \in BOOLEAN, ba \in allSubsets, bs \in ownSubsets, s \in scopes, n2 \in UNION {N2Variants(x) : x \in scopes},
        pv \in Prevs }
  \* the scope's delta holding exactly the entries of the all-delta (same behaviours, same values): both count
  \cup { [E |-> DeltaOnE("all", "A", ba, ev) \cup DeltaOnE(s, "A", ba, ev), prev |-> pv]
      : ev \in BOOLEAN, ba \in allSubsets, s \in scopes, pv \in Prevs }

Env0(pv) == [n \in NameSet |-> IF n = "N1" THEN pv ELSE Val(<<"z">>)]

C04Check(c) ==
  \A q \in QueryScopes :
    LET impl == Apply(c.E, q, NoPaths, Env0(c.prev))
        law  == LawApply(c.E, q, NoPaths, Env0(c.prev))
    IN  /\ impl = law
        \* frame: a variable without entries in the deltas that count is unchanged
        /\ \A n \in NameSet :
             (~\E e \in c.E : e.name = n /\ e.scope \in {"all", q}) => impl[n] = Env0(c.prev)[n]

C04Vector(c) ==
  [E |-> c.E, env0 |-> Env0(c.prev),
   results |-> [q \in QueryScopes |-> Apply(c.E, q, NoPaths, Env0(c.prev))]]

C04Run(allSubsets, ownSubsets, scopes) ==
  \A c \in C04Cases(allSubsets, ownSubsets, scopes) :
    /\ WellFormed(c.E)
    /\ C04Check(c)
    /\ (EmitTR => PrintT(<<"V4", ToJson(C04Vector(c))>>))

\* single-entry laws, exactly as the property states them
SingleLaws ==
  \A s \in {"all", "build"}, pv \in Prevs :
    LET env0 == Env0(pv)
        R(b, E) == Apply(E, "build", NoPaths, env0)["N1"]
        d == Entry(s, "delim", "N1", <<":">>)
    IN  /\ R("o", {Entry(s, "override", "N1", <<"x">>)}) = Val(<<"x">>)
        /\ R("d", {Entry(s, "default", "N1", <<"x">>)}) = (IF pv.set THEN pv ELSE Val(<<"x">>))
        /\ R("a", {Entry(s, "append", "N1", <<"x">>), d}) =
             (IF pv.set /\ pv.v # <<>> THEN Val(pv.v \o <<":">> \o <<"x">>) ELSE Val(<<"x">>))
        /\ R("p", {Entry(s, "prepend", "N1", <<"x">>), d}) =
             (IF pv.set /\ pv.v # <<>> THEN Val(<<"x">> \o <<":">> \o pv.v) ELSE Val(<<"x">>))
        \* without a delimiter entry the parts are joined directly
        /\ R("a", {Entry(s, "append", "N1", <<"x">>)}) =
             (IF pv.set /\ pv.v # <<>> THEN Val(pv.v \o <<"x">>) ELSE Val(<<"x">>))
        \* the delimiter of another scope's delta is not used
        /\ R("a", {Entry("build", "append", "N1", <<"x">>), Entry("all", "delim", "N1", <<":">>)}) =
             (IF pv.set /\ pv.v # <<>> THEN Val(pv.v \o <<"x">>) ELSE Val(<<"x">>))
        \* entries of other scopes have no effect
        /\ R("x", {Entry("launch", "override", "N1", <<"x">>), Entry("process:web.x", "override", "N1", <<"y">>)}) = pv

AllBehSubsets == SUBSET BehSet
\* quick: every subset for the scope delta, the all-delta restricted to <= 2 behaviours
SmallBehSubsets == {b \in SUBSET BehSet : Cardinality(b) <= 2}

-----------------------------------------------------------------------------
(* C10 *)

PathVarSeq == <<"PATH", "LIBRARY_PATH", "LD_LIBRARY_PATH", "CPATH", "PKG_CONFIG_PATH">>
PathVars == {PathVarSeq[i] : i \in DOMAIN PathVarSeq}

\* explicit entries the layer may also have on the same variables
Explicit(x) ==
  CASE x = "none"     -> {}
    [] x = "append"   -> {Entry("all", "append", v, <<"xa">>) : v \in PathVars}
                         \cup {Entry("all", "delim", v, <<";">>) : v \in PathVars}
    [] x = "override" -> {Entry("build", "override", v, <<"xo">>) : v \in PathVars}
                         \cup {Entry("launch", "override", v, <<"xl">>) : v \in PathVars}

\* starting environment: the variables unset, set, set to the empty string, or already starting with
\* the very directory the layer is going to contribute ("self": it is prepended all the same)
C10DirOf(var) == CASE var = "PATH" -> "bin" [] var \in {"LIBRARY_PATH", "LD_LIBRARY_PATH"} -> "lib"
                   [] var = "CPATH" -> "include" [] OTHER -> "pkgconfig"
C10Env0(has) == [v \in PathVars |-> CASE has = "set" -> Val(<<"/usr">>) [] has = "empty" -> Val(<<>>)
                                       [] has = "self" -> Val(<<"@", C10DirOf(v), ":", "/usr">>) [] OTHER -> Unset]

\* the property, per variable: prepended with ":" exactly when the directory counts
C10Law(kinds, q, var, cur) ==
  LET dirOf == CASE var = "PATH" -> "bin" [] var \in {"LIBRARY_PATH", "LD_LIBRARY_PATH"} -> "lib"
                 [] var = "CPATH" -> "include" [] OTHER -> "pkgconfig"
      counts == /\ IsDir(kinds[dirOf])
                /\ \/ q = "build"
                   \/ (q = "launch" /\ var \in {"PATH", "LD_LIBRARY_PATH"})
  IN IF ~counts THEN cur
     ELSE Val(IF cur.set /\ cur.v # <<>> THEN <<"@", dirOf>> \o <<":">> \o cur.v ELSE <<"@", dirOf>>)

\* (in mode "c10" the configuration sets Names <- PathVarSeq)
C10Check(kinds, x, has) ==
  \A q \in QueryScopes, var \in PathVars :
    LET explicitOnly == Apply(Explicit(x), q, NoPaths, C10Env0(has))
        full         == Apply(Explicit(x), q, LayerPaths(kinds), C10Env0(has))
    IN  full[var] = C10Law(kinds, q, var, explicitOnly[var])

C10Vector(kinds, x, has) ==
  [kinds |-> kinds, explicit |-> x, E |-> Explicit(x), env0 |-> C10Env0(has),
   results |-> [q \in QueryScopes |-> Apply(Explicit(x), q, LayerPaths(kinds), C10Env0(has))]]

C10Run(kindSet) ==
  \A kinds \in [PathDirs -> kindSet], x \in {"none", "append", "override"}, has \in {"unset", "set", "empty", "self"} :
    /\ C10Check(kinds, x, has)
    /\ (EmitTR => PrintT(<<"V10", ToJson(C10Vector(kinds, x, has))>>))

-----------------------------------------------------------------------------
(* C03: environments written by the disk model and foreign files *)

Singles(scopes, behs, names) == { {Entry(s, b, n, <<"v1">>)} : s \in scopes, b \in behs, n \in names }

MCEnvSetQuick ==
  {{}} \cup Singles(Scopes, BehSet, {"N1"})
  \cup { {Entry("all", "append", "N1", <<"v1">>), Entry("all", "delim", "N1", <<"v2">>)},
         {Entry("launch", "override", "N1", <<"v1">>), Entry("process:web.x", "override", "N1", <<"v2">>)},
         {Entry("process:web.x", "prepend", "N2", <<>>)},
         {Entry("build", "default", "N2", <<"v2">>), Entry("build", "default", "N1", <<"v1">>),
          Entry("all", "override", "N2", <<>>)} }

MCEnvSetThorough ==
  MCEnvSetQuick \cup Singles(Scopes, BehSet, {"N2"})
  \cup { a \cup b : a \in Singles({"all", "process:web.x"}, BehSet, {"N1"}),
                    b \in Singles({"launch", "process:web.x"}, {"append", "override"}, {"N2"}) }

MCForeign ==
  { File("env", "N1", "", <<"v2">>, FALSE),            \* suffix-less = override
    File("env.build", "N2", "bogus", <<"v2">>, FALSE),  \* unknown suffix: ignored
    File("env.launch/web.x", "N2", "", <<"v1">>, FALSE),
    File("env.launch/other", "N1", "append", <<"v1">>, FALSE),  \* a process libcnb did not write
    File("env", "N2", "override", <<"v1">>, TRUE),     \* inside env/sub/: ignored
    File("env.launch/web.x", "N1", "default", <<"v2">>, TRUE) }

MCEmptySet == {}
\* bound on foreign clutter explored by the disk model
FewFiles == Cardinality(disk) <= 4

-----------------------------------------------------------------------------
(* Direction B: the specification as executable oracle for recorded calls.  *)
(* Every line of the trace is one real apply / write+read+apply with its    *)
(* observed result; TLC evaluates Apply on the logged input.                *)
TraceNames == <<"N0", "N1", "N2", "N3", "N4", "N5", "N6", "N7", "N8", "N9">>
TraceRec == ndJsonDeserialize(IOEnv.TRACE)
SeqToSet(s) == {s[i] : i \in DOMAIN s}
TraceCheck ==
  \A i \in DOMAIN TraceRec :
    LET r == TraceRec[i]
        want == Apply(SeqToSet(r.E), r.q, NoPaths, r.env0)
    IN  \/ \A n \in NameSet : want[n] = r.result[n]
        \/ (PrintT(<<"TRACE_MISMATCH", i>>) /\ FALSE)

ASSUME
  CASE Mode = "c04q" -> SingleLaws /\ C04Run(SmallBehSubsets, AllBehSubsets, {"build", "launch", "process:web.x"})
    [] Mode = "c04t" -> SingleLaws /\ C04Run(AllBehSubsets, AllBehSubsets, {"build", "launch", "process:web.x"})
    [] Mode = "c10"  -> C10Run(PathKinds)
    [] Mode = "trace" -> TraceCheck
    [] OTHER -> TRUE
=============================================================================
