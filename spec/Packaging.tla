----------------------------- MODULE Packaging -----------------------------
(***************************************************************************)
(* libcnb-package / cargo libcnb package:                                  *)
(*   C13  build order over the buildpack dependency graph                  *)
(*   C14  normalisation of a composite buildpack's package.toml            *)
(*   (C15, the pipeline over a persistent output directory, is in          *)
(*    PackagingPipeline.tla)                                               *)
(***************************************************************************)
EXTENDS TLC, Json, IOUtils, Sequences, FiniteSets, Naturals

CONSTANTS Nodes,     \* buildpack ids of the dependency graphs explored
          Mode,      \* which part this run evaluates / emits
          EmitTR

SeqSet(s) == {s[i] : i \in DOMAIN s}

-----------------------------------------------------------------------------
(* C13: dependency graphs.  deps[n] = direct dependencies of n.            *)

Graphs == [Nodes -> SUBSET Nodes]
RECURSIVE ReachFrom(_, _, _)
ReachFrom(g, todo, seen) ==
  IF todo = {} THEN seen
  ELSE LET n == CHOOSE x \in todo : TRUE
       IN  ReachFrom(g, (todo \cup g[n]) \ (seen \cup {n}), seen \cup {n})
Reach(g, roots) == ReachFrom(g, roots, {})
Acyclic(g) == \A n \in Nodes : n \notin Reach(g, g[n])

\* ordered, duplicate-free, non-empty root selections
RootSeqs == {s \in UNION {[1..k -> Nodes] : k \in 1..Cardinality(Nodes)} :
               \A i, j \in DOMAIN s : i # j => s[i] # s[j]}

\* the property as a predicate on a finished order
ValidOrder(g, roots, order) ==
  /\ \A i, j \in DOMAIN order : i # j => order[i] # order[j]               \* each once
  /\ SeqSet(order) = Reach(g, SeqSet(roots))                               \* exactly the closure
  /\ \A i \in DOMAIN order : g[order[i]] \subseteq {order[j] : j \in 1..(i - 1)}  \* deps first

\* the abstract machine: emit any node of the closure whose dependencies have been emitted
VARIABLES g, roots, emitted
gvars == <<g, roots, emitted>>

GInit == /\ g \in {x \in Graphs : Acyclic(x)} /\ roots \in RootSeqs /\ emitted = <<>>
Emit(n) == /\ n \in Reach(g, SeqSet(roots)) \ SeqSet(emitted)
           /\ g[n] \subseteq SeqSet(emitted)
           /\ emitted' = Append(emitted, n)
           /\ UNCHANGED <<g, roots>>
GNext == \E n \in Nodes : Emit(n)
GSpec == GInit /\ [][GNext]_gvars

\* a one-state behaviour for the configurations that only evaluate an ASSUME (laws, case emission, traces)
DSpec == /\ g = [n \in Nodes |-> {}] /\ roots = <<CHOOSE n \in Nodes : TRUE>> /\ emitted = <<>>
         /\ [][UNCHANGED gvars]_gvars

GDone == ~ENABLED GNext
\* every complete behaviour of the machine is a valid order (and it never gets stuck early:
\* a DAG always has an emittable node until the closure is exhausted)
MachineSound == GDone => ValidOrder(g, roots, emitted)
NeverEarly == \A i \in DOMAIN emitted : g[emitted[i]] \subseteq {emitted[j] : j \in 1..(i - 1)}

\* implementation-shaped: petgraph's DfsPostOrder with discovered/finished kept across
\* move_to(root) (libcnb-package/src/dependency_graph.rs get_dependencies); neighbours are
\* visited in the order given by the sequence `pref` (any fixed total order)
RECURSIVE Dfs(_, _, _, _)
Dfs(gr, n, pref, st) ==     \* st = [seen, out]
  IF n \in st.seen THEN st
  ELSE LET st1 == [st EXCEPT !.seen = @ \cup {n}]
           f[k \in 0..Len(pref)] ==
             IF k = 0 THEN st1
             ELSE IF pref[k] \in gr[n] THEN Dfs(gr, pref[k], pref, f[k - 1]) ELSE f[k - 1]
           st2 == f[Len(pref)]
       IN  [st2 EXCEPT !.out = Append(@, n)]
DfsOrder(gr, rs, pref) ==
  LET f[k \in 0..Len(rs)] == IF k = 0 THEN [seen |-> {}, out |-> <<>>]
                              ELSE Dfs(gr, rs[k], pref, f[k - 1])
  IN  f[Len(rs)].out

NodeSeqs == {s \in [1..Cardinality(Nodes) -> Nodes] : \A i, j \in DOMAIN s : i # j => s[i] # s[j]}
DfsRefines == \A gr \in {x \in Graphs : Acyclic(x)}, rs \in RootSeqs, pref \in NodeSeqs :
                ValidOrder(gr, rs, DfsOrder(gr, rs, pref))

GraphCases == \A gr \in {x \in Graphs : Acyclic(x)} :
                PrintT(<<"GV", ToJson([deps |-> gr])>>)

-----------------------------------------------------------------------------
(* C14: lexical path absolutisation (libcnb-package/src/util.rs)           *)

\* a relative path = sequence of segments over {"a", "b", ".", "..", ""}; "" is a redundant
\* separator.  parent = sequence of normal segments of the directory holding package.toml.

\* implementation-shaped: push / pop left to right; pop at the root is a no-op
ImplNormalize(parent, segs) ==
  LET all == parent \o segs
      f[k \in 0..Len(all)] ==
        IF k = 0 THEN <<>>
        ELSE CASE all[k] \in {".", ""} -> f[k - 1]
               [] all[k] = ".." -> IF f[k - 1] = <<>> THEN <<>> ELSE SubSeq(f[k - 1], 1, Len(f[k - 1]) - 1)
               [] OTHER -> Append(f[k - 1], all[k])
  IN  f[Len(all)]

\* POSIX lexical resolution, written right to left: a segment survives iff the number of
\* ".." to its right exceeds... i.e. it is not cancelled by a later ".."
DeclNormalize(parent, segs) ==
  LET all == parent \o segs
      \* h[k] = <<result of all[k..], pending>>  where pending = number of ".." still to cancel
      h[k \in 1..(Len(all) + 1)] ==
        IF k = Len(all) + 1 THEN [res |-> <<>>, pend |-> 0]
        ELSE LET r == h[k + 1] IN
             CASE all[k] \in {".", ""} -> r
               [] all[k] = ".." -> [r EXCEPT !.pend = @ + 1]
               [] OTHER -> IF r.pend > 0 THEN [r EXCEPT !.pend = @ - 1]
                           ELSE [r EXCEPT !.res = <<all[k]>> \o @]
  IN  h[1].res       \* ".." left over at the front climb above the root: dropped

Segs == {"a", "b", ".", "..", ""}
PathsUpTo(n) == UNION {[1..k -> Segs] : k \in 0..n}
Parents == {<<>>, <<"w">>, <<"w", "c">>}

PathLaw(maxlen) ==
  \A p \in PathsUpTo(maxlen), par \in Parents : ImplNormalize(par, p) = DeclNormalize(par, p)
PathCases(maxlen) ==
  \A p \in PathsUpTo(maxlen) : PrintT(<<"PV", ToJson([segs |-> p])>>)

\* dependency kinds of a package.toml and what normalisation does to each
\* libcnb-invalid: a libcnb: reference whose id is not a buildpack id at all (it cannot have a location either)
DepKinds == {"libcnb-known", "libcnb-unknown", "libcnb-invalid", "relative", "absolute", "docker", "https", "urn"}
DepLists(n) == UNION {[1..k -> DepKinds] : k \in 0..n}
\* expected: "error" when any libcnb: id has no packaged location; otherwise per position
NormKind(k) == CASE k = "libcnb-known" -> "packaged-path" [] k = "relative" -> "absolutised"
                 [] OTHER -> "verbatim"
ExpectedDeps(ds) ==
  IF \E i \in DOMAIN ds : ds[i] \in {"libcnb-unknown", "libcnb-invalid"} THEN [ok |-> FALSE, out |-> <<>>]
  ELSE [ok |-> TRUE, out |-> [i \in DOMAIN ds |-> NormKind(ds[i])]]
DepCases(n) ==
  \A ds \in DepLists(n) :
    /\ (ExpectedDeps(ds).ok => Len(ExpectedDeps(ds).out) = Len(ds))     \* count and order preserved
    /\ PrintT(<<"DV", ToJson([deps |-> ds, expect |-> ExpectedDeps(ds)])>>)

-----------------------------------------------------------------------------
(* C15 / C13: which buildpacks `cargo libcnb package` selects (libcnb-cargo/src/package/      *)
(* command.rs).  The directory the command runs in decides: a buildpack's own directory      *)
(* selects that buildpack, the workspace root selects every buildpack, anything else selects *)
(* nothing (an error).  Buildpack directories may be nested in one another and the workspace *)
(* root may itself be a buildpack.  Written = the selection and everything it depends on;    *)
(* printed on stdout = the selection only.                                                   *)

CmdDirs == {"", "d1", "d2", "d1/in"}            \* "" = the workspace root
CmdCwds == CmdDirs \cup {"docs"}                \* docs: a directory that is no buildpack
Placements == {pl \in [Nodes -> CmdDirs] : \A a, b \in Nodes : a # b => pl[a] # pl[b]}

\* implementation-shaped: first node whose path equals cwd, else all nodes when cwd is the root
ImplSelected(pl, cwd) ==
  IF \E n \in Nodes : pl[n] = cwd THEN {CHOOSE n \in Nodes : pl[n] = cwd}
  ELSE IF cwd = "" THEN Nodes ELSE {}
\* declarative
Selected(pl, cwd) == LET here == {n \in Nodes : pl[n] = cwd} IN
                     IF here # {} THEN here ELSE IF cwd = "" THEN Nodes ELSE {}
IsPrefixDir(a, b) == a = "" \/ a = b \/ (a = "d1" /\ b = "d1/in")

CommandLaw ==
  \A gr \in {x \in Graphs : Acyclic(x)}, pl \in Placements, cwd \in CmdCwds :
    LET sel == Selected(pl, cwd)  written == Reach(gr, sel) IN
    /\ ImplSelected(pl, cwd) = sel
    /\ Cardinality(sel) <= 1 \/ (cwd = "" /\ sel = Nodes)
    \* a directory selects the buildpack that lives exactly there, never one of an enclosing directory
    /\ \A n \in sel : cwd = "" \/ pl[n] = cwd
    /\ sel \subseteq written
    /\ (EmitTR => PrintT(<<"CV", ToJson([deps |-> gr, place |-> pl, cwd |-> cwd, selected |-> sel, written |-> written])>>))

-----------------------------------------------------------------------------
(* Direction B: orders / normalised paths recorded from the real code, validated here *)

TraceRec == ndJsonDeserialize(IOEnv.TRACE)
RecGraph(r) == [n \in DOMAIN r.deps |-> SeqSet(r.deps[n])]
GReach(gr, rs) == ReachFrom(gr, rs, {})    \* over the record's own node set
GValid(gr, rs, order) ==
  /\ \A i, j \in DOMAIN order : i # j => order[i] # order[j]
  /\ SeqSet(order) = GReach(gr, SeqSet(rs))
  /\ \A i \in DOMAIN order : gr[order[i]] \subseteq {order[j] : j \in 1..(i - 1)}
\* a prefix of a behaviour of the emit machine (NeverEarly, inside the closure, each once)
GPrefix(gr, rs, order) ==
  /\ \A i, j \in DOMAIN order : i # j => order[i] # order[j]
  /\ SeqSet(order) \subseteq GReach(gr, SeqSet(rs))
  /\ \A i \in DOMAIN order : gr[order[i]] \subseteq {order[j] : j \in 1..(i - 1)}
TraceCheck ==
  \A i \in DOMAIN TraceRec :
    LET r == TraceRec[i] IN
    \/ CASE r.kind = "order" -> r.ok /\ GValid(RecGraph(r), r.roots, r.order)
         [] r.kind = "order-prefix" -> GPrefix(RecGraph(r), r.roots, r.order)   \* a run that stopped part-way
         [] r.kind = "dangling" -> ~r.ok                 \* unknown dependency: an error, never dropped
         [] r.kind = "path" -> r.result = DeclNormalize(r.parent, r.segs)
         [] OTHER -> FALSE
    \/ (PrintT(<<"TRACE_MISMATCH", i>>) /\ FALSE)

ASSUME
  CASE Mode = "graph-law"   -> DfsRefines
    [] Mode = "graph-cases" -> GraphCases
    [] Mode = "path-q" -> PathLaw(4) /\ PathCases(4) /\ DepCases(2)
    [] Mode = "path-t" -> PathLaw(7) /\ PathCases(6) /\ DepCases(4)
    [] Mode = "command" -> CommandLaw
    [] Mode = "trace" -> TraceCheck
    [] OTHER -> TRUE
=============================================================================
