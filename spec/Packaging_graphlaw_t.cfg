SPECIFICATION DSpec
CONSTANTS
  Nodes = {"n1","n2","n3","n4"}
  Mode = "graph-law"
  EmitTR = TRUE
CHECK_DEADLOCK FALSE
