SPECIFICATION Spec
CONSTANTS
  Wipe = TRUE
  MaxRefs = 3
  EmitTR = TRUE
CHECK_DEADLOCK FALSE
INVARIANTS NeverFails ArgsFaithful DepsFirst
