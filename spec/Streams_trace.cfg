SPECIFICATION Spec
CONSTANTS
  Cap = 1
  Scripts <- MCBadForSequential
  Sequential = FALSE
  Mode = "trace"
  EmitTR = FALSE
CHECK_DEADLOCK FALSE
