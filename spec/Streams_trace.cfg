SPECIFICATION Spec
CONSTANTS
  Cap = 1
  Scripts <- MCBadForSequential
  Sequential = FALSE
  Mode = "trace"
  EmitTR = FALSE
  Api = "output"
  WCaps = {3}
  WriteAll = TRUE
  SpawnWaits = FALSE
CHECK_DEADLOCK FALSE
