SPECIFICATION DSpec
CONSTANTS
  Nodes = {"n1"}
  Mode = "trace"
  EmitTR = TRUE
CHECK_DEADLOCK FALSE
