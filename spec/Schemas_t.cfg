SPECIFICATION Spec
CONSTANTS
  EmitTR = TRUE
  Pairs = TRUE
CHECK_DEADLOCK FALSE
