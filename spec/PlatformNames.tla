--------------------------- MODULE PlatformNames ---------------------------
(***************************************************************************)
(* Extension X05 (not one of the listed properties): the names of the      *)
(* operating systems and architectures of an inventory artifact            *)
(* (libherokubuildpack::inventory::artifact::{Os, Arch}).                  *)
(*                                                                         *)
(* A value has one canonical name (what Display and the TOML rendering     *)
(* write) and possibly aliases that FromStr accepts as well (uname / Rust  *)
(* spellings).  The TOML reading (serde) accepts canonical names only.     *)
(* TLC checks the laws that make rendering and parsing agree - every       *)
(* canonical name parses back to its value under both readers, no alias    *)
(* is another value's name, parsing is a function - and prints every       *)
(* (kind, string) case over the names, aliases and near misses for replay  *)
(* against the real FromStr / Display / Deserialize / Serialize.           *)
(***************************************************************************)
EXTENDS TLC, Json, Sequences, FiniteSets, Naturals

CONSTANTS EmitTR

Kinds == {"os", "arch"}
Values(kind) == IF kind = "os" THEN {"darwin", "linux"} ELSE {"amd64", "arm64"}
\* alias |-> value
Aliases(kind) ==
  IF kind = "os" THEN {<<"osx", "darwin">>}
  ELSE {<<"x86_64", "amd64">>, <<"aarch64", "arm64">>}
AliasNames(kind) == { a[1] : a \in Aliases(kind) }

\* strings that must be refused: other spellings, case, padding, the other kind's names
NearMisses ==
  {"", " ", "Linux", "LINUX", "Darwin", "OSX", "macos", "windows", " linux", "linux ", "linux\n",
   "AMD64", "Amd64", "x86-64", "x86", "i386", "arm", "arm64e", "armv7", "aarch64_be", "amd64 ",
   "ARM64", "x64", "osx64", "darwin,linux", "*", "any"}
Strings == UNION { Values(k) \cup AliasNames(k) : k \in Kinds } \cup NearMisses

None == "<none>"

\* Display / Serialize: the canonical name is the value itself
Display(kind, v) == v

\* FromStr: canonical names and aliases
Parse(kind, s) ==
  IF s \in Values(kind) THEN s
  ELSE IF s \in AliasNames(kind) THEN (CHOOSE a \in Aliases(kind) : a[1] = s)[2]
  ELSE None

\* Deserialize (TOML, JSON): canonical names only
Decode(kind, s) == IF s \in Values(kind) THEN s ELSE None

Refusal(kind, s) == (IF kind = "os" THEN "OS is not supported: " ELSE "Arch is not supported: ") \o s

Laws ==
  \A kind \in Kinds :
    /\ None \notin Values(kind)
    \* rendering then reading gives the value back, under both readers
    /\ \A v \in Values(kind) : Parse(kind, Display(kind, v)) = v /\ Decode(kind, Display(kind, v)) = v
    \* an alias names exactly one value and is nobody's canonical name (of either kind)
    /\ \A a \in Aliases(kind) : a[2] \in Values(kind) /\ a[1] \notin UNION { Values(k) : k \in Kinds }
    /\ \A a, b \in Aliases(kind) : a[1] = b[1] => a = b
    \* whatever Decode accepts Parse accepts, with the same value
    /\ \A s \in Strings : Decode(kind, s) # None => Parse(kind, s) = Decode(kind, s)
    \* every value is reachable, and the two kinds share no accepted string
    /\ { Parse(kind, s) : s \in Strings } \ {None} = Values(kind)
    /\ \A s \in Strings : \A k2 \in Kinds \ {kind} : ~(Parse(kind, s) # None /\ Parse(k2, s) # None)
    /\ \A s \in NearMisses : Parse(kind, s) = None

Cases ==
  \A kind \in Kinds, s \in Strings :
    EmitTR => PrintT(<<"PN", ToJson([kind |-> kind, s |-> s, parse |-> Parse(kind, s), decode |-> Decode(kind, s),
                                     refusal |-> Refusal(kind, s)])>>)

ASSUME Laws /\ Cases

VARIABLE dummy
Spec == dummy = 0 /\ [][UNCHANGED dummy]_dummy
=============================================================================
