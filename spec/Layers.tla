------------------------------- MODULE Layers -------------------------------
(***************************************************************************)
(* The <layers> directory of one buildpack over a history of builds.       *)
(*                                                                         *)
(* One action per public libcnb call (struct API: cached_layer,            *)
(* uncached_layer and the LayerRef writers; trait API: handle_layer with   *)
(* its callbacks) plus the environment (lifecycle cache restore, lost      *)
(* cache, foreign garbage).  The operators mirror the helper functions of  *)
(* libcnb/src/layer/shared.rs, struct_api/handling.rs and                  *)
(* trait_api/handling.rs so that a change to the code has an obvious place *)
(* here.  The listed properties C01 / C02 are restated declaratively at    *)
(* the end (they do not refer to the operators that build the actions).    *)
(*                                                                         *)
(* Values are tokens; the harness owns token <-> bytes maps.               *)
(***************************************************************************)
EXTENDS TLC, Json, Sequences, FiniteSets, Naturals

CONSTANTS Names,      \* layer names
          FileTok,    \* plain files a buildpack puts into a layer
          EnvTok,     \* non-empty layer environments ("none" = empty env)
          ExecTok,    \* exec.d program names
          MissingExec, \* the ones among them whose source file does not exist (struct API: write_exec_d fails)
          SbomTok,    \* SBOM payloads ("none" = no file)
          Formats,    \* SBOM formats
          MdVals,     \* payload tokens of metadata values
          Causes,     \* cause tokens callbacks may attach
          Flags,      \* set of <<build, launch>> pairs explored (struct API)
          TraitTypes, \* set of <<build, launch, cache>> triples explored (trait API)
          Shapes,     \* result shapes trait callbacks return (records, see MC)
          EmitTR      \* TRUE: print every generated transition as JSON

VARIABLES L,     \* [Names -> Layer]  the file system below <layers>
          refs,  \* SUBSET Names      LayerRefs handed out during this build
          last   \* observation of the last call (action, args, result, callbacks)

vars == <<L, refs, last>>

-----------------------------------------------------------------------------
(* Data *)

MdTypes == {"A", "B", "G", "L"}     \* metadata types a buildpack may request
           \* A, B: strict types (deny_unknown_fields); G: GenericMetadata; L: a lenient type with the
           \* field of A that ignores keys it does not know
NoMd    == [kind |-> "none", v |-> "-"]
Md(k,v) == [kind |-> k, v |-> v]
AllMd   == {NoMd} \cup {Md(k, v) : k \in {"A", "B", "X", "AX"}, v \in MdVals}
           \* kind X: a table that parses neither as A nor as B;  AX: A's field plus a key no type knows
MdOf(T) == IF T = "G" THEN AllMd ELSE IF T = "L" THEN {Md("A", v) : v \in MdVals} ELSE {Md(T, v) : v \in MdVals}
MdParses(md, T) == T = "G" \/ md.kind = T \/ (T = "L" /\ md.kind \in {"A", "AX"})
\* the typed value a buildpack sees of the stored table (a lenient type drops what it does not know)
TypedView(md, T) == IF T = "L" /\ md.kind = "AX" THEN Md("A", md.v) ELSE md

NoTy     == [set |-> FALSE, build |-> FALSE, launch |-> FALSE, cache |-> FALSE]
Ty(b,l,c)== [set |-> TRUE,  build |-> b, launch |-> l, cache |-> c]

TomlAbsent  == [k |-> "absent",  ty |-> NoTy, md |-> NoMd]
TomlGarbage == [k |-> "garbage", ty |-> NoTy, md |-> NoMd]
TomlOk(t,m) == [k |-> "ok", ty |-> t, md |-> m]
TomlEmpty   == TomlOk(NoTy, NoMd)       \* an empty file

NoSbom  == [f \in Formats |-> "none"]
NoLayer == [dir |-> FALSE, files |-> {}, env |-> "none", execd |-> {},
            sbom |-> NoSbom, toml |-> TomlAbsent]

-----------------------------------------------------------------------------
(* Operators mirroring libcnb/src/layer/shared.rs *)

\* read_layer::<M>: result kind and the layer as normalised by the read itself
ReadLayer(l, T) ==
  IF ~l.dir /\ l.toml.k = "absent" THEN [out |-> "None", l |-> l]
  ELSE IF ~l.dir THEN [out |-> "None", l |-> [l EXCEPT !.toml = TomlAbsent]]
  ELSE LET l1 == IF l.toml.k = "absent" THEN [l EXCEPT !.toml = TomlEmpty] ELSE l
       IN  IF l1.toml.k = "garbage" THEN [out |-> "ParseErr", l |-> l1]
           ELSE IF MdParses(l1.toml.md, T) THEN [out |-> "Some", l |-> l1]
           ELSE [out |-> "ParseErr", l |-> l1]

\* delete_layer: directory, content metadata and the layer's SBOM files
DeleteLayer(l) == [NoLayer EXCEPT !.sbom = NoSbom]

\* shared::write_layer / struct create_layer
CreateLayer(l, ty) == [l EXCEPT !.dir = TRUE, !.toml = TomlOk(ty, NoMd)]
ReplaceTypes(l, ty) == [l EXCEPT !.toml.ty = ty]
ReplaceMetadata(l, md) == [l EXCEPT !.toml.md = md]

-----------------------------------------------------------------------------
(* Results and observations *)

NoDec == [k |-> "unused", c |-> "-", md |-> NoMd]
Dec(k, c, md) == [k |-> k, c |-> c, md |-> md]

Ret(ok, kind, cause, c, md, env) ==
  [ok |-> ok, kind |-> kind, cause |-> cause, c |-> c, md |-> md, env |-> env, ty |-> NoTy]
RetRestored(c)        == Ret(TRUE,  "Restored", "-", c, NoMd, "none")
RetEmpty(cause, c)    == Ret(TRUE,  "Empty", cause, c, NoMd, "none")
\* LayerData as returned by handle_layer: metadata, env and the layer types as read back
RetData(md, env, ty)  == [Ret(TRUE,  "Data", "-", "-", md, env) EXCEPT !.ty = ty]
RetUnit               == Ret(TRUE,  "Unit", "-", "-", NoMd, "none")
RetEnv(env)           == Ret(TRUE,  "Env", "-", "-", NoMd, env)
RetErrBuildpack       == Ret(FALSE, "ErrBuildpack", "-", "-", NoMd, "none")
RetErrLayer           == Ret(FALSE, "ErrLayer", "-", "-", NoMd, "none")

Call(cb, md, env, empty) == [cb |-> cb, md |-> md, env |-> env, empty |-> empty]

NoShape == [env |-> "none", execd |-> {}, sbom |-> NoSbom, files |-> {}]
NoRes   == [k |-> "unused", md |-> NoMd, shape |-> NoShape]

Obs(act, n, ty, T, ima, rla, strat, mig, cres, ures, arg, ret, calls) ==
  [act |-> act, n |-> n, ty |-> ty, T |-> T, ima |-> ima, rla |-> rla,
   strat |-> strat, mig |-> mig, cres |-> cres, ures |-> ures, arg |-> arg,
   ret |-> ret, calls |-> calls]

NoArg == [md |-> NoMd, env |-> "none", execd |-> {}, sbom |-> NoSbom, file |-> "-"]

InitObs == Obs("init", "-", NoTy, "G", NoDec, NoDec, NoDec, NoDec, NoRes, NoRes,
               NoArg, RetUnit, <<>>)

\* every action ends here: assign the variables, then (optionally) print the transition
Finish(n, l2, addRef, obs) ==
  /\ L' = [L EXCEPT ![n] = l2]
  /\ refs' = IF addRef /\ obs.ret.ok THEN refs \cup {n} ELSE refs
  /\ last' = obs
  /\ (EmitTR => PrintT(<<"TR", ToJson([pre |-> L[n], inrefs |-> n \in refs,
                                        post |-> l2, obs |-> obs])>>))

-----------------------------------------------------------------------------
(* Struct API: BuildContext::cached_layer / uncached_layer                  *)
(* (libcnb/src/layer/struct_api/handling.rs handle_layer, create_layer)     *)

ImaDecisions(T) == {Dec("Delete", c, NoMd) : c \in Causes}
                   \cup {Dec("Replace", c, m) : c \in Causes, m \in MdOf(T) \ {NoMd}}
                   \cup {Dec("Err", "-", NoMd)}
RlaDecisions    == {Dec("Keep", c, NoMd) : c \in Causes}
                   \cup {Dec("Delete", c, NoMd) : c \in Causes}
                   \cup {Dec("Err", "-", NoMd)}

\* what happens once the layer was read successfully (metadata parses as T)
StructSome(act, n, l, ty, T, ima, calls0, imaSet, rlaSet, vis) ==
  \E rla \in rlaSet :
    LET calls == IF vis THEN Append(calls0, Call("rla", TypedView(l.toml.md, T), "none", FALSE)) ELSE <<>>
        O(ret) == Obs(act, n, ty, T, ima, rla, NoDec, NoDec, NoRes, NoRes, NoArg, ret, calls)
    IN  CASE rla.k = "Err"    -> Finish(n, l, TRUE, O(RetErrBuildpack))
          [] rla.k = "Delete" -> Finish(n, CreateLayer(DeleteLayer(l), ty), TRUE,
                                        O(RetEmpty("RestoredLayerAction", rla.c)))
          [] rla.k = "Keep"   -> Finish(n, ReplaceTypes(l, ty), TRUE, O(RetRestored(rla.c)))

\* vis: the callbacks are the buildpack's (observable); uncached_layer uses constant ones
StructRequest(act, n, ty, T, imaSet, rlaSet, vis) ==
  LET r == ReadLayer(L[n], T)
      O(ima, ret, calls) ==
        Obs(act, n, ty, T, ima, NoDec, NoDec, NoDec, NoRes, NoRes, NoArg, ret, calls)
  IN
  \/ /\ r.out = "None"
     /\ Finish(n, CreateLayer(r.l, ty), TRUE, O(NoDec, RetEmpty("NewlyCreated", "-"), <<>>))
  \/ /\ r.out = "Some"
     /\ StructSome(act, n, r.l, ty, T, NoDec, <<>>, imaSet, rlaSet, vis)
  \/ /\ r.out = "ParseErr"
     /\ IF r.l.toml.k = "garbage"
        THEN Finish(n, r.l, TRUE, O(NoDec, RetErrLayer, <<>>))   \* not even generic TOML
        ELSE \E ima \in imaSet :
          LET calls == IF vis THEN <<Call("ima", r.l.toml.md, "none", FALSE)>> ELSE <<>> IN
          CASE ima.k = "Err"     -> Finish(n, r.l, TRUE, O(ima, RetErrBuildpack, calls))
            [] ima.k = "Delete"  -> Finish(n, CreateLayer(DeleteLayer(r.l), ty), TRUE,
                                       O(ima, RetEmpty("InvalidMetadataAction", ima.c), calls))
            [] ima.k = "Replace" -> \* replace_layer_metadata, then handle_layer again
                 StructSome(act, n, ReplaceMetadata(r.l, ima.md), ty, T, ima, calls,
                            imaSet, rlaSet, vis)

CachedLayer(n, b, la, T) ==
  StructRequest("cached_layer", n, Ty(b, la, TRUE), T, ImaDecisions(T), RlaDecisions, TRUE)

\* uncached_layer: constant callbacks (always delete), unit causes, generic metadata
UncachedLayer(n, b, la) ==
  StructRequest("uncached_layer", n, Ty(b, la, FALSE), "G",
                {Dec("Delete", "unit", NoMd)}, {Dec("Delete", "unit", NoMd)}, FALSE)

-----------------------------------------------------------------------------
(* LayerRef writers (libcnb/src/layer/struct_api/mod.rs, shared.rs replace_xxx) *)

WObs(act, n, arg, ret) ==
  Obs(act, n, NoTy, "G", NoDec, NoDec, NoDec, NoDec, NoRes, NoRes, arg, ret, <<>>)

WriteMetadata(n, md) ==
  /\ n \in refs
  /\ LET l == L[n] arg == [NoArg EXCEPT !.md = md] IN
     IF l.toml.k = "ok"
     THEN Finish(n, ReplaceMetadata(l, md), FALSE, WObs("write_metadata", n, arg, RetUnit))
     ELSE Finish(n, l, FALSE, WObs("write_metadata", n, arg, RetErrLayer))

WriteEnv(n, e) ==
  /\ n \in refs
  /\ L[n].dir
  /\ Finish(n, [L[n] EXCEPT !.env = e], FALSE,
            WObs("write_env", n, [NoArg EXCEPT !.env = e], RetUnit))

ReadEnv(n) ==
  /\ n \in refs
  /\ L[n].dir
  /\ Finish(n, L[n], FALSE, WObs("read_env", n, NoArg, RetEnv(L[n].env)))

WriteSboms(n, s) ==
  /\ n \in refs
  /\ LET arg == [NoArg EXCEPT !.sbom = s] IN
     IF L[n].dir
     THEN Finish(n, [L[n] EXCEPT !.sbom = s], FALSE, WObs("write_sboms", n, arg, RetUnit))
     ELSE Finish(n, L[n], FALSE, WObs("write_sboms", n, arg, RetErrLayer))

WriteExecD(n, x) ==
  /\ n \in refs
  /\ LET arg == [NoArg EXCEPT !.execd = x] IN
     IF L[n].dir /\ x \cap MissingExec = {}
     THEN Finish(n, [L[n] EXCEPT !.execd = x], FALSE, WObs("write_exec_d", n, arg, RetUnit))
     ELSE Finish(n, L[n], FALSE, WObs("write_exec_d", n, arg, RetErrLayer))

\* the buildpack itself puts a file into the layer directory it was handed
WriteFile(n, f) ==
  /\ n \in refs
  /\ L[n].dir
  /\ Finish(n, [L[n] EXCEPT !.files = @ \cup {f}], FALSE,
            WObs("write_file", n, [NoArg EXCEPT !.file = f], RetUnit))

-----------------------------------------------------------------------------
(* Trait API: BuildContext::handle_layer (libcnb/src/layer/trait_api/handling.rs) *)

ResMd(T)   == IF T = "G" THEN {NoMd} \cup {Md("X", v) : v \in MdVals} ELSE MdOf(T)
Results(T) == {[k |-> "Ok", md |-> m, shape |-> s] : m \in ResMd(T), s \in Shapes}
              \cup {[k |-> "Err", md |-> NoMd, shape |-> NoShape]}
\* "Default": the buildpack's Layer does not override the method (trait_api/mod.rs): the default
\* strategy and the default migration are Recreate, the default update keeps metadata and env
\* and provides neither exec.d programs nor SBOMs
StratDecisions == {Dec(k, "-", NoMd) : k \in {"Keep", "Update", "Recreate", "Err", "Default"}}
MigDecisions(T) == {Dec("Recreate", "-", NoMd), Dec("Err", "-", NoMd), Dec("Default", "-", NoMd)}
                   \cup {Dec("Replace", "-", m) : m \in MdOf(T) \ {NoMd}}

IsEmptyDir(l) == l.files = {} /\ l.env = "none" /\ l.execd = {}

\* handle_create_layer: create_dir_all, callback, write_layer(Replace, Replace), read back
TraitCreate(n, l0, ty, T, strat, mig, calls0, cresSet) ==
  LET l == [l0 EXCEPT !.dir = TRUE] IN
  \E res \in cresSet :
    LET calls == Append(calls0, Call("create", NoMd, "none", IsEmptyDir(l)))
        O(ret) == Obs("handle_layer", n, ty, T, NoDec, NoDec, strat, mig, res, NoRes,
                      NoArg, ret, calls)
    IN  IF res.k = "Err" THEN Finish(n, l, FALSE, O(RetErrBuildpack))
        ELSE Finish(n, [dir |-> TRUE, files |-> l.files \cup res.shape.files,
                        env |-> res.shape.env, execd |-> res.shape.execd,
                        sbom |-> res.shape.sbom, toml |-> TomlOk(ty, res.md)],
                    FALSE, O(RetData(res.md, res.shape.env, ty)))

\* the layer was read and its metadata parses as T: ask the strategy callback
TraitSome(n, l, ty, T, mig, calls0, stratSet, cresSet, uresSet) ==
  \E strat \in stratSet :
    LET calls == Append(calls0, Call("strategy", TypedView(l.toml.md, T), l.env, FALSE))
        O(ures, ret, cs) == Obs("handle_layer", n, ty, T, NoDec, NoDec, strat, mig, NoRes,
                                ures, NoArg, ret, cs)
    IN  CASE strat.k = "Err"      -> Finish(n, l, FALSE, O(NoRes, RetErrBuildpack, calls))
          [] strat.k \in {"Recreate", "Default"} -> TraitCreate(n, DeleteLayer(l), ty, T, strat, mig, calls, cresSet)
          [] strat.k = "Keep"     -> Finish(n, ReplaceTypes(l, ty), FALSE,
                                            O(NoRes, RetData(TypedView(l.toml.md, T), l.env, ty), calls))
          [] strat.k = "Update"   ->
               \E res \in uresSet :
                 LET cs == Append(calls, Call("update", TypedView(l.toml.md, T), l.env, FALSE))
                     \* what the update amounts to (the default one re-uses what was read)
                     ures == IF res.k = "Default"
                             THEN [k |-> "Default", md |-> TypedView(l.toml.md, T), shape |-> [NoShape EXCEPT !.env = l.env]]
                             ELSE res
                 IN
                 IF res.k = "Err" THEN Finish(n, l, FALSE, O(res, RetErrBuildpack, cs))
                 ELSE Finish(n, [l EXCEPT !.files = @ \cup ures.shape.files,
                                          !.env = ures.shape.env, !.execd = ures.shape.execd,
                                          !.sbom = ures.shape.sbom,
                                          !.toml = TomlOk(ty, ures.md)],
                             FALSE, O(res, RetData(ures.md, ures.shape.env, ty), cs))

\* the callback decisions are drawn from the given sets (the model checker passes all
\* decisions, trace validation passes the ones that were observed)
HandleLayerD(n, ty, T, stratSet, migSet, cresSet, uresSet) ==
  LET r == ReadLayer(L[n], T)
      O(mig, ret, calls) == Obs("handle_layer", n, ty, T, NoDec, NoDec, NoDec, mig, NoRes,
                                NoRes, NoArg, ret, calls)
  IN
  \/ /\ r.out = "None"
     /\ TraitCreate(n, r.l, ty, T, NoDec, NoDec, <<>>, cresSet)
  \/ /\ r.out = "Some"
     /\ TraitSome(n, r.l, ty, T, NoDec, <<>>, stratSet, cresSet, uresSet)
  \/ /\ r.out = "ParseErr"
     /\ IF r.l.toml.k = "garbage"
        THEN Finish(n, r.l, FALSE, O(NoDec, RetErrLayer, <<>>))
        ELSE \E mig \in migSet :
          LET calls == <<Call("migrate", r.l.toml.md, "none", FALSE)>> IN
          CASE mig.k = "Err"      -> Finish(n, r.l, FALSE, O(mig, RetErrBuildpack, calls))
            [] mig.k \in {"Recreate", "Default"} -> TraitCreate(n, DeleteLayer(r.l), ty, T, NoDec, mig, calls, cresSet)
            [] mig.k = "Replace"  -> TraitSome(n, ReplaceMetadata(r.l, mig.md), ty, T, mig, calls,
                                               stratSet, cresSet, uresSet)

DefaultRes == [k |-> "Default", md |-> NoMd, shape |-> NoShape]
HandleLayer(n, b, la, c, T) ==
  HandleLayerD(n, Ty(b, la, c), T, StratDecisions, MigDecisions(T), Results(T), Results(T) \cup {DefaultRes})

-----------------------------------------------------------------------------
(* Environment: the platform between and around builds *)

EnvObs(act) == Obs(act, "-", NoTy, "G", NoDec, NoDec, NoDec, NoDec, NoRes, NoRes,
                   NoArg, RetUnit, <<>>)

RestoreOne(l) ==
  IF l.toml.k = "ok" /\ l.toml.ty.set /\ l.toml.ty.cache /\ l.dir
    THEN [l EXCEPT !.toml.ty = NoTy]
  ELSE IF l.toml.k = "ok" /\ l.toml.ty.set /\ l.toml.ty.launch
    THEN [NoLayer EXCEPT !.toml = TomlOk(NoTy, l.toml.md)]
  ELSE NoLayer

EmitEnv(act, post) ==
  EmitTR => PrintT(<<"TE", ToJson([act |-> act, pre |-> L, post |-> post])>>)

\* the next build starts: cache restore as the CNB spec prescribes (see DESIGN C01)
LifecycleRestore ==
  /\ L' = [n \in Names |-> RestoreOne(L[n])]
  /\ refs' = {}
  /\ last' = EnvObs("restore")
  /\ EmitEnv("restore", L')

\* the next build starts with cache and previous image gone
CacheLost ==
  /\ L' = [n \in Names |-> NoLayer]
  /\ refs' = {}
  /\ last' = EnvObs("cache_lost")
  /\ EmitEnv("cache_lost", L')

\* between builds something leaves an unreadable content metadata file behind
ForeignGarbage(n) ==
  /\ refs = {}
  /\ L[n].dir
  /\ L[n].toml.k # "garbage"
  /\ L' = [L EXCEPT ![n].toml = TomlGarbage]
  /\ UNCHANGED refs
  /\ last' = [EnvObs("foreign_garbage") EXCEPT !.n = n]
  /\ EmitEnv("foreign_garbage", L')

-----------------------------------------------------------------------------

Init == /\ L = [n \in Names |-> NoLayer]
        /\ refs = {}
        /\ last = InitObs

SbomVals == [Formats -> {"none"} \cup SbomTok]

NextStructN(n) ==
    \/ \E fl \in Flags, T \in MdTypes : CachedLayer(n, fl[1], fl[2], T)
    \/ \E fl \in Flags : UncachedLayer(n, fl[1], fl[2])
    \/ \E md \in AllMd : WriteMetadata(n, md)
    \/ \E e \in {"none"} \cup EnvTok : WriteEnv(n, e)
    \/ ReadEnv(n)
    \/ \E s \in SbomVals : WriteSboms(n, s)
    \/ \E x \in SUBSET ExecTok : WriteExecD(n, x)
    \/ \E f \in FileTok : WriteFile(n, f)

NextTraitN(n) ==
  \E t \in TraitTypes, T \in MdTypes : HandleLayer(n, t[1], t[2], t[3], T)

NextStruct == \E n \in Names : NextStructN(n)
NextTrait  == \E n \in Names : NextTraitN(n)

NextEnv == LifecycleRestore \/ CacheLost \/ \E n \in Names : ForeignGarbage(n)

Next == NextStruct \/ NextTrait \/ NextEnv

Spec == Init /\ [][Next]_vars

-----------------------------------------------------------------------------
(***************************************************************************)
(* The properties (C01, C02), restated over pre-state L, post-state L' and *)
(* the observation last' without using the operators that build the        *)
(* actions.  They are action formulas so that TLC evaluates them on every  *)
(* transition it generates (also those leading to an already seen state).  *)
(***************************************************************************)

StructActs == {"cached_layer", "uncached_layer"}
ReqActs    == StructActs \cup {"handle_layer"}
EnvActs    == {"init", "restore", "cache_lost", "foreign_garbage", "reset"}

StoredMd(l) == IF l.toml.k = "ok" THEN l.toml.md ELSE NoMd
SameContent(a, b) == a.files = b.files /\ a.env = b.env /\ a.execd = b.execd /\ a.sbom = b.sbom

TypeOK ==
  /\ \A n \in Names :
       /\ L[n].dir \in BOOLEAN /\ L[n].files \subseteq FileTok
       /\ L[n].env \in {"none"} \cup EnvTok /\ L[n].execd \subseteq ExecTok
       /\ L[n].sbom \in SbomVals
       /\ L[n].toml.k \in {"absent", "garbage", "ok"}
       /\ L[n].toml.md \in AllMd
  /\ refs \subseteq Names

\* a LayerRef always points at an existing directory
RefsHaveDir == \A n \in refs : L[n].dir
\* content only ever lives inside an existing directory
ContentNeedsDir == \A n \in Names : ~L[n].dir => SameContent(L[n], NoLayer)

\* C01/C02: after a successful request the directory exists and the content metadata
\* declares exactly the requested flags
TypesAsRequested ==
  [][ (last'.act \in ReqActs /\ last'.ret.ok) =>
        LET l == L'[last'.n] IN l.dir /\ l.toml.k = "ok" /\ l.toml.ty = last'.ty ]_vars

RlaOutcome(o) ==
  CASE o.rla.k = "Keep"   -> o.ret = RetRestored(o.rla.c)
    [] o.rla.k = "Delete" -> o.ret = RetEmpty("RestoredLayerAction", o.rla.c)
    [] o.rla.k = "Err"    -> o.ret = RetErrBuildpack
    [] OTHER -> FALSE

\* C01: the reported state is exactly what the callbacks decided, and the callbacks
\* are consulted exactly when due, with the stored (or just replaced) metadata
StructReport ==
  [][ last'.act \in StructActs =>
      LET o == last'  pre == L[o.n]  md0 == StoredMd(pre)
          vis == o.act = "cached_layer"     \* uncached_layer: constant library callbacks
          Calls(cs) == o.calls = IF vis THEN cs ELSE <<>>
      IN
      IF ~pre.dir
        THEN o.ret = RetEmpty("NewlyCreated", "-") /\ o.calls = <<>>
      ELSE IF pre.toml.k = "garbage"
        THEN ~o.ret.ok /\ o.calls = <<>>
      ELSE IF MdParses(md0, o.T)
        THEN /\ o.ima = NoDec
             /\ Calls(<<Call("rla", TypedView(md0, o.T), "none", FALSE)>>)
             /\ RlaOutcome(o)
      ELSE CASE o.ima.k = "Err"     -> /\ o.ret = RetErrBuildpack
                                       /\ Calls(<<Call("ima", md0, "none", FALSE)>>)
             [] o.ima.k = "Delete"  -> /\ o.ret = RetEmpty("InvalidMetadataAction", o.ima.c)
                                       /\ Calls(<<Call("ima", md0, "none", FALSE)>>)
             [] o.ima.k = "Replace" -> /\ Calls(<<Call("ima", md0, "none", FALSE),
                                                  Call("rla", o.ima.md, "none", FALSE)>>)
                                       /\ RlaOutcome(o)
             [] OTHER -> FALSE ]_vars

\* C01: an uncached layer is always handed out empty (or newly created)
UncachedAlwaysEmpty ==
  [][ (last'.act = "uncached_layer" /\ last'.ret.ok) => last'.ret.kind = "Empty" ]_vars

\* C01: a layer reported as restored still has everything the previous build left
RestoredKeepsAll ==
  [][ last'.ret.kind = "Restored" =>
      LET pre == L[last'.n]  post == L'[last'.n] IN
      /\ SameContent(pre, post)
      /\ post.toml.md = IF last'.ima.k = "Replace" THEN last'.ima.md ELSE StoredMd(pre) ]_vars

\* C01: a layer reported as empty has nothing left over from any earlier build
EmptyIsEmpty ==
  [][ last'.ret.kind = "Empty" =>
      LET post == L'[last'.n] IN
      SameContent(post, NoLayer) /\ post.toml.md = NoMd ]_vars

\* C01/C02: other layers are untouched
FrameOthers ==
  [][ last'.act \notin EnvActs => \A m \in Names : m # last'.n => L'[m] = L[m] ]_vars

\* C01: every writer replaces exactly its own facet
WriterFrame ==
  [][ LET o == last'  pre == L[o.n]  post == L'[o.n] IN
      /\ (o.act = "write_metadata" /\ o.ret.ok) => post = [pre EXCEPT !.toml.md = o.arg.md]
      /\ (o.act = "write_env") => post = [pre EXCEPT !.env = o.arg.env]
      /\ (o.act = "write_sboms" /\ o.ret.ok) => post = [pre EXCEPT !.sbom = o.arg.sbom]
      /\ (o.act = "write_exec_d" /\ o.ret.ok) => post = [pre EXCEPT !.execd = o.arg.execd]
      /\ (o.act = "read_env") => post = pre /\ o.ret.env = pre.env
      /\ (o.act \in {"write_metadata", "write_sboms", "write_exec_d"} /\ ~o.ret.ok) => post = pre
    ]_vars

AnyErrDecision(o) ==
  \/ o.ima.k = "Err" \/ o.rla.k = "Err" \/ o.strat.k = "Err" \/ o.mig.k = "Err"
  \/ o.cres.k = "Err" \/ o.ures.k = "Err"

\* C01/C02: a failing callback is reported as the buildpack's error; the callbacks that
\* only decide (validation, strategy, migration) leave the layer's content alone
ErrIsReported ==
  [][ (last'.act \in ReqActs /\ AnyErrDecision(last')) =>
      /\ last'.ret = RetErrBuildpack
      /\ (last'.cres.k # "Err") => SameContent(L[last'.n], L'[last'.n]) ]_vars

Count(calls, cb) == Cardinality({i \in DOMAIN calls : calls[i].cb = cb})

\* C02: create / update run exactly once when due and never otherwise; create always
\* starts from an empty directory
TraitCallbacksWhenDue ==
  [][ last'.act = "handle_layer" =>
      LET o == last'  pre == L[o.n]
          createDue == (~pre.dir) \/ o.strat.k \in {"Recreate", "Default"} \/ o.mig.k \in {"Recreate", "Default"}
          updateDue == o.strat.k = "Update"
      IN /\ Count(o.calls, "create") = IF createDue THEN 1 ELSE 0
         /\ Count(o.calls, "update") = IF updateDue THEN 1 ELSE 0
         /\ ~(createDue /\ updateDue)
         /\ \A i \in DOMAIN o.calls : o.calls[i].cb = "create" => o.calls[i].empty
         /\ Count(o.calls, "strategy") <= 1 /\ Count(o.calls, "migrate") <= 1
         \* the strategy decides on the stored (or migrated) metadata and the stored env
         /\ \A i \in DOMAIN o.calls : o.calls[i].cb \in {"strategy", "update"} =>
              /\ o.calls[i].md = IF o.mig.k = "Replace" THEN o.mig.md ELSE TypedView(StoredMd(pre), o.T)
              /\ o.calls[i].env = pre.env
         /\ (pre.dir /\ pre.toml.k # "garbage") =>
              (Count(o.calls, "migrate") = 1) = ~MdParses(StoredMd(pre), o.T) ]_vars

\* C02: what is on disk afterwards is what the callback returned ...
PersistedEqualsResult ==
  [][ (last'.act = "handle_layer" /\ last'.ret.ok) =>
      LET o == last'  pre == L[o.n]  post == L'[o.n] IN
      /\ o.cres.k = "Ok" =>
           post = [dir |-> TRUE, files |-> o.cres.shape.files, env |-> o.cres.shape.env,
                   execd |-> o.cres.shape.execd, sbom |-> o.cres.shape.sbom,
                   toml |-> TomlOk(o.ty, o.cres.md)]
      /\ o.ures.k = "Ok" =>
           post = [dir |-> TRUE, files |-> pre.files \cup o.ures.shape.files,
                   env |-> o.ures.shape.env, execd |-> o.ures.shape.execd,
                   sbom |-> o.ures.shape.sbom, toml |-> TomlOk(o.ty, o.ures.md)]
      \* the default update keeps metadata, env and files, and drops exec.d programs and SBOMs
      /\ o.ures.k = "Default" =>
           post = [pre EXCEPT !.execd = {}, !.sbom = NoSbom, !.toml = TomlOk(o.ty, o.calls[Len(o.calls)].md)]
      \* ... or, for keep, what was there before with only the types refreshed
      /\ o.strat.k = "Keep" =>
           /\ SameContent(pre, post)
           /\ post.toml = TomlOk(o.ty, IF o.mig.k = "Replace" THEN o.mig.md ELSE StoredMd(pre))
    ]_vars

\* C02: the returned layer data equals what is on disk
ReturnedEqualsDisk ==
  [][ last'.ret.kind = "Data" =>
      LET post == L'[last'.n] IN
      \* (seen through the requested metadata type)
      last'.ret.md = TypedView(post.toml.md, last'.T) /\ last'.ret.env = post.env /\ last'.ret.ty = post.toml.ty ]_vars

=============================================================================
