SPECIFICATION MCSpec
CONSTANTS
  Names = {"x", "y"}
  FullNames = {"x"}
  FileTok = {"f1"}
  EnvTok = {"e1"}
  ExecTok = {"p1", "gone"}
  MissingExec = {"gone"}
  SbomTok = {"s1"}
  Formats <- MCFormats1
  MdVals = {"1"}
  Causes = {"c1"}
  Flags <- FlagsQuick
  TraitTypes <- TraitTypesQuick
  Shapes <- MCShapes
  EmitTR = FALSE
VIEW View
CHECK_DEADLOCK FALSE
INVARIANTS TypeOK RefsHaveDir ContentNeedsDir
PROPERTIES TypesAsRequested StructReport UncachedAlwaysEmpty RestoredKeepsAll EmptyIsEmpty FrameOthers WriterFrame ErrIsReported TraitCallbacksWhenDue PersistedEqualsResult ReturnedEqualsDisk
