SPECIFICATION Spec
CONSTANTS
  Mode = "trace"
  EmitTR = FALSE
CHECK_DEADLOCK FALSE
