SPECIFICATION PSpec
CONSTANTS
  EmitTR = TRUE
CHECK_DEADLOCK FALSE
INVARIANTS SeedCases CompleteAfterRun
