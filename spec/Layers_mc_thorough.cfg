SPECIFICATION MCSpec
CONSTANTS
  Names = {"x", "y"}
  FullNames = {"x", "y"}
  FileTok = {"f1"}
  EnvTok = {"e1", "e2"}
  ExecTok = {"p1", "gone"}
  MissingExec = {"gone"}
  SbomTok = {"s1"}
  Formats <- MCFormats2
  MdVals = {"1"}
  Causes = {"c1"}
  Flags <- FlagsAll
  TraitTypes <- TraitTypesAll
  Shapes <- MCShapes4
  EmitTR = FALSE
VIEW View
CHECK_DEADLOCK FALSE
INVARIANTS TypeOK RefsHaveDir ContentNeedsDir
PROPERTIES TypesAsRequested StructReport UncachedAlwaysEmpty RestoredKeepsAll EmptyIsEmpty FrameOthers WriterFrame ErrIsReported TraitCallbacksWhenDue PersistedEqualsResult ReturnedEqualsDisk
