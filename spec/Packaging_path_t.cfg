SPECIFICATION DSpec
CONSTANTS
  Nodes = {"n1"}
  Mode = "path-t"
  EmitTR = TRUE
CHECK_DEADLOCK FALSE
