------------------------------- MODULE FsTree -------------------------------
(***************************************************************************)
(* C11: deleting / recreating a layer (libcnb/src/util.rs                  *)
(* remove_dir_recursively, libcnb/src/layer/shared.rs delete_layer) over a *)
(* POSIX tree with permission bits and symlinks.                           *)
(*                                                                         *)
(* The file system is a function from a fixed universe of paths to nodes.  *)
(* The removal algorithm is written as the code does it: chmod (follows    *)
(* links), read_dir (follows a link given as the root), entries classified *)
(* WITHOUT following, rmdir.  Every system call is recorded in `ops` with  *)
(* the path it really affects, so the frame property is checked for every  *)
(* step of the algorithm, not only for the final state.                    *)
(***************************************************************************)
EXTENDS TLC, Json, Sequences, FiniteSets, Naturals

CONSTANTS FollowRootLink,  \* TRUE: the algorithm of the pinned tree (negative control)
          Wide,            \* TRUE (thorough tier): every entry kind at every position, one more level
          EmitTR

\* path universe: canary tree C beside <layers> (L), sibling layer L/y, the layer L/x
Paths == {"C", "C/f", "C/d", "C/d/g", "L", "L/y", "L/y/f", "L/y.toml", "L/x.toml",
          "L/x.sbom.cdx.json", "L/x", "L/x/a", "L/x/b", "L/x/a/c", "L/x/b/d"}
Parent(p) == CASE p \in {"C/f", "C/d"} -> "C" [] p = "C/d/g" -> "C/d"
               [] p \in {"L/y", "L/y.toml", "L/x.toml", "L/x.sbom.cdx.json", "L/x"} -> "L"
               [] p = "L/y/f" -> "L/y" [] p \in {"L/x/a", "L/x/b"} -> "L/x" [] p = "L/x/a/c" -> "L/x/a"
               [] p = "L/x/b/d" -> "L/x/b"
               [] OTHER -> "/"
\* what belongs to layer x
Own == {"L/x", "L/x/a", "L/x/b", "L/x/a/c", "L/x/b/d", "L/x.toml", "L/x.sbom.cdx.json"}

None == [k |-> "none", mode |-> "-", tgt |-> "-"]
Dir(m)  == [k |-> "dir",  mode |-> m, tgt |-> "-"]
File(m) == [k |-> "file", mode |-> m, tgt |-> "-"]
Link(t) == [k |-> "link", mode |-> "-", tgt |-> t]   \* t: a path of the universe or "nowhere"

DirModes  == {"rwx", "r-x", "---"}
FileModes == {"rw-", "r--"}

VARIABLES fs,     \* [Paths -> Node]
          ops,    \* sequence of [op, path] really performed by the last deletion
          res,    \* "-" | "ok" | "err"
          fs0     \* the tree before the deletion (for the frame property)
vars == <<fs, ops, res, fs0>>

-----------------------------------------------------------------------------
(* the fixed surroundings and the generated layer trees *)

Base == [p \in Paths |->
           CASE p = "C" -> Dir("r-x") [] p = "C/f" -> File("r--") [] p = "C/d" -> Dir("r-x")
             [] p = "C/d/g" -> File("rw-") [] p = "L" -> Dir("rwx")
             [] p = "L/y" -> Dir("r-x") [] p = "L/y/f" -> File("r--") [] p = "L/y.toml" -> File("rw-")
             [] OTHER -> None]

LinkTargets == {"C", "C/f", "C/d", "L/y", "L/y/f", "L", "L/x", "L/x/a", "nowhere"}
\* (no generated link target is itself a link except inside the layer, where links are unlinked, never followed)

\* entries a layer directory may contain
LeafKinds == {File(m) : m \in FileModes} \cup {Link(t) : t \in LinkTargets}
DirEntry  == {Dir(m) : m \in DirModes}

Trees ==
  \* the layer root is a directory with up to two entries, one of them possibly a directory
  { [Base EXCEPT !["L/x"] = Dir(rm), !["L/x/a"] = a, !["L/x/b"] = b, !["L/x/a/c"] = c,
                 !["L/x.toml"] = t, !["L/x.sbom.cdx.json"] = s]
      : rm \in DirModes, a \in LeafKinds \cup DirEntry \cup {None}, b \in {None, File("r--"), Link("C")},
        c \in {None, File("r--"), Link("C/d"), Link("L/x")}, t \in {None, File("rw-")},
        s \in {None, File("rw-")} }
  \cup
  (IF ~Wide THEN {} ELSE
  { [Base EXCEPT !["L/x"] = Dir(rm), !["L/x/a"] = a, !["L/x/b"] = b, !["L/x/a/c"] = c, !["L/x/b/d"] = dd,
                 !["L/x.toml"] = File("rw-"), !["L/x.sbom.cdx.json"] = s]
      : rm \in DirModes, a \in LeafKinds \cup DirEntry \cup {None}, b \in LeafKinds \cup DirEntry \cup {None},
        c \in {None, File("r--"), File("rw-"), Dir("---"), Dir("r-x")} \cup {Link(x) : x \in {"C/d", "L/x", "L", "nowhere"}},
        dd \in {None, File("r--"), Dir("---"), Link("C"), Link("L/x/a"), Link("nowhere")},
        s \in {None, File("rw-")} })
  \cup
  \* the layer path itself is a symlink (to a directory elsewhere, a file, nothing) or a file
  { [Base EXCEPT !["L/x"] = r, !["L/x.toml"] = t] : r \in {Link(x) : x \in {"C", "C/d", "L/y", "C/f", "nowhere"}},
                                                   t \in {None, File("rw-")} }

WellFormedTree(f) == /\ f["L/x/a/c"].k # "none" => f["L/x/a"].k = "dir"
                     /\ f["L/x/b/d"].k # "none" => f["L/x/b"].k = "dir"

-----------------------------------------------------------------------------
(* system calls *)

\* the node a path denotes when the last component is followed (one level is enough here:
\* link targets of the generated trees are never links themselves, except into the layer)
Follow(f, p) == IF f[p].k = "link" /\ f[p].tgt \in Paths THEN f[p].tgt ELSE p
Children(f, p) == {q \in Paths : Parent(q) = p /\ f[q].k # "none"}

Op(o, p) == [op |-> o, path |-> p]

\* remove_dir_recursively(p): returns [fs, ops, ok]
RECURSIVE RemoveDir(_, _, _), RemoveEntries(_, _, _)
RemoveEntries(f, o, todo) ==
  \* fold over the directory entries (order irrelevant: they are disjoint subtrees)
  IF todo = {} THEN [fs |-> f, ops |-> o, ok |-> TRUE]
  ELSE LET q == CHOOSE x \in todo : TRUE
           r == IF f[q].k = "dir"                     \* entry.file_type() does not follow links
                THEN RemoveDir(f, o, q)
                ELSE [fs |-> [f EXCEPT ![q] = None], ops |-> Append(o, Op("unlink", q)), ok |-> TRUE]
       IN  IF r.ok THEN RemoveEntries(r.fs, r.ops, todo \ {q}) ELSE r
RemoveDir(f, o, p) ==
  IF f[p].k = "none" THEN [fs |-> f, ops |-> o, ok |-> TRUE]            \* NotFound: tolerated
  ELSE IF f[p].k = "link" /\ ~FollowRootLink
    THEN [fs |-> [f EXCEPT ![p] = None], ops |-> Append(o, Op("unlink", p)), ok |-> TRUE]
  ELSE
    LET t == Follow(f, p)                              \* chmod and read_dir follow a link
    IN  IF f[t].k # "dir" THEN [fs |-> f, ops |-> o, ok |-> FALSE]     \* ENOTDIR / dangling
        ELSE LET f1 == [f EXCEPT ![t].mode = "rwx"]
                 o1 == Append(o, Op("chmod", t))
                 r  == RemoveEntries(f1, o1, Children(f1, t))
             IN  IF ~r.ok THEN r
                 ELSE IF f[p].k = "link" THEN [r EXCEPT !.ok = FALSE]  \* rmdir on a symlink
                 ELSE [fs |-> [r.fs EXCEPT ![p] = None], ops |-> Append(r.ops, Op("rmdir", p)),
                       ok |-> TRUE]

\* delete_layer: directory, content metadata, SBOM files
DeleteLayer ==
  /\ res = "-"
  /\ LET r == RemoveDir(fs, <<>>, "L/x")
         f2 == IF r.ok THEN [r.fs EXCEPT !["L/x.toml"] = None, !["L/x.sbom.cdx.json"] = None] ELSE r.fs
         o2 == IF r.ok THEN r.ops \o <<Op("unlink", "L/x.toml"), Op("unlink", "L/x.sbom.cdx.json")>> ELSE r.ops
     IN  /\ fs' = f2 /\ ops' = o2 /\ res' = IF r.ok THEN "ok" ELSE "err"
         /\ UNCHANGED fs0
         /\ (EmitTR => PrintT(<<"FT", ToJson([tree |-> [p \in Own |-> fs[p]], ok |-> r.ok])>>))

Init == /\ fs \in {f \in Trees : WellFormedTree(f)} /\ ops = <<>> /\ res = "-" /\ fs0 = fs
Next == DeleteLayer
Spec == Init /\ [][Next]_vars

-----------------------------------------------------------------------------
(* C11 *)

\* every call the deletion makes affects a path of the layer ...
EveryStepInside == \A i \in DOMAIN ops : ops[i].path \in Own
\* ... so everything else is exactly as it was (content, mode, link target)
OutsideUntouched == \A p \in Paths \ Own : fs[p] = fs0[p]
\* and all of the layer's own entries are gone
LayerGone == res = "ok" => \A p \in Own : fs[p] = None
\* whatever the layer contained, deletion succeeds
AlwaysSucceeds == res # "err"
=============================================================================
