SPECIFICATION Spec
CONSTANTS
  Wipe = TRUE
  MaxRefs = 4
  EmitTR = TRUE
CHECK_DEADLOCK FALSE
INVARIANTS NeverFails ArgsFaithful DepsFirst
