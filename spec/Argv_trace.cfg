SPECIFICATION Spec
CONSTANTS
  Mode = "trace"
CHECK_DEADLOCK FALSE
