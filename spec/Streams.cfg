SPECIFICATION Spec
CONSTANTS
  Cap = 2
  Scripts <- MCScripts
  Sequential = FALSE
  Mode = "mc"
  EmitTR = TRUE
  Api = "spawn"
  WCaps = {1, 3}
  WriteAll = TRUE
  SpawnWaits = FALSE
INVARIANTS Delivered InOrder
PROPERTIES Terminates Returns
