SPECIFICATION Spec
CONSTANTS
  Cap = 2
  Scripts <- MCScripts
  Sequential = FALSE
  EmitTR = TRUE
INVARIANTS Delivered InOrder
PROPERTY Terminates
