------------------------------- MODULE Schemas -------------------------------
(***************************************************************************)
(* C08: the CNB document formats as data, valid instances and every        *)
(* single-point mutation with the verdict the specification demands.       *)
(*                                                                         *)
(* A schema is a set of fields [p, parent, kind, req].  p is the path of   *)
(* the field ("buildpack.licenses[].type": [] marks an array of tables, of *)
(* which instances carry one element).  kind: "string" "bool" "strings"    *)
(* (array of strings) "table" "tables" (array of tables) "free" (free-form *)
(* table).  A document instance is the set of paths it contains.           *)
(* Transcribed from the CNB buildpack / platform / distribution specs, not *)
(* from the Rust structs.                                                  *)
(***************************************************************************)
EXTENDS TLC, Json, Sequences, FiniteSets, Naturals

CONSTANTS EmitTR,
          Pairs     \* TRUE (thorough tier): also every pair of optional parts added / removed

F(p, parent, kind, req) == [p |-> p, parent |-> parent, kind |-> kind, req |-> req]
Root == ""

BuildpackTable ==
  { F("buildpack", Root, "table", TRUE),
    F("buildpack.id", "buildpack", "string", TRUE), F("buildpack.version", "buildpack", "string", TRUE),
    F("buildpack.name", "buildpack", "string", FALSE), F("buildpack.homepage", "buildpack", "string", FALSE),
    F("buildpack.clear-env", "buildpack", "bool", FALSE), F("buildpack.description", "buildpack", "string", FALSE),
    F("buildpack.keywords", "buildpack", "strings", FALSE), F("buildpack.sbom-formats", "buildpack", "strings", FALSE),
    F("buildpack.licenses[]", "buildpack", "tables", FALSE),
    F("buildpack.licenses[].type", "buildpack.licenses[]", "string", FALSE),
    F("buildpack.licenses[].uri", "buildpack.licenses[]", "string", FALSE) }

Component ==
  {F("api", Root, "string", TRUE)} \cup BuildpackTable \cup
  { F("targets[]", Root, "tables", FALSE), F("targets[].os", "targets[]", "string", FALSE),
    F("targets[].arch", "targets[]", "string", FALSE), F("targets[].variant", "targets[]", "string", FALSE),
    F("targets[].distros[]", "targets[]", "tables", FALSE),
    F("targets[].distros[].name", "targets[].distros[]", "string", TRUE),
    F("targets[].distros[].version", "targets[].distros[]", "string", TRUE),
    F("stacks[]", Root, "tables", FALSE), F("stacks[].id", "stacks[]", "string", TRUE),
    F("stacks[].mixins", "stacks[]", "strings", FALSE),
    F("metadata", Root, "free", FALSE) }

Composite ==
  {F("api", Root, "string", TRUE)} \cup BuildpackTable \cup
  { F("order[]", Root, "tables", TRUE), F("order[].group[]", "order[]", "tables", TRUE),
    F("order[].group[].id", "order[].group[]", "string", TRUE),
    F("order[].group[].version", "order[].group[]", "string", TRUE),
    F("order[].group[].optional", "order[].group[]", "bool", FALSE),
    F("metadata", Root, "free", FALSE) }

Plan ==
  { F("entries[]", Root, "tables", FALSE), F("entries[].name", "entries[]", "string", TRUE),
    F("entries[].metadata", "entries[]", "free", FALSE) }

Layer ==
  { F("types", Root, "table", FALSE), F("types.launch", "types", "bool", FALSE), F("types.build", "types", "bool", FALSE),
    F("types.cache", "types", "bool", FALSE), F("metadata", Root, "free", FALSE) }

Launch ==
  { F("labels[]", Root, "tables", FALSE), F("labels[].key", "labels[]", "string", TRUE), F("labels[].value", "labels[]", "string", TRUE),
    F("processes[]", Root, "tables", FALSE), F("processes[].type", "processes[]", "string", TRUE),
    F("processes[].command", "processes[]", "strings", TRUE), F("processes[].args", "processes[]", "strings", FALSE),
    F("processes[].default", "processes[]", "bool", FALSE), F("processes[].working-dir", "processes[]", "string", FALSE),
    F("slices[]", Root, "tables", FALSE), F("slices[].paths", "slices[]", "strings", TRUE) }

Store == { F("metadata", Root, "free", FALSE) }

Package ==
  { F("buildpack", Root, "table", TRUE), F("buildpack.uri", "buildpack", "string", TRUE),
    F("dependencies[]", Root, "tables", FALSE), F("dependencies[].uri", "dependencies[]", "string", TRUE),
    F("platform", Root, "table", FALSE), F("platform.os", "platform", "string", FALSE) }

Schemas == [component |-> Component, composite |-> Composite, plan |-> Plan, layer |-> Layer, launch |-> Launch,
            store |-> Store, package |-> Package]
SchemaNames == DOMAIN Schemas

\* cases where the spec text leaves the answer open (DESIGN C08)
DontCareDelete == { <<"component", "targets[].distros[].name">>, <<"component", "targets[].distros[].version">> }
DontCareDoc(name, doc) ==
  \/ (name = "store" /\ "metadata" \notin doc)             \* store.toml without [metadata]
  \/ (name = "package" /\ "platform" \in doc /\ "platform.os" \notin doc)

-----------------------------------------------------------------------------
(* valid instances *)

Paths(S) == {f.p : f \in S}
Field(S, p) == CHOOSE f \in S : f.p = p
RECURSIVE Ancestors(_, _)
Ancestors(S, p) == IF p = Root THEN {} ELSE {p} \cup Ancestors(S, Field(S, p).parent)
Descendants(S, p) == {q \in Paths(S) : p \in Ancestors(S, q)}
\* a set of paths is closed when every member's ancestors and, for every included table, its
\* required children are included
RequiredChildren(S, p) == {f.p : f \in {g \in S : g.parent = p /\ g.req}}
RECURSIVE Close(_, _)
Close(S, d) ==
  LET more == UNION {Ancestors(S, p) : p \in d} \cup UNION {RequiredChildren(S, p) : p \in d \cup {Root}}
  IN IF more \subseteq d THEN d ELSE Close(S, d \cup more)

Minimal(S) == Close(S, {})
Full(S) == Paths(S)
Optional(S) == {f.p : f \in {g \in S : ~g.req}}
Instances(S) == {Minimal(S), Full(S)}
                \cup {Close(S, Minimal(S) \cup {p}) : p \in Optional(S)}            \* one optional part added
                \cup {Full(S) \ Descendants(S, p) : p \in Optional(S)}              \* one optional part removed
                \cup (IF ~Pairs THEN {} ELSE
                      {Close(S, Minimal(S) \cup {p, q}) : p \in Optional(S), q \in Optional(S)}
                      \cup {Full(S) \ (Descendants(S, p) \cup Descendants(S, q)) : p \in Optional(S), q \in Optional(S)})

TablesOf(S, d) == {Root} \cup {p \in d : Field(S, p).kind \in {"table", "tables"}}
FreeOf(S, d) == {p \in d : Field(S, p).kind = "free"}
Scalars(S, d) == {p \in d : Field(S, p).kind \in {"string", "bool", "strings"}}

Mut(k, p) == [k |-> k, p |-> p]
Mutations(name, S, d) ==
  {Mut("none", "-")}
  \cup {Mut("unknown-key", t) : t \in TablesOf(S, d)}           \* a key the format does not define
  \cup {Mut("near-miss-key", t) : t \in TablesOf(S, d)}         \* other spellings of the defined keys (aliases)
  \cup {Mut("unknown-key-in-free", t) : t \in FreeOf(S, d)}     \* inside free-form metadata: fine
  \cup {Mut("delete", p) : p \in {q \in d : Field(S, q).req}}   \* a required key removed
  \cup {Mut("retype", p) : p \in Scalars(S, d)}                 \* a value of the wrong kind
  \cup {Mut("retype-table", p) : p \in TablesOf(S, d) \ {Root}} \* an array where a table must be
  \* a one-key table named after the value where a string (or an element of a string array) must be
  \cup {Mut("retype-as-table", p) : p \in {q \in d : Field(S, q).kind \in {"string", "strings"}}}
  \cup (IF name = "component" THEN {Mut("add", "order")} ELSE {})
  \cup (IF name = "composite" THEN {Mut("add", "targets"), Mut("add", "stacks")} ELSE {})

Verdict(name, S, d, m) ==
  IF DontCareDoc(name, d) THEN "dontcare"
  ELSE CASE m.k = "none" -> "accept"
         [] m.k = "unknown-key-in-free" -> "accept"
         [] m.k = "delete" -> IF <<name, m.p>> \in DontCareDelete THEN "dontcare"
                              \* deleting a required child of an OPTIONAL array element / table that then
                              \* becomes empty is still a violation: the element is present without it
                              ELSE "reject"
         [] OTHER -> "reject"

\* parsing as "a buildpack descriptor": one with an order is composite, one without is component,
\* one mixing order with targets or stacks is rejected ("-": not stated for this case)
Classify(name, d, m) ==
  IF name \notin {"component", "composite"} THEN "-"
  ELSE CASE m.k = "none" -> name
         [] m.k = "add" /\ name = "composite" -> "reject"
         [] m.k = "add" /\ name = "component" ->
              IF "targets[]" \in d \/ "stacks[]" \in d THEN "reject" ELSE "composite"
         [] OTHER -> "-"

Cases ==
  \A name \in SchemaNames :
    LET S == Schemas[name] IN
    \A d \in Instances(S) : \A m \in Mutations(name, S, d) :
      PrintT(<<"SD", ToJson([schema |-> name, doc |-> d, mut |-> m, verdict |-> Verdict(name, S, d, m), class |-> Classify(name, d, m)])>>)

\* well-formedness of the schemas themselves
SchemaOK ==
  \A name \in SchemaNames : LET S == Schemas[name] IN
    /\ \A f \in S : f.parent = Root \/ f.parent \in Paths(S)
    /\ \A f \in S : f.parent # Root => Field(S, f.parent).kind \in {"table", "tables"}
    /\ Minimal(S) \subseteq Full(S)

ASSUME SchemaOK
ASSUME EmitTR => Cases
VARIABLE x
Spec == x = 0 /\ [][UNCHANGED x]_x
=============================================================================
