------------------------------ MODULE Discovery ------------------------------
(***************************************************************************)
(* Extension X02 (not one of the listed properties): how libcnb-package    *)
(* finds the buildpacks of a workspace and which help it offers for cross  *)
(* compilation.                                                            *)
(*                                                                         *)
(*  - find_buildpack_dirs (lib.rs) walks the workspace with the `ignore`   *)
(*    crate: hidden directories, directories matched by a `.ignore` file   *)
(*    and - only inside a git repository - by `.gitignore` are not         *)
(*    entered; every remaining directory that holds a buildpack.toml is a  *)
(*    buildpack directory, also one nested in another.                     *)
(*  - build_libcnb_buildpacks_dependency_graph keeps the directories       *)
(*    whose descriptor parses AND that are libcnb.rs buildpacks (component *)
(*    + Cargo.toml) or composite buildpacks (determine_buildpack_kind).    *)
(*  - cross_compile_assistance (cross_compile.rs): decision table over     *)
(*    (target triple, host OS, host arch, is the C compiler on PATH).      *)
(***************************************************************************)
EXTENDS TLC, Json, Sequences, FiniteSets, Naturals

CONSTANTS EmitTR

-----------------------------------------------------------------------------
(* workspace discovery *)

\* positions of the generated workspace and why a walk may not reach them
Positions == {"bps/a", "bps/a/sub", ".hidden/b", "ign/c", "gi/d", "lnk/e"}
\* lnk/e: a symbolic link to a directory outside the workspace tree - a directory all the same
Contents == {"absent", "libcnb", "other", "composite", "malformed"}
\*  libcnb = component descriptor + Cargo.toml, other = component descriptor only,
\*  malformed = a buildpack.toml that does not parse

Workspaces == [Positions -> Contents]

\* implementation-shaped: the walk, then the two filters
Reached(w, git, p) ==
  /\ w[p] # "absent"
  /\ p # ".hidden/b"                         \* hidden(true)
  /\ p # "ign/c"                             \* .ignore:   ign/
  /\ (p = "gi/d" => ~git)                    \* .gitignore: gi/   (require_git(true))
  /\ (p = "bps/a/sub" => TRUE)               \* nesting does not stop the walk (the parent directory
                                             \*   exists even when it holds no buildpack itself)
FoundDirs(w, git) == {p \in Positions : Reached(w, git, p)}      \* every content kind has a buildpack.toml
KindOf(c) == CASE c = "libcnb" -> "LibCnbRs" [] c = "composite" -> "Composite" [] c = "other" -> "Other"
               [] OTHER -> "None"           \* unreadable descriptor
GraphNodes(w, git) == {p \in FoundDirs(w, git) : KindOf(w[p]) \in {"LibCnbRs", "Composite"}}

\* declarative: a buildpack of the workspace is packaged iff nothing hides it and it is a kind
\* libcnb can package
Hidden(git, p) == p \in {".hidden/b", "ign/c"} \/ (git /\ p = "gi/d")
Packagable(c) == c \in {"libcnb", "composite"}
DiscoveryLaw ==
  \A w \in Workspaces, git \in BOOLEAN :
    /\ GraphNodes(w, git) = {p \in Positions : ~Hidden(git, p) /\ Packagable(w[p])}
    /\ GraphNodes(w, git) \subseteq FoundDirs(w, git)
    /\ (EmitTR => PrintT(<<"WD", ToJson([w |-> w, git |-> git, found |-> FoundDirs(w, git), nodes |-> GraphNodes(w, git)])>>))

-----------------------------------------------------------------------------
(* cross-compile assistance *)

Triples == {"aarch64-unknown-linux-musl", "x86_64-unknown-linux-musl", "x86_64-unknown-linux-gnu", "wasm32-wasi"}
Hosts == {<<"linux", "x86_64">>, <<"linux", "aarch64">>, <<"macos", "x86_64">>, <<"macos", "aarch64">>, <<"windows", "x86_64">>}

\* the C compiler the table asks for ("-": this pair gets no assistance)
Gcc(t, h) ==
  CASE t = "aarch64-unknown-linux-musl" /\ h = <<"linux", "x86_64">> -> "aarch64-linux-gnu-gcc"
    [] t = "aarch64-unknown-linux-musl" /\ h[1] = "macos" -> "aarch64-unknown-linux-musl-gcc"
    [] t = "aarch64-unknown-linux-musl" /\ h = <<"linux", "aarch64">> -> "musl-gcc"
    [] t = "x86_64-unknown-linux-musl" /\ h = <<"linux", "x86_64">> -> "musl-gcc"
    [] t = "x86_64-unknown-linux-musl" /\ h = <<"linux", "aarch64">> -> "x86_64-linux-gnu-gcc"
    [] t = "x86_64-unknown-linux-musl" /\ h[1] = "macos" -> "x86_64-unknown-linux-musl-gcc"
    [] OTHER -> "-"

LinkerVar(t) == IF t = "aarch64-unknown-linux-musl" THEN "CARGO_TARGET_AARCH64_UNKNOWN_LINUX_MUSL_LINKER"
                ELSE "CARGO_TARGET_X86_64_UNKNOWN_LINUX_MUSL_LINKER"
CcVar(t) == IF t = "aarch64-unknown-linux-musl" THEN "CC_aarch64_unknown_linux_musl" ELSE "CC_x86_64_unknown_linux_musl"

Assistance(t, h, present) ==
  LET gcc == Gcc(t, h) IN
  IF gcc = "-" THEN [kind |-> "none", gcc |-> "-", env |-> <<>>]
  ELSE IF ~present THEN [kind |-> "help", gcc |-> gcc, env |-> <<>>]
  ELSE IF gcc = "musl-gcc" THEN [kind |-> "config", gcc |-> gcc, env |-> <<>>]      \* cargo finds it itself
  ELSE [kind |-> "config", gcc |-> gcc, env |-> << <<LinkerVar(t), gcc>>, <<CcVar(t), gcc>> >>]

CrossLaw ==
  \A t \in Triples, h \in Hosts, present \in BOOLEAN :
    LET a == Assistance(t, h, present) IN
    \* assistance is offered exactly for a musl target built on linux / macos
    /\ (a.kind = "none") <=> ~(t \in {"aarch64-unknown-linux-musl", "x86_64-unknown-linux-musl"} /\ h[1] \in {"linux", "macos"})
    \* a native musl build needs no linker override, a cross build always names the compiler twice
    /\ (a.kind = "config" /\ a.env = <<>>) => a.gcc = "musl-gcc"
    /\ (a.kind = "config" /\ a.gcc # "musl-gcc") => (Len(a.env) = 2 /\ a.env[1][2] = a.gcc /\ a.env[2][2] = a.gcc)
    /\ (EmitTR => PrintT(<<"CC", ToJson([triple |-> t, os |-> h[1], arch |-> h[2], present |-> present, expect |-> a])>>))

ASSUME DiscoveryLaw
ASSUME CrossLaw
VARIABLE x
Spec == x = 0 /\ [][UNCHANGED x]_x
=============================================================================
