SPECIFICATION Spec
CONSTANTS
  Names = {"a", "b", "c"}
  EmitTR = TRUE
CHECK_DEADLOCK FALSE
INVARIANTS Complete FrameDst NothingLost ErrJustified FailedTargetIntact
