SPECIFICATION Spec
CONSTANTS
  Mode = "t"
  EmitTR = TRUE
CHECK_DEADLOCK FALSE
