SPECIFICATION Spec
CONSTANTS
  FollowRootLink = FALSE
  EmitTR = TRUE
CHECK_DEADLOCK FALSE
INVARIANTS EveryStepInside OutsideUntouched LayerGone AlwaysSucceeds
