SPECIFICATION Spec
CONSTANTS
  Mode = "law-t"
CHECK_DEADLOCK FALSE
