SPECIFICATION Spec
CONSTANTS
  MaxLen = 6
  EmitTR = TRUE
CHECK_DEADLOCK FALSE
