SPECIFICATION Spec
CONSTANTS
  FollowRootLink = FALSE
  Wide = TRUE
  EmitTR = TRUE
CHECK_DEADLOCK FALSE
INVARIANTS EveryStepInside OutsideUntouched LayerGone AlwaysSucceeds
