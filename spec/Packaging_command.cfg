SPECIFICATION DSpec
CONSTANTS
  Nodes = {"n1","n2","n3"}
  Mode = "command"
  EmitTR = TRUE
CHECK_DEADLOCK FALSE
