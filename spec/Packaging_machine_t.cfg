SPECIFICATION GSpec
CONSTANTS
  Nodes = {"n1","n2","n3","n4"}
  Mode = "machine"
  EmitTR = TRUE
CHECK_DEADLOCK FALSE
INVARIANTS MachineSound NeverEarly
