---------------------------- MODULE TestHarness ----------------------------
(***************************************************************************)
(* libcnb-test (C16, C17): what an integration test does to Docker.        *)
(*                                                                         *)
(*  - RStep: the RESOURCE automaton.  Docker resources and temp dirs of    *)
(*    one test process as changed by the external commands it issues.  Its *)
(*    guards ARE property C16 (nothing used after removal, only own        *)
(*    resources removed, each removed once, everything removed at the      *)
(*    end); a violated guard sets `bad`.  The argv logs of stand-in        *)
(*    docker/pack executables recorded from the real TestRunner are folded *)
(*    through it (trace validation).                                       *)
(*  - the SCOPE machine: implementation-shaped nesting of build /          *)
(*    container / rebuild closures with panics and unwinding in reverse    *)
(*    construction order (test_runner.rs, test_context.rs,                 *)
(*    container_context.rs).  The scenario is chosen step by step (bounded *)
(*    by Budget) and recorded in `script`; every complete scenario is      *)
(*    printed with the command sequence it must produce and is executed    *)
(*    with the real TestRunner.                                            *)
(*  (C17, configurations -> argv, is in Argv.tla)                           *)
(***************************************************************************)
EXTENDS TLC, Json, IOUtils, Sequences, FiniteSets, Naturals

CONSTANTS Budget,    \* maximal number of scripted steps of a scenario
          Mode,
          EmitTR

-----------------------------------------------------------------------------
(* resource automaton *)

R0 == [image |-> "none", volumes |-> "none", started |-> {}, removed |-> {}, temps |-> 0, bad |-> "no"]
Cmd(k, arg) == [cmd |-> k, arg |-> arg]
Bad(r, why) == IF r.bad = "no" THEN [r EXCEPT !.bad = why] ELSE r

RStep(r, c) ==
  CASE c.cmd = "pack-build" ->       \* (re)creates the image and both cache volumes
         IF r.image = "removed" \/ r.volumes = "removed" THEN Bad(r, "pack build after removal")
         ELSE [r EXCEPT !.image = "built", !.volumes = "live"]
    [] c.cmd \in {"run-oneshot", "sbom"} ->          \* commands that use the image
         IF r.image = "removed" THEN Bad(r, "image used after removal") ELSE r
    [] c.cmd = "run-detached" ->
         IF r.image = "removed" THEN Bad(r, "image used after removal")
         ELSE IF c.arg \in r.started THEN Bad(r, "container name reused")
         ELSE [r EXCEPT !.started = @ \cup {c.arg}]
    [] c.cmd \in {"logs", "port", "exec"} ->         \* commands that use a container
         IF c.arg \notin r.started \/ c.arg \in r.removed THEN Bad(r, "container used before start / after removal") ELSE r
    [] c.cmd = "rm" ->
         IF c.arg \notin r.started THEN Bad(r, "removed a container this run did not start")
         ELSE IF c.arg \in r.removed THEN Bad(r, "container removed twice")
         ELSE [r EXCEPT !.removed = @ \cup {c.arg}]
    [] c.cmd = "rmi" ->
         IF c.arg # "img" THEN Bad(r, "removed an image this run did not build")
         ELSE IF r.image = "removed" THEN Bad(r, "image removed twice")
         ELSE IF ~(r.started \subseteq r.removed) THEN Bad(r, "image removed while a container is alive")
         ELSE [r EXCEPT !.image = "removed"]
    [] c.cmd = "volume-rm" ->
         IF c.arg # "vols" THEN Bad(r, "removed volumes this run did not create")
         ELSE IF r.volumes = "removed" THEN Bad(r, "volumes removed twice")
         ELSE [r EXCEPT !.volumes = "removed"]
    [] c.cmd = "temp" -> [r EXCEPT !.temps = @ + c.arg]
    [] OTHER -> Bad(r, "unknown command")

RFold(r, cs) == LET f[k \in 0..Len(cs)] == IF k = 0 THEN r ELSE RStep(f[k - 1], cs[k]) IN f[Len(cs)]

\* the process may only end clean: every detached container, the image and the volumes are
\* gone (force-removing what was never created is harmless) and no temp dir is left
Clean(r) == /\ r.bad = "no" /\ r.started \subseteq r.removed
            /\ r.image = "removed" /\ r.volumes = "removed" /\ r.temps = 0

-----------------------------------------------------------------------------
(* scope machine *)

VARIABLES stack,     \* frames, innermost last: [k |-> "build", ctx, temps] | [k |-> "container", c]
          script,    \* the scenario so far
          trace,     \* external commands issued so far (temp bookkeeping included)
          res,       \* resource automaton state after `trace`
          unwinding, \* TRUE while a panic unwinds the stack
          nextc,     \* fresh container index
          done       \* the process has ended
vars == <<stack, script, trace, res, unwinding, nextc, done>>

Init == /\ stack = <<>> /\ script = <<>> /\ trace = <<>> /\ res = R0
        /\ unwinding = FALSE /\ nextc = 1 /\ done = FALSE

Top == stack[Len(stack)]
Pop == SubSeq(stack, 1, Len(stack) - 1)
CName(i) == "c" \o ToString(i)
Left == Budget - Len(script)
Step(s, o) == [step |-> s, outcome |-> o]
Issue(cs) == trace' = trace \o cs /\ res' = RFold(res, cs)

Mismatch(expected, pack) == (expected = "Success") # (pack = "ok")
\* pack = "nopack": a locally packaged buildpack (BuildpackReference::CurrentCrate / WorkspaceBuildpack)
\* cannot be built, so build_internal panics before pack is invoked - it already owns the Docker
\* resource names and the temporary directories at that point
\* pack = "missing": there is no `pack` executable on PATH (CommandError::NotFound): same shape
\* pack = "nocopy": a preprocessor is configured but the fixture cannot be copied (app::copy_app
\* fails, e.g. on a dangling symlink): the panic comes even before the buildpack directory exists
NoPack == {"nopack", "missing", "nocopy"}
PackCmds(pack) == IF pack \in NoPack THEN <<>> ELSE <<Cmd("pack-build", "img")>>

\* TestRunner::build: temp dir for packaged buildpacks (+ private app copy when a preprocessor
\* is configured), pack build, expectation check.  A mismatch panics inside build_internal,
\* which owns the Docker resources and the temp dirs at that point.
StartBuild(expected, pack, preproc) ==
  /\ stack = <<>> /\ script = <<>> /\ ~done
  /\ script' = <<Step("build", [expected |-> expected, pack |-> pack, preproc |-> preproc])>>
  /\ (pack = "nocopy" => preproc)
  /\ LET t == IF pack = "nocopy" THEN 0 ELSE IF preproc THEN 2 ELSE 1 IN
     /\ Issue(<<Cmd("temp", t)>> \o PackCmds(pack))
     /\ stack' = <<[k |-> "build", ctx |-> TRUE, temps |-> t, c |-> "-"]>>
  /\ unwinding' = (pack \in NoPack \/ Mismatch(expected, pack))
  /\ UNCHANGED <<nextc, done>>

InBuild == Len(stack) > 0 /\ Top.k = "build" /\ ~unwinding /\ ~done
InContainer == Len(stack) > 0 /\ Top.k = "container" /\ ~unwinding /\ ~done

\* run_shell_command / download_sbom_files (the latter with a temp dir of its own)
ImageStep(name, outcome) ==
  /\ InBuild /\ Top.ctx /\ Left > 0
  /\ script' = Append(script, Step(name, outcome))
  /\ Issue(IF name = "sbom" THEN <<Cmd("temp", 1), Cmd("sbom", "img"), Cmd("temp", 0 - 1)>>
           ELSE <<Cmd("run-oneshot", "img")>>)
  /\ unwinding' = (outcome = "fail")
  /\ UNCHANGED <<stack, nextc, done>>

\* start_container: the ContainerContext exists before `docker run` is issued
StartContainer(outcome) ==
  /\ InBuild /\ Top.ctx /\ Left > 0
  /\ script' = Append(script, Step("start_container", outcome))
  /\ Issue(<<Cmd("run-detached", CName(nextc))>>)
  /\ stack' = Append(stack, [k |-> "container", ctx |-> FALSE, temps |-> 0, c |-> CName(nextc)])
  /\ nextc' = nextc + 1
  /\ unwinding' = (outcome = "fail")
  /\ UNCHANGED done

\* (a failing `docker port` makes address_for_port fetch the container logs for its panic message)
ContainerStep(name, outcome) ==
  /\ InContainer /\ Left > 0
  /\ script' = Append(script, Step(name, outcome))
  /\ Issue(IF name = "port" /\ outcome = "fail" THEN <<Cmd("port", Top.c), Cmd("logs", Top.c)>>
           ELSE <<Cmd(name, Top.c)>>)
  /\ unwinding' = (outcome = "fail")
  /\ UNCHANGED <<stack, nextc, done>>

\* TestContext::rebuild moves the Docker resources into a new build of the same image
Rebuild(expected, pack) ==
  /\ InBuild /\ Top.ctx /\ Left > 0
  /\ script' = Append(script, Step("rebuild", [expected |-> expected, pack |-> pack, preproc |-> FALSE]))
  /\ Issue(<<Cmd("temp", 1)>> \o PackCmds(pack))
  /\ stack' = Append([stack EXCEPT ![Len(stack)].ctx = FALSE],
                     [k |-> "build", ctx |-> TRUE, temps |-> 1, c |-> "-"])
  /\ unwinding' = (pack = "nopack" \/ Mismatch(expected, pack))
  /\ UNCHANGED <<nextc, done>>

\* the test's own code panics
PanicStep ==
  /\ (InBuild \/ InContainer) /\ Left > 0
  /\ script' = Append(script, Step("panic", "-"))
  /\ unwinding' = TRUE
  /\ UNCHANGED <<stack, trace, res, nextc, done>>

\* leaving a scope (normally or while unwinding): Drop runs in reverse construction order.
\* container: docker rm --force.  build: if this frame still owns the Docker resources,
\* docker rmi --force then docker volume remove --force; its temp dirs are deleted.
Leave ==
  /\ IF Top.k = "container" THEN Issue(<<Cmd("rm", Top.c)>>)
     ELSE Issue((IF Top.ctx THEN <<Cmd("rmi", "img"), Cmd("volume-rm", "vols")>> ELSE <<>>)
                \o <<Cmd("temp", 0 - Top.temps)>>)
  /\ stack' = Pop

\* the closure of the innermost scope returns
ReturnStep ==
  /\ (InBuild \/ InContainer)
  /\ script' = Append(script, Step("return", "-"))
  /\ Leave
  /\ UNCHANGED <<unwinding, nextc, done>>

Unwind ==
  /\ unwinding /\ Len(stack) > 0 /\ ~done
  /\ Leave
  /\ UNCHANGED <<script, unwinding, nextc, done>>

Finish ==
  /\ stack = <<>> /\ script # <<>> /\ ~done
  /\ done' = TRUE
  /\ (EmitTR => PrintT(<<"SC", ToJson([script |-> script, panics |-> unwinding,
                                        trace |-> SelectSeq(trace, LAMBDA c : c.cmd # "temp")])>>))
  /\ UNCHANGED <<stack, script, trace, res, unwinding, nextc>>

Outcomes == {"ok", "fail"}
Next ==
  \/ \E e \in {"Success", "Failure"}, p \in Outcomes \cup NoPack, pre \in BOOLEAN : StartBuild(e, p, pre)
  \/ \E n \in {"shell", "sbom"}, o \in Outcomes : ImageStep(n, o)
  \/ \E o \in Outcomes : StartContainer(o)
  \/ \E n \in {"logs", "port", "exec"}, o \in Outcomes : ContainerStep(n, o)
  \/ \E e \in {"Success", "Failure"}, p \in Outcomes \cup {"nopack"} : Rebuild(e, p)
  \/ PanicStep \/ ReturnStep \/ Unwind \/ Finish
Spec == Init /\ [][Next]_vars

\* C16 on the implementation-shaped machine: no guard of the resource automaton is ever
\* violated, and whenever the process ends everything is clean
NoGuardViolated == res.bad = "no"
CleanAtEnd == done => Clean(res)

-----------------------------------------------------------------------------
(* trace validation: argv logs of the stand-in docker / pack executables, canonicalised by   *)
(* the harness (own image -> "img", own volumes -> "vols", containers c1, c2, ... in order   *)
(* of first appearance; anything else keeps its real name and is therefore "not own")        *)
TraceRec == ndJsonDeserialize(IOEnv.TRACE)
TraceCheck ==
  \A i \in DOMAIN TraceRec :
    LET r == RFold(R0, TraceRec[i].cmds)
        r2 == [r EXCEPT !.temps = TraceRec[i].temps_left]
    IN  \/ Clean(r2)
        \/ (PrintT(<<"TRACE_MISMATCH", i, r2.bad>>) /\ FALSE)

ASSUME Mode = "trace" => TraceCheck
=============================================================================
