------------------------- MODULE PackagingPipeline -------------------------
EXTENDS TLC, Json, Sequences, FiniteSets, Naturals
CONSTANT EmitTR
-----------------------------------------------------------------------------
(* C15: the packaging pipeline of one buildpack over a persistent output   *)
(* directory.  An output directory is a set of entries tagged with what    *)
(* they are: "cur:<x>" = what this run writes, "old:<x>" = written by an   *)
(* earlier run from different sources, "junk" = foreign.                   *)

Steps == <<"wipe", "mkdir", "descriptor", "main", "detect", "additional", "package">>
Written(step) == CASE step = "descriptor" -> {"buildpack.toml"} [] step = "main" -> {"bin/build"}
                   [] step = "detect" -> {"bin/detect"} [] step = "additional" -> {"additional-bin/extra"}
                   [] step = "package" -> {"package.toml"} [] OTHER -> {}
Expected == UNION {Written(Steps[i]) : i \in DOMAIN Steps}

VARIABLES outdir,   \* [exists, cur (entries of this version), stale (entries that are not)]
          pc,       \* next step of the running pipeline, 0 = not running
          runs,     \* completed or crashed runs so far
          status    \* "idle" | "running" | "done" (last run completed) | "crashed"
pvars == <<outdir, pc, runs, status>>

PInit == /\ outdir \in {[exists |-> FALSE, cur |-> {}, stale |-> {}],
                        [exists |-> TRUE, cur |-> {}, stale |-> {"junk"}]}
         /\ pc = 0 /\ runs = 0 /\ status = "idle"

Start == pc = 0 /\ runs < 3 /\ pc' = 1 /\ status' = "running" /\ UNCHANGED <<outdir, runs>>
Step ==
  /\ pc \in 1..Len(Steps)
  /\ LET s == Steps[pc] IN
     outdir' = CASE s = "wipe"  -> [exists |-> FALSE, cur |-> {}, stale |-> {}]
                 [] s = "mkdir" -> [outdir EXCEPT !.exists = TRUE]
                 [] OTHER -> [outdir EXCEPT !.cur = @ \cup Written(s)]
  /\ pc' = IF pc = Len(Steps) THEN 0 ELSE pc + 1
  /\ runs' = IF pc = Len(Steps) THEN runs + 1 ELSE runs
  /\ status' = IF pc = Len(Steps) THEN "done" ELSE "running"
\* the process dies between two steps
Crash == pc > 0 /\ pc' = 0 /\ runs' = runs + 1 /\ status' = "crashed" /\ UNCHANGED outdir
\* the sources change between runs: what an earlier run wrote is no longer current
EditSource == pc = 0 /\ outdir.cur # {} /\ outdir' = [outdir EXCEPT !.cur = {}, !.stale = @ \cup {"old:" \o x : x \in outdir.cur}]
              /\ status' = "idle" /\ UNCHANGED <<pc, runs>>
PNext == Start \/ Step \/ Crash \/ EditSource
PSpec == PInit /\ [][PNext]_pvars

\* whatever was there when the run started, a completed run leaves exactly the expected entries
CompleteAfterRun ==
  status = "done" => (outdir.exists /\ outdir.cur = Expected /\ outdir.stale = {})
\* the states an interrupted earlier run can leave behind (emitted as seeds for the replay)
SeedCases == (pc = 0 /\ EmitTR) => PrintT(<<"SV", ToJson(outdir)>>)

=============================================================================
