SPECIFICATION Spec
CONSTANTS
  Names <- MCNames
  Procs <- MCProcs
  EnvSet <- MCEnvSetThorough
  Foreign <- MCForeign
  EmitTR = TRUE
  Mode = "c03"
CHECK_DEADLOCK FALSE
INVARIANTS ExactLayout RoundTrip ReadRules
PROPERTIES WriteForgets
CONSTRAINT FewFiles
