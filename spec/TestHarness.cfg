SPECIFICATION Spec
CONSTANTS
  Budget = 5
  Mode = "mc"
  EmitTR = TRUE
CHECK_DEADLOCK FALSE
INVARIANTS NoGuardViolated CleanAtEnd
