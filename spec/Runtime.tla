------------------------------ MODULE Runtime ------------------------------
(***************************************************************************)
(* One execution of a libcnb buildpack executable (libcnb/src/runtime.rs): *)
(* API check -> dispatch on the executable name -> argument parsing ->     *)
(* context assembly -> buildpack code -> output writing -> exit.           *)
(*                                                                         *)
(* Inputs are chosen lazily, at the step that consults them, so that TLC   *)
(* explores the decision tree with its early exits; an input that was      *)
(* never consulted stays "?" (the harness fills it arbitrarily: it must be *)
(* irrelevant).  Every complete path is printed as one test case.          *)
(***************************************************************************)
EXTENDS TLC, Json, Sequences, FiniteSets, Naturals

CONSTANTS SbomIds,    \* ids of the SBOM format sets a build result may carry (see SbomSetOf)
          OtherNames, \* executable names that are neither "detect" nor "build"
          EmitTR

VARIABLES pc,    \* control point
          cfg,   \* inputs decided so far
          out    \* observable outputs so far

vars == <<pc, cfg, out>>

Unknown == "?"
\* all inputs are strings so that "?" is comparable with every decided value
SbomSetOf(id) == CASE id = "s1" -> {"cdx.json"} [] id = "s2" -> {"spdx.json", "syft.json"}
                   [] id = "s3" -> {"cdx.json", "spdx.json", "syft.json"} [] OTHER -> {}
Yes(b) == IF b THEN "yes" ELSE "no"
Cfg0 == [bpdir |-> Unknown, desc |-> Unknown, exe |-> Unknown, argc |-> Unknown,
         platform |-> Unknown, plan |-> Unknown, store |-> Unknown,
         t_os |-> Unknown, t_arch |-> Unknown, t_dname |-> Unknown, t_dver |-> Unknown,
         t_variant |-> Unknown,
         detect |-> Unknown, planpath |-> Unknown,
         berror |-> Unknown, launch |-> Unknown, storeout |-> Unknown,
         bsbom |-> Unknown, lsbom |-> Unknown, pre |-> Unknown]

\* exit: "0" | "100" | "err" (neither 0 nor 100, error handler ran once)
\*       | "guard" (non-zero; the property leaves handler and code open)
\* telemetry (only with libcnb's `trace` feature, extension X03): what the run appends to
\* /tmp/libcnb-telemetry/<buildpack id>-<phase>.jsonl - "none": tracing was never initialised;
\* "open": initialised, outcome not yet known; otherwise the one outcome event of the phase's span
Out0 == [exit |-> "-", onerror |-> "0", userdetect |-> 0, userbuild |-> 0,
         planwritten |-> FALSE, files |-> {}, telemetry |-> "none"]

Init == pc = "Start" /\ cfg = Cfg0 /\ out = Out0

Go(p, field, val) == /\ pc' = p /\ cfg' = [cfg EXCEPT ![field] = val] /\ UNCHANGED out
\* an error raised before the phase starts: no buildpack code, non-zero exit
Guard(field, val) ==
  /\ pc' = "Exit" /\ cfg' = [cfg EXCEPT ![field] = val]
  /\ out' = [out EXCEPT !.exit = "guard", !.onerror = "any"]
\* an error raised inside the detect/build phase: handler once, exit neither 0 nor 100
Fail(field, val) ==
  /\ pc' = "Exit" /\ cfg' = [cfg EXCEPT ![field] = val]
  /\ out' = [out EXCEPT !.exit = "err", !.onerror = "1",
                        !.telemetry = IF @ = "open" THEN "error" ELSE @]

-----------------------------------------------------------------------------
(* libcnb_runtime *)

\* read_buildpack_descriptor::<BuildpackDescriptorApiOnly>
ApiCheck ==
  /\ pc = "Start"
  /\ \/ Guard("bpdir", "unset")                               \* CNB_BUILDPACK_DIR missing
     \/ Go("Api", "bpdir", "set")
ApiCheck2 ==
  /\ pc = "Api"
  /\ \/ \E d \in {"otherapi", "malformed", "missing"} : Guard("desc", d)
     \/ \E d \in {"ok", "restbad"} : Go("Dispatch", "desc", d) \* api readable and supported

Dispatch ==
  /\ pc = "Dispatch"
  /\ \/ \E n \in OtherNames : Guard("exe", n)
     \/ Go("DetectArgs", "exe", "detect")
     \/ Go("BuildArgs", "exe", "build")

DetectArgs ==
  /\ pc = "DetectArgs"
  /\ \/ \E n \in {"0", "1", "3", "4"} : Guard("argc", n)
     \/ Go("DetectDesc", "argc", "2")
BuildArgs ==
  /\ pc = "BuildArgs"
  /\ \/ \E n \in {"0", "1", "2", "4"} : Guard("argc", n)
     \/ Go("BuildDesc", "argc", "3")

\* full descriptor (ComponentBuildpackDescriptor<Metadata>)
\* (init_tracing runs right after the descriptor was read)
FullDesc(next) ==
  IF cfg.desc = "restbad" THEN Fail("desc", "restbad")
  ELSE pc' = next /\ out' = [out EXCEPT !.telemetry = "open"] /\ UNCHANGED cfg

\* Platform::from_path: "ok" plain files; "rich" also directories, symlinks to files and
\* directories, dangling links (all tolerated); "noenvdir" (tolerated); the others are errors
PlatformStep(next) ==
  \/ \E p \in {"ok", "rich", "noenvdir"} : Go(next, "platform", p)
  \/ \E p \in {"envisfile", "nonutf8"} : Fail("platform", p)

\* context_target: CNB_TARGET_* in the order the code reads them
TargetStep(field, next) == \/ Fail(field, "unset") \/ Go(next, field, "set")

-----------------------------------------------------------------------------
(* detect phase (libcnb_runtime_detect) *)

DetectDesc == pc = "DetectDesc" /\ FullDesc("DetectPlatform")
DetectPlatform == pc = "DetectPlatform" /\ PlatformStep("DetectT1")
DetectT1 == pc = "DetectT1" /\ TargetStep("t_os", "DetectT2")
DetectT2 == pc = "DetectT2" /\ TargetStep("t_arch", "DetectT2v")
\* the variant is optional; a value that cannot be represented is a reported error (C06)
\* ("empty": the platform set the variable to the empty string; that is a value, not absence)
VariantStep(next) == \/ \E v \in {"set", "unset", "empty"} : Go(next, "t_variant", v)
                     \/ Fail("t_variant", "nonutf8")
DetectT2v == pc = "DetectT2v" /\ VariantStep("DetectT3")
DetectT3 == pc = "DetectT3" /\ TargetStep("t_dname", "DetectT4")
DetectT4 == pc = "DetectT4" /\ TargetStep("t_dver", "DetectUser")

DetectUser ==
  /\ pc = "DetectUser"
  /\ \E b \in {"pass", "pass_plan", "fail", "error"} :
       /\ cfg' = [cfg EXCEPT !.detect = b]
       /\ CASE b = "pass"  -> pc' = "Exit" /\ out' = [out EXCEPT !.userdetect = 1, !.exit = "0", !.telemetry = "passed"]
            [] b = "fail"  -> pc' = "Exit" /\ out' = [out EXCEPT !.userdetect = 1, !.exit = "100", !.telemetry = "failed"]
            [] b = "error" -> pc' = "Exit" /\ out' = [out EXCEPT !.userdetect = 1, !.exit = "err",
                                                                !.onerror = "1", !.telemetry = "error"]
            [] b = "pass_plan" -> pc' = "DetectWrite" /\ out' = [out EXCEPT !.userdetect = 1]

DetectWrite ==
  /\ pc = "DetectWrite"
  /\ \/ /\ cfg' = [cfg EXCEPT !.planpath = "ok"] /\ pc' = "Exit"
        /\ out' = [out EXCEPT !.exit = "0", !.planwritten = TRUE, !.telemetry = "passed"]
     \/ /\ cfg' = [cfg EXCEPT !.planpath = "unwritable"] /\ pc' = "Exit"
        /\ out' = [out EXCEPT !.exit = "err", !.onerror = "1", !.telemetry = "error"]

-----------------------------------------------------------------------------
(* build phase (libcnb_runtime_build) *)

BuildDesc == pc = "BuildDesc" /\ FullDesc("BuildPlatform")
BuildPlatform == pc = "BuildPlatform" /\ PlatformStep("BuildPlan")
BuildPlan ==
  /\ pc = "BuildPlan"
  /\ \/ Go("BuildStore", "plan", "ok")
     \/ \E p \in {"malformed", "missing", "nonutf8"} : Fail("plan", p)
BuildStore ==
  /\ pc = "BuildStore"
  /\ \/ \E s \in {"absent", "ok"} : Go("BuildT1", "store", s)
     \* present but not a readable document: syntax error, not UTF-8, not a file
     \/ \E s \in {"malformed", "nonutf8", "isdir"} : Fail("store", s)
BuildT1 == pc = "BuildT1" /\ TargetStep("t_os", "BuildT2")
BuildT2 == pc = "BuildT2" /\ TargetStep("t_arch", "BuildT2v")
BuildT2v == pc = "BuildT2v" /\ VariantStep("BuildT3")
BuildT3 == pc = "BuildT3" /\ TargetStep("t_dname", "BuildT4")
BuildT4 == pc = "BuildT4" /\ TargetStep("t_dver", "BuildUser")

SbomFiles(kind, fmts) == {kind \o ".sbom." \o f : f \in fmts}

BuildUser ==
  /\ pc = "BuildUser"
  /\ \E pre \in BOOLEAN :
     \/ \E e \in {"buildpack", "layer"} :
          /\ cfg' = [cfg EXCEPT !.berror = e, !.pre = Yes(pre)] /\ pc' = "Exit"
          /\ out' = [out EXCEPT !.userbuild = 1, !.exit = "err", !.onerror = "1", !.telemetry = "error"]
     \* the result is fine but one of the files it asks for cannot be written (something that is no
     \* regular file sits in its place): an error like any other, whichever file it is
     \/ \E la \in {"yes", "no"}, st \in {"yes", "no"}, bs \in SbomIds, ls \in SbomIds :
          \E f \in (IF la # "no" THEN {"launch.toml"} ELSE {}) \cup SbomFiles("build", SbomSetOf(bs)) \cup SbomFiles("launch", SbomSetOf(ls)) :
            /\ ~pre
            /\ cfg' = [cfg EXCEPT !.berror = "none", !.launch = la, !.storeout = st, !.bsbom = bs, !.lsbom = ls,
                                  !.pre = "blocked:" \o f]
            /\ pc' = "Exit"
            /\ out' = [out EXCEPT !.userbuild = 1, !.exit = "err", !.onerror = "1", !.telemetry = "error"]
     \* a part of the result may be provided with content ("yes"), provided but empty
     \* ("empty": still provided, so still written) or not provided ("no")
     \/ \E la \in {"yes", "empty", "no"}, st \in {"yes", "empty", "no"}, bs \in SbomIds, ls \in SbomIds :
          /\ cfg' = [cfg EXCEPT !.berror = "none", !.launch = la, !.storeout = st,
                                !.bsbom = bs, !.lsbom = ls, !.pre = Yes(pre)]
          /\ pc' = "Exit"
          /\ out' = [out EXCEPT !.userbuild = 1, !.exit = "0", !.telemetry = "success",
                       !.files = (IF la # "no" THEN {"launch.toml"} ELSE {})
                                 \cup (IF st # "no" THEN {"store.toml"} ELSE {})
                                 \cup SbomFiles("build", SbomSetOf(bs))
                                 \cup SbomFiles("launch", SbomSetOf(ls))]

-----------------------------------------------------------------------------

Done ==
  /\ pc = "Exit"
  /\ pc' = "Done" /\ UNCHANGED <<cfg, out>>
  /\ (EmitTR => PrintT(<<"RP", ToJson([cfg |-> cfg, out |-> out])>>))

Next == \/ ApiCheck \/ ApiCheck2 \/ Dispatch \/ DetectArgs \/ BuildArgs
        \/ DetectDesc \/ DetectPlatform \/ DetectT1 \/ DetectT2 \/ DetectT2v \/ DetectT3 \/ DetectT4
        \/ DetectUser \/ DetectWrite
        \/ BuildDesc \/ BuildPlatform \/ BuildPlan \/ BuildStore
        \/ BuildT1 \/ BuildT2 \/ BuildT2v \/ BuildT3 \/ BuildT4 \/ BuildUser
        \/ Done

Spec == Init /\ [][Next]_vars

-----------------------------------------------------------------------------
(* C05, restated over the terminal states *)

AtExit == pc \in {"Exit", "Done"}

\* run as detect: 0 exactly when detection passed, the plan written exactly when one was given
DetectExit0 ==
  (AtExit /\ cfg.exe = "detect") =>
     /\ (out.exit = "0") = (cfg.detect \in {"pass", "pass_plan"} /\ cfg.planpath # "unwritable")
     /\ out.planwritten = (cfg.detect = "pass_plan" /\ cfg.planpath = "ok")
\* 100 exactly when detection failed, and then no plan
DetectExit100 ==
  (AtExit /\ cfg.exe = "detect") => ((out.exit = "100") = (cfg.detect = "fail"))
\* any error inside a phase: handler exactly once, status neither 0 nor 100
ErrorHandledOnce ==
  AtExit => ((out.exit = "err") = (out.onerror = "1"))
\* build: outputs exactly for the provided parts; exit 0 only then
BuildWritesExactlyProvided ==
  (AtExit /\ cfg.exe = "build") =>
     /\ (out.exit = "0") = (cfg.berror = "none" /\ cfg.pre \in {"yes", "no"})
     /\ (out.exit # "0") => out.files = {}
     /\ (out.exit = "0") =>
          /\ ("launch.toml" \in out.files) = (cfg.launch \in {"yes", "empty"})
          /\ ("store.toml" \in out.files) = (cfg.storeout \in {"yes", "empty"})
          /\ \A f \in {"cdx.json", "spdx.json", "syft.json"} :
               /\ (("build.sbom." \o f) \in out.files) = (f \in SbomSetOf(cfg.bsbom))
               /\ (("launch.sbom." \o f) \in out.files) = (f \in SbomSetOf(cfg.lsbom))
\* unsupported / unreadable API, wrong name, wrong argument count, missing mandatory
\* environment: buildpack code never runs and the exit status is not 0
GuardsBeforeUserCode ==
  AtExit =>
    ((\/ cfg.bpdir = "unset" \/ cfg.desc \in {"otherapi", "malformed", "missing", "restbad"}
      \/ cfg.exe \in OtherNames
      \/ (cfg.exe = "detect" /\ cfg.argc # "2") \/ (cfg.exe = "build" /\ cfg.argc # "3")
      \/ "unset" \in {cfg.t_os, cfg.t_arch, cfg.t_dname, cfg.t_dver})
     => (out.userdetect = 0 /\ out.userbuild = 0 /\ out.exit \notin {"0", "-"}))
\* X03: the telemetry record agrees with the exit status, and exists exactly when the phase began
TelemetryMatchesExit ==
  AtExit =>
    /\ out.telemetry # "open"
    /\ (out.telemetry \in {"passed", "success"}) = (out.exit = "0")
    /\ (out.telemetry = "failed") = (out.exit = "100")
    /\ (out.telemetry = "error") => out.exit = "err"
    /\ (out.telemetry = "none") => (out.userdetect = 0 /\ out.userbuild = 0 /\ out.exit \notin {"0", "100"})
\* buildpack code of the other phase never runs
RightPhase == AtExit => /\ (cfg.exe # "detect" => out.userdetect = 0)
                        /\ (cfg.exe # "build" => out.userbuild = 0)
=============================================================================
