SPECIFICATION Spec
CONSTANTS
  Cap = 2
  Scripts <- MCBadForSequential
  Sequential = FALSE
  Mode = "mc"
  EmitTR = FALSE
  Api = "spawn"
  WCaps = {1, 3}
  WriteAll = TRUE
  SpawnWaits = TRUE
PROPERTIES Returns
