------------------------------ MODULE LayerEnv ------------------------------
(***************************************************************************)
(* Layer environments (libcnb/src/layer_env.rs): the delta algebra and its *)
(* application (C04), the on-disk layout with write / read (C03) and the   *)
(* implicit layer paths (C10).                                             *)
(*                                                                         *)
(* Values are sequences of tokens (concatenation = \o, empty string = <<>>)*)
(* so that "joined with the delimiter" is structural.  Names and tokens    *)
(* are mapped to byte strings by the harness.                              *)
(***************************************************************************)
EXTENDS TLC, Json, Sequences, FiniteSets, Naturals

CONSTANTS Names,      \* variable names (a sequence: the order libcnb's BTreeMap would use)
          Procs,      \* process types that may own entries
          EnvSet,     \* the layer environments the disk model writes
          Foreign,    \* spec-shaped files other tools may have put into env directories
          EmitTR

NameSet == {Names[i] : i \in DOMAIN Names}

\* libcnb's Ord for ModificationBehavior: the order entries of one delta are applied in
Behs   == <<"append", "default", "delim", "override", "prepend">>
BehSet == {Behs[i] : i \in DOMAIN Behs}

Scopes      == {"all", "build", "launch"} \cup {"process:" \o p : p \in Procs}
QueryScopes == Scopes \cup {"process:unknown"}

Unset  == [set |-> FALSE, v |-> <<>>]
Val(v) == [set |-> TRUE, v |-> v]

\* a layer environment: set of entries, at most one per (scope, beh, name)
Entry(s, b, n, v) == [scope |-> s, beh |-> b, name |-> n, v |-> v]
WellFormed(E) == \A e1, e2 \in E :
                   (e1.scope = e2.scope /\ e1.beh = e2.beh /\ e1.name = e2.name) => e1 = e2
Delta(E, s) == {e \in E : e.scope = s}

-----------------------------------------------------------------------------
(* Implementation-shaped application: LayerEnvDelta::apply iterates its     *)
(* BTreeMap, i.e. entries sorted by (behaviour, name); LayerEnv::apply folds*)
(* the deltas  all -> scope specific -> implicit layer paths.               *)

Has(d, b, n) == \E e \in d : e.beh = b /\ e.name = n
Get(d, b, n) == (CHOOSE e \in d : e.beh = b /\ e.name = n).v
DelimFor(d, n) == IF Has(d, "delim", n) THEN Get(d, "delim", n) ELSE <<>>

\* one entry (b, n) of delta d applied to the current value of n
ApplyEntry(d, b, n, cur) ==
  IF ~Has(d, b, n) THEN cur
  ELSE LET v == Get(d, b, n)
           prev == IF cur.set THEN cur.v ELSE <<>>
       IN CASE b = "override" -> Val(v)
            [] b = "default"  -> IF cur.set THEN cur ELSE Val(v)
            [] b = "append"   -> Val(IF prev # <<>> THEN prev \o DelimFor(d, n) \o v ELSE v)
            [] b = "prepend"  -> Val(IF prev # <<>> THEN v \o DelimFor(d, n) \o prev ELSE v)
            [] b = "delim"    -> cur

\* the sorted map is visited in (behaviour, name) order; entries of different names do not
\* interact, so per name the entries are applied in behaviour order
ApplyDelta(d, env) ==
  [n \in DOMAIN env |->
     LET f[k \in 0..Len(Behs)] == IF k = 0 THEN env[n] ELSE ApplyEntry(d, Behs[k], n, f[k - 1])
     IN  f[Len(Behs)]]

\* deltas that count for a query scope (implicit layer paths: see LayerPaths below)
DeltasFor(E, q, paths) ==
  CASE q = "all"    -> <<Delta(E, "all")>>
    [] q = "build"  -> <<Delta(E, "all"), Delta(E, "build"), Delta(paths, "build")>>
    [] q = "launch" -> <<Delta(E, "all"), Delta(E, "launch"), Delta(paths, "launch")>>
    [] OTHER        -> IF Delta(E, q) = {} THEN <<Delta(E, "all")>>
                       ELSE <<Delta(E, "all"), Delta(E, q)>>

Apply(E, q, paths, env) ==
  LET ds == DeltasFor(E, q, paths)
      g[i \in 0..Len(ds)] == IF i = 0 THEN env ELSE ApplyDelta(ds[i], g[i - 1])
  IN  g[Len(ds)]

-----------------------------------------------------------------------------
(* The CNB modification rules, written per variable from the property text  *)
(* (C04): what one delta does to one variable, as a closed form.            *)

Join(a, delim, b) == IF a = <<>> THEN b ELSE IF b = <<>> THEN a ELSE a \o delim \o b

LawDelta(d, n, cur) ==
  LET delim == DelimFor(d, n)
      \* append: join with the delimiter only when the previous value is non-empty
      a1 == IF Has(d, "append", n)
            THEN Val(IF cur.set /\ cur.v # <<>> THEN cur.v \o delim \o Get(d, "append", n)
                     ELSE Get(d, "append", n))
            ELSE cur
      \* default: only fills an unset variable (an empty string is set)
      a2 == IF Has(d, "default", n) /\ ~a1.set THEN Val(Get(d, "default", n)) ELSE a1
      \* override: replaces
      a3 == IF Has(d, "override", n) THEN Val(Get(d, "override", n)) ELSE a2
      \* prepend: join with the delimiter only when the previous value is non-empty
      a4 == IF Has(d, "prepend", n)
            THEN Val(IF a3.set /\ a3.v # <<>> THEN Get(d, "prepend", n) \o delim \o a3.v
                     ELSE Get(d, "prepend", n))
            ELSE a3
  IN a4

\* entries of scope all apply before the scope-specific ones; other scopes have no effect;
\* variables without entries are returned unchanged
LawApply(E, q, paths, env) ==
  [n \in NameSet |->
     LET afterAll == LawDelta(Delta(E, "all"), n, env[n])
         afterOwn == IF q = "all" THEN afterAll ELSE LawDelta(Delta(E, q), n, afterAll)
     IN  IF q \in {"build", "launch"} THEN LawDelta(Delta(paths, q), n, afterOwn) ELSE afterOwn]

-----------------------------------------------------------------------------
(* C10: implicit layer paths.  kinds: what <layer>/bin, lib, include,       *)
(* pkgconfig are on disk.  A path counts exactly when it is a directory     *)
(* (following symlinks).  The value token <<"@", d>> stands for             *)
(* "<layer dir>/<d>" (the harness substitutes the real path).               *)

PathDirs  == {"bin", "lib", "include", "pkgconfig"}
PathKinds == {"absent", "dir", "file", "linkdir", "linkfile", "dangling"}
IsDir(k)  == k \in {"dir", "linkdir"}

\* the table from the CNB spec "Layer Paths": (variable, scope, directory)
PathSpecs == { <<"PATH", "build", "bin">>, <<"LIBRARY_PATH", "build", "lib">>,
               <<"LD_LIBRARY_PATH", "build", "lib">>, <<"CPATH", "build", "include">>,
               <<"PKG_CONFIG_PATH", "build", "pkgconfig">>,
               <<"PATH", "launch", "bin">>, <<"LD_LIBRARY_PATH", "launch", "lib">> }

LayerPaths(kinds) ==
  UNION { IF IsDir(kinds[p[3]])
          THEN { Entry(p[2], "prepend", p[1], <<"@", p[3]>>), Entry(p[2], "delim", p[1], <<":">>) }
          ELSE {} : p \in PathSpecs }

-----------------------------------------------------------------------------
(* C03: the on-disk layout.  A file is [dir, stem, ext, v]; ext = "" is a   *)
(* suffix-less file.  dir is "env", "env.build", "env.launch" or            *)
(* "env.launch/<process>"; sub = TRUE marks a file inside a further         *)
(* sub-directory "sub" of dir (something libcnb never writes).              *)

VARIABLES disk,    \* set of env files
          dirs,    \* set of env directories that exist
          written  \* [ok, E]: ok = the last action was a write of E (nothing foreign since)

vars == <<disk, dirs, written>>

ProcOfScope(s) == CHOOSE p \in Procs : s = "process:" \o p
ProcOfDir(d)   == CHOOSE p \in Procs \cup {"other"} : d = "env.launch/" \o p
DirOf(s) == CASE s = "all" -> "env" [] s = "build" -> "env.build" [] s = "launch" -> "env.launch"
              [] OTHER -> "env.launch/" \o ProcOfScope(s)
ScopeOfDir(d) == CASE d = "env" -> "all" [] d = "env.build" -> "build" [] d = "env.launch" -> "launch"
                   [] OTHER -> "process:" \o ProcOfDir(d)
AllDirs == {DirOf(s) : s \in Scopes}

File(d, stem, ext, v, sub) == [dir |-> d, stem |-> stem, ext |-> ext, v |-> v, sub |-> sub]
FileOf(e) == File(DirOf(e.scope), e.name, e.beh, e.v, FALSE)

\* what the CNB spec prescribes for E: one file NAME.<behaviour> per entry, raw value bytes
Layout(E)     == {FileOf(e) : e \in E}
LayoutDirs(E) == {DirOf(e.scope) : e \in E}
                 \cup (IF \E e \in E : e.scope \notin {"all", "build", "launch"} THEN {"env.launch"} ELSE {})

\* LayerEnv::write_to_layer_dir: per top-level directory remove, recreate only when needed
Write(E) ==
  /\ disk' = Layout(E)
  /\ dirs' = LayoutDirs(E)
  /\ written' = [ok |-> TRUE, E |-> E]

\* reader (LayerEnv::read_from_layer_dir): suffix -> behaviour, suffix-less = override,
\* unknown suffixes and anything in deeper sub-directories ignored
ReadDisk(fs) ==
  { Entry(ScopeOfDir(f.dir), IF f.ext = "" THEN "override" ELSE f.ext, f.stem, f.v)
      : f \in {g \in fs : ~g.sub /\ (g.ext = "" \/ g.ext \in BehSet)} }

\* another tool (or an older buildpack) leaves a spec-shaped file behind
ForeignFile(f) ==
  /\ f \notin disk
  \* never two files that denote the same entry (their order would be directory order)
  /\ ~\E g \in disk : g.dir = f.dir /\ g.stem = f.stem /\ ~g.sub /\ ~f.sub
                      /\ {g.ext, f.ext} \subseteq {"", "override"}
  /\ disk' = disk \cup {f}
  /\ dirs' = dirs \cup {f.dir} \cup (IF f.dir \notin {"env", "env.build"} THEN {"env.launch"} ELSE {})
  /\ written' = [ok |-> FALSE, E |-> {}]

Probes == { [n \in NameSet |-> Unset], [n \in NameSet |-> Val(<<"p">>)] }
NoPaths == {}

ProbeResults(E) ==
  [q \in QueryScopes |-> {[env0 |-> p, result |-> Apply(E, q, NoPaths, p)] : p \in Probes}]

EmitW(kind, arg) ==
  EmitTR => PrintT(<<"TW", ToJson([kind |-> kind, arg |-> arg, pre |-> disk, predirs |-> dirs,
                                   post |-> disk', postdirs |-> dirs',
                                   readback |-> ProbeResults(ReadDisk(disk'))])>>)

Init == disk = {} /\ dirs = {} /\ written = [ok |-> FALSE, E |-> {}]
Next == \/ \E E \in EnvSet : Write(E) /\ EmitW("write", E)
        \/ \E f \in Foreign : ForeignFile(f) /\ EmitW("foreign", f)
Spec == Init /\ [][Next]_vars

\* C03, restated: after a write the env files are exactly the prescribed ones (every file
\* of an earlier environment or another tool is gone), and reading them back applies
\* identically for every scope and starting environment
ExactLayout == written.ok => disk = Layout(written.E) /\ dirs = LayoutDirs(written.E)
RoundTrip   == written.ok =>
                 \A q \in QueryScopes, p \in Probes :
                   Apply(ReadDisk(disk), q, NoPaths, p) = Apply(written.E, q, NoPaths, p)
WriteForgets == [][\A E \in EnvSet : written' = [ok |-> TRUE, E |-> E] => disk' = Layout(E)]_vars
\* suffix-less files read as override, unknown suffixes are ignored
ReadRules ==
  \A f \in disk : ~f.sub =>
    /\ (f.ext = "" => Entry(ScopeOfDir(f.dir), "override", f.stem, f.v) \in ReadDisk(disk))
    /\ (f.ext \notin BehSet \cup {""} => \A e \in ReadDisk(disk) : ~(e.name = f.stem /\ e.v = f.v /\ e.scope = ScopeOfDir(f.dir) /\ e.beh = f.ext))
=============================================================================
