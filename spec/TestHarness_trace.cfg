SPECIFICATION Spec
CONSTANTS
  Budget = 0
  Mode = "trace"
  EmitTR = FALSE
CHECK_DEADLOCK FALSE
