----------------------------- MODULE TomlSelect -----------------------------
(***************************************************************************)
(* Extension X04 (not one of the listed properties):                       *)
(* libherokubuildpack::toml::toml_select_value(keys, value) and            *)
(* libherokubuildpack::error::on_error (which handler an error reaches).   *)
(*                                                                         *)
(* A TOML value is a leaf, an array or a table; tables are the only nodes  *)
(* one can descend into.  The declarative reading: the selected value is   *)
(* the node whose address (the sequence of keys leading to it through      *)
(* tables only) equals the key path; no such node, no value.  The          *)
(* implementation-shaped reading recurses on the path.  TLC checks that    *)
(* the two agree on every tree of depth <= 2 over two keys and every path  *)
(* of up to three keys over three (one key is in no table), and prints     *)
(* each case for replay against the real function.                         *)
(***************************************************************************)
EXTENDS TLC, Json, Sequences, FiniteSets, Naturals

CONSTANTS EmitTR
Keys == {"a", "b"}
PathKeys == {"a", "b", "zz"}

Leaf(n) == [k |-> "leaf", v |-> n, kids |-> <<>>]
Arr     == [k |-> "array", v |-> 0, kids |-> <<>>]
\* kids: a function from a subset of Keys to nodes, kept as a set of <<key, node>> pairs
Table(kids) == [k |-> "table", v |-> 0, kids |-> kids]

Level0 == {Leaf(1), Leaf(2), Arr}
TablesOver(S) == { Table(f) : f \in UNION { [D -> S] : D \in SUBSET Keys } }
Level1 == Level0 \cup TablesOver(Level0)
Level2 == Level0 \cup TablesOver(Level1)

Paths == UNION { [1..n -> PathKeys] : n \in 0..3 }

\* implementation-shaped: recurse on the path
RECURSIVE Select(_, _)
None == [k |-> "none", v |-> 0, kids |-> <<>>]
Select(path, node) ==
  IF path = <<>> THEN node
  ELSE IF node.k = "table" /\ Head(path) \in DOMAIN node.kids
       THEN Select(Tail(path), node.kids[Head(path)])
       ELSE None

\* declarative: all addresses of a tree (through tables only), then look the path up
RECURSIVE Addresses(_, _)
Addresses(prefix, node) ==
  {<<prefix, node>>} \cup
  (IF node.k = "table"
   THEN UNION { Addresses(Append(prefix, key), node.kids[key]) : key \in DOMAIN node.kids }
   ELSE {})
DeclSelect(path, node) ==
  LET hits == { a \in Addresses(<<>>, node) : a[1] = path }
  IN  IF hits = {} THEN None ELSE (CHOOSE a \in hits : TRUE)[2]

\* JSON form of a node for the replay: leaves are integers, arrays are [], tables objects
RECURSIVE ToTagged(_)
ToTagged(node) ==
  CASE node.k = "leaf"  -> [t |-> "leaf", v |-> node.v, kids |-> <<>>]
    [] node.k = "array" -> [t |-> "array", v |-> 0, kids |-> <<>>]
    [] node.k = "none"  -> [t |-> "none", v |-> 0, kids |-> <<>>]
    [] OTHER -> [t |-> "table", v |-> 0,
                 kids |-> [key \in DOMAIN node.kids |-> ToTagged(node.kids[key])]]

SelectLaw ==
  \A tree \in Level2, path \in Paths :
    /\ Select(path, tree) = DeclSelect(path, tree)
    /\ Cardinality({ a \in Addresses(<<>>, tree) : a[1] = path }) <= 1      \* addresses are unique
    /\ (EmitTR => PrintT(<<"TS", ToJson([tree |-> ToTagged(tree), path |-> path, want |-> ToTagged(Select(path, tree))])>>))

\* on_error: a buildpack's own error reaches the buildpack's handler, everything else is logged
ErrKinds == {"BuildpackError", "LayerError", "CannotDetermineAppDirectory", "CannotWriteBuildPlan", "CannotWriteLaunch"}
Handler(kind) == IF kind = "BuildpackError" THEN "custom" ELSE "log"
ErrorCases == \A kind \in ErrKinds : (EmitTR => PrintT(<<"OE", ToJson([kind |-> kind, handler |-> Handler(kind)])>>))

ASSUME SelectLaw /\ ErrorCases

VARIABLE dummy
Spec == dummy = 0 /\ [][UNCHANGED dummy]_dummy
=============================================================================
