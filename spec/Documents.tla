------------------------------ MODULE Documents ------------------------------
(***************************************************************************)
(* C07: the builders of libcnb-data as state machines and the abstract CNB *)
(* document each call sequence must produce.                               *)
(*   BuildPlanBuilder  (libcnb-data/src/build_plan.rs)                      *)
(*   LaunchBuilder / ProcessBuilder (libcnb-data/src/launch.rs)            *)
(* Payloads are tokens (the harness maps them to awkward strings and       *)
(* nested metadata tables).  A call is a record [op, arg].                 *)
(***************************************************************************)
EXTENDS TLC, Json, Sequences, FiniteSets, Naturals

CONSTANTS Mode, EmitTR

C(op, arg) == [op |-> op, arg |-> arg]
SeqsUpTo(S, n) == UNION {[1..k -> S] : k \in 0..n}

-----------------------------------------------------------------------------
(* build plan: provides / requires / or *)

PlanCalls == {C("provides", "p1"), C("provides", "p2"), C("requires", "r1"), C("requires", "r2-with-metadata"), C("or", "-")}

\* implementation-shaped: accumulator of closed groups plus the current group; build() closes
\* the current group, the first group becomes the top level, the rest the `or` array
PlanImpl(calls) ==
  LET st[k \in 0..Len(calls)] ==
        IF k = 0 THEN [acc |-> <<>>, prov |-> <<>>, req |-> <<>>]
        ELSE LET s == st[k - 1]  c == calls[k] IN
             CASE c.op = "provides" -> [s EXCEPT !.prov = Append(@, c.arg)]
               [] c.op = "requires" -> [s EXCEPT !.req = Append(@, c.arg)]
               [] c.op = "or" -> [acc |-> Append(s.acc, [provides |-> s.prov, requires |-> s.req]), prov |-> <<>>, req |-> <<>>]
      final == st[Len(calls)]
      groups == Append(final.acc, [provides |-> final.prov, requires |-> final.req])
  IN [provides |-> groups[1].provides, requires |-> groups[1].requires, alternatives |-> Tail(groups)]

\* declarative: the i-th maximal run of calls between `or`s is group i (empty runs included)
OrPositions(calls) == {i \in DOMAIN calls : calls[i].op = "or"}
GroupBounds(calls) ==      \* sequence of <<from, to>> (inclusive, possibly empty ranges)
  LET ors == OrPositions(calls)
      cuts == {0} \cup ors \cup {Len(calls) + 1}
      ord[k \in 1..Cardinality(cuts)] == CHOOSE p \in cuts : Cardinality({q \in cuts : q < p}) = k - 1
  IN [k \in 1..(Cardinality(cuts) - 1) |-> <<ord[k] + 1, ord[k + 1] - 1>>]
Pick(calls, from, to, op) ==
  LET idx == {i \in from..to : calls[i].op = op}
  IN [k \in 1..Cardinality(idx) |-> calls[CHOOSE i \in idx : Cardinality({j \in idx : j < i}) = k - 1].arg]
PlanDecl(calls) ==
  LET b == GroupBounds(calls)
      grp(k) == [provides |-> Pick(calls, b[k][1], b[k][2], "provides"), requires |-> Pick(calls, b[k][1], b[k][2], "requires")]
  IN [provides |-> grp(1).provides, requires |-> grp(1).requires, alternatives |-> [k \in 1..(Len(b) - 1) |-> grp(k + 1)]]

PlanRun(n) == \A calls \in SeqsUpTo(PlanCalls, n) :
                /\ PlanImpl(calls) = PlanDecl(calls)
                /\ (EmitTR => PrintT(<<"BP", ToJson([calls |-> calls, doc |-> PlanDecl(calls)])>>))

-----------------------------------------------------------------------------
(* launch: processes, labels, slices; a process built by ProcessBuilder *)

ProcCalls == {C("arg", "a1"), C("args", "a2,a3"), C("default", "true"), C("default", "false"),
              C("workdir", "app"), C("workdir", "d1"), C("workdir", "dot")}
              \* ("dot": the explicit directory "." - written as such, and not the same value as "app")
\* the process document with the CNB defaults applied: default = false, working-dir absent = app dir
ProcDoc(calls) ==
  LET st[k \in 0..Len(calls)] ==
        IF k = 0 THEN [args |-> <<>>, default |-> FALSE, workdir |-> "app"]
        ELSE LET s == st[k - 1]  c == calls[k] IN
             CASE c.op = "arg" -> [s EXCEPT !.args = Append(@, c.arg)]
               [] c.op = "args" -> [s EXCEPT !.args = @ \o <<"a2", "a3">>]
               [] c.op = "default" -> [s EXCEPT !.default = (c.arg = "true")]
               [] c.op = "workdir" -> [s EXCEPT !.workdir = c.arg]
  IN st[Len(calls)]
ProcRun(n) == \A calls \in SeqsUpTo(ProcCalls, n) :
                EmitTR => PrintT(<<"PB", ToJson([calls |-> calls, doc |-> ProcDoc(calls)])>>)

\* every builder method, singular and plural (a plural call appends all its items, in order)
LaunchCalls == {C("process", "web"), C("process", "worker"), C("processes", "p3,p4"), C("label", "l1"), C("label", "l2"),
                C("labels", "l3,l4"), C("slice", "s1"), C("slices", "s2,s3")}
ItemsOf(c) == CASE c.op = "labels" -> <<"l3", "l4">> [] c.op = "slices" -> <<"s2", "s3">>
                [] c.op = "processes" -> <<"p3", "p4">> [] OTHER -> <<c.arg>>
LaunchDoc(calls) ==
  LET of(op) == {i \in DOMAIN calls : calls[i].op = op}
      seqOf(ops) == LET idx == UNION {of(o) : o \in ops}
                    IN [k \in 1..Cardinality(idx) |-> calls[CHOOSE i \in idx : Cardinality({j \in idx : j < i}) = k - 1]]
      RECURSIVE flat(_)
      flat(s) == IF s = <<>> THEN <<>> ELSE ItemsOf(Head(s)) \o flat(Tail(s))
  IN [processes |-> flat(seqOf({"process", "processes"})),
      labels |-> flat(seqOf({"label", "labels"})),
      slices |-> flat(seqOf({"slice", "slices"}))]
LaunchRun(n) == \A calls \in SeqsUpTo(LaunchCalls, n) :
                  EmitTR => PrintT(<<"LB", ToJson([calls |-> calls, doc |-> LaunchDoc(calls)])>>)

ASSUME CASE Mode = "q" -> PlanRun(5) /\ ProcRun(4) /\ LaunchRun(4)
         [] Mode = "t" -> PlanRun(6) /\ ProcRun(5) /\ LaunchRun(5)
         [] OTHER -> TRUE
VARIABLE x
Spec == x = 0 /\ [][UNCHANGED x]_x
=============================================================================
