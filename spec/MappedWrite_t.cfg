SPECIFICATION Spec
CONSTANTS
  MaxLen = 8
  EmitTR = TRUE
CHECK_DEADLOCK FALSE
