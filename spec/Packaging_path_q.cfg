SPECIFICATION DSpec
CONSTANTS
  Nodes = {"n1"}
  Mode = "path-q"
  EmitTR = TRUE
CHECK_DEADLOCK FALSE
