----------------------------- MODULE MappedWrite -----------------------------
(***************************************************************************)
(* C19 (second half): libherokubuildpack::write::MappedWrite - buffer      *)
(* until the marker byte, emit f(segment incl. marker), and on drop/unwrap *)
(* emit f(remainder) for a NON-EMPTY remainder.  The output must not       *)
(* depend on how the input was split across write calls.                   *)
(* Symbols: "m" = marker byte, "x" = any other byte.  f = prefix with "P". *)
(***************************************************************************)
EXTENDS TLC, Json, Sequences, FiniteSets, Naturals

CONSTANTS MaxLen, EmitTR

F(seg) == <<"P">> \o seg

\* declarative: split at markers; map each marker-terminated segment and the non-empty rest
RECURSIVE Segments(_)
Segments(str) ==
  IF str = <<>> THEN <<>>
  ELSE LET idx == {i \in DOMAIN str : str[i] = "m"} IN
       IF idx = {} THEN <<str>>
       ELSE LET i == CHOOSE j \in idx : \A k \in idx : j <= k
            IN  <<SubSeq(str, 1, i)>> \o Segments(SubSeq(str, i + 1, Len(str)))
RECURSIVE Concat(_)
Concat(ss) == IF ss = <<>> THEN <<>> ELSE Head(ss) \o Concat(Tail(ss))
Decl(str) == Concat([i \in DOMAIN Segments(str) |-> F(Segments(str)[i])])

\* implementation-shaped: byte by byte into the buffer, flush at the marker; finish on drop
WriteChunk(st, chunk) ==
  LET f[k \in 0..Len(chunk)] ==
        IF k = 0 THEN st
        ELSE LET b == Append(f[k - 1].buf, chunk[k]) IN
             IF chunk[k] = "m" THEN [buf |-> <<>>, out |-> f[k - 1].out \o F(b)]
             ELSE [buf |-> b, out |-> f[k - 1].out]
  IN f[Len(chunk)]
Finish(st) == IF st.buf = <<>> THEN st ELSE [buf |-> <<>>, out |-> st.out \o F(st.buf)]

\* all ways of chunking a string: a chunking = set of cut positions
Strings == UNION {[1..n -> {"m", "x"}] : n \in 0..MaxLen}
Cuts(str) == SUBSET (1..(Len(str) - 1))
ChunksOf(str, cuts) ==
  LET pts == {0} \cup cuts \cup {Len(str)}
      ord[k \in 1..Cardinality(pts)] == CHOOSE p \in pts : Cardinality({q \in pts : q < p}) = k - 1
  IN  [k \in 1..(Cardinality(pts) - 1) |-> SubSeq(str, ord[k] + 1, ord[k + 1])]

Run(chunks) ==
  LET f[k \in 0..Len(chunks)] == IF k = 0 THEN [buf |-> <<>>, out |-> <<>>] ELSE WriteChunk(f[k - 1], chunks[k])
  IN  [steps |-> [k \in 1..Len(chunks) |-> f[k].out], final |-> Finish(f[Len(chunks)]).out]

ChunkingIndependent ==
  \A str \in Strings : \A cuts \in Cuts(str) :
    LET chunks == IF str = <<>> THEN <<>> ELSE ChunksOf(str, cuts)
        r == Run(chunks)
    IN  /\ r.final = Decl(str)
        /\ (EmitTR => PrintT(<<"MW", ToJson([chunks |-> chunks, steps |-> r.steps, final |-> r.final])>>))

ASSUME ChunkingIndependent
VARIABLE x
Spec == x = 0 /\ [][UNCHANGED x]_x
=============================================================================
