SPECIFICATION Spec
CONSTANTS
  Mode = "q"
  EmitTR = TRUE
CHECK_DEADLOCK FALSE
