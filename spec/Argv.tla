-------------------------------- MODULE Argv --------------------------------
(***************************************************************************)
(* C17: how libcnb-test turns configurations into `pack build` and         *)
(* `docker run` command lines (libcnb-test/src/pack.rs, docker.rs), and    *)
(* the option grammars of pack (flags interspersed, one positional) and    *)
(* docker run (options, then IMAGE, then everything is the command).       *)
(* A token is [s, dash]: its text and whether it starts with '-'.  User    *)
(* supplied values may look like anything, including like options.         *)
(***************************************************************************)
EXTENDS TLC, Json, IOUtils, Sequences, FiniteSets, Naturals

CONSTANTS Mode

\* eqname / eqval: for a token of the form --name=value its two halves (else "")
T(s) == [s |-> s, dash |-> TRUE, eqname |-> "", eqval |-> ""]      \* an option the tool itself writes
W(s) == [s |-> s, dash |-> FALSE, eqname |-> "", eqval |-> ""]     \* a plain word the tool itself writes

\* adversarial user values
U == { W("plain"), T("--rm"), T("-e"), W("a=b=c"), W(""),
       [s |-> "--env=X=1", dash |-> TRUE, eqname |-> "--env", eqval |-> "X=1"] }
SeqsUpTo(S, n) == UNION {[1..k -> S] : k \in 0..n}

RECURSIVE Flat(_, _)
Flat(opt, vals) == IF vals = <<>> THEN <<>> ELSE <<T(opt), Head(vals)>> \o Flat(opt, Tail(vals))

-----------------------------------------------------------------------------
(* pack build *)

PackArgv(c) ==
  <<W("build"), c.image, T("--builder"), c.builder, T("--cache"), c.cache1, T("--cache"), c.cache2,
    T("--path"), c.path, T("--pull-policy"), W("if-not-present")>>
  \o Flat("--buildpack", c.buildpacks) \o Flat("--env", c.env)
  \o <<T("--trust-builder"), T("--trust-extra-buildpacks")>>

PackValueFlags == {"--builder", "-B", "--cache", "--path", "-p", "--pull-policy", "--buildpack", "-b", "--env", "-e"}
PackBoolFlags  == {"--trust-builder", "--trust-extra-buildpacks"}
\* short spellings denote the same options
PackCanon(f) == CASE f = "-B" -> "--builder" [] f = "-p" -> "--path" [] f = "-b" -> "--buildpack" [] f = "-e" -> "--env" [] OTHER -> f
RunCanon(f) == CASE f = "-e" -> "--env" [] f = "-p" -> "--publish" [] f = "-v" -> "--volume" [] f = "-d" -> "--detach" [] OTHER -> f
PackAcc0 == [error |-> "none", pos |-> <<>>, vals |-> <<>>, flags |-> {}]

\* pack's grammar: flags may appear anywhere; a value flag consumes the next token whatever it
\* looks like; a token that looks like an option but is none is an error
ParsePack(argv) ==
  \* forward scan; `skip` marks that the previous token was a value flag
  LET g[i \in 0..Len(argv)] ==
        IF i = 0 THEN [PackAcc0 EXCEPT !.pos = <<>>] @@ [skip |-> FALSE]
        ELSE LET a == g[i - 1]  t == argv[i] IN
             IF a.error # "none" THEN a
             ELSE IF a.skip THEN [a EXCEPT !.skip = FALSE, !.vals = Append(@, <<PackCanon(argv[i - 1].s), t>>)]
             ELSE IF i = 1 THEN (IF t.s = "build" /\ ~t.dash THEN a ELSE [a EXCEPT !.error = "not build"])
             ELSE IF t.dash /\ t.s \in PackValueFlags THEN
                    (IF i = Len(argv) THEN [a EXCEPT !.error = "flag without value"] ELSE [a EXCEPT !.skip = TRUE])
             ELSE IF t.dash /\ t.eqname \in PackValueFlags THEN      \* --flag=value
                    [a EXCEPT !.vals = Append(@, <<t.eqname, W(t.eqval)>>)]
             ELSE IF t.dash /\ t.s \in PackBoolFlags THEN [a EXCEPT !.flags = @ \cup {t.s}]
             ELSE IF t.dash THEN [a EXCEPT !.error = "unknown flag"]
             ELSE [a EXCEPT !.pos = Append(@, t)]
  IN g[Len(argv)]

ValuesOf(parsed, flag) == LET idx == {i \in DOMAIN parsed.vals : parsed.vals[i][1] = flag}
                          IN  [k \in 1..Cardinality(idx) |->
                                 parsed.vals[CHOOSE i \in idx : Cardinality({j \in idx : j < i}) = k - 1][2]]

PackRoundTrip(c) ==
  LET p == ParsePack(PackArgv(c)) IN
  /\ p.error = "none"
  /\ p.pos = <<c.image>>                                 \* exactly one positional: the image
  /\ ValuesOf(p, "--builder") = <<c.builder>>
  /\ ValuesOf(p, "--path") = <<c.path>>
  /\ ValuesOf(p, "--buildpack") = c.buildpacks           \* all references, in order
  /\ ValuesOf(p, "--env") = c.env                        \* every pair exactly once
  /\ ValuesOf(p, "--cache") = <<c.cache1, c.cache2>>

PackConfigsN(n) == { [image |-> W("img"), builder |-> b, cache1 |-> W("c1"), cache2 |-> W("c2"), path |-> pa,
                  buildpacks |-> bps, env |-> env]
                   : b \in U, pa \in U, bps \in SeqsUpTo(U, n), env \in SeqsUpTo(U, n) }

-----------------------------------------------------------------------------
(* docker run *)

RunArgv(c) ==
  <<W("run"), T("--name"), c.name>>
  \o (IF c.detach THEN <<T("--detach")>> ELSE <<>>)
  \o (IF c.rm THEN <<T("--rm")>> ELSE <<>>)
  \o <<T("--platform"), c.platform>>
  \o (IF c.entrypoint = <<>> THEN <<>> ELSE <<T("--entrypoint"), c.entrypoint[1]>>)
  \o Flat("--env", c.env) \o Flat("--publish", c.ports) \o Flat("--mount", c.mounts)
  \o <<c.image>> \o c.command

RunValueOpts == {"--name", "--platform", "--entrypoint", "--env", "-e", "--publish", "-p", "--mount", "--volume", "-v"}
RunBoolOpts  == {"--detach", "-d", "--rm"}

\* docker's grammar for run: options first; the first token in option position that does not
\* look like an option is the image; everything after it is the command, verbatim
ParseRun(argv) ==
  LET g[i \in 0..Len(argv)] ==
        IF i = 0 THEN [error |-> "none", vals |-> <<>>, flags |-> {}, image |-> <<>>, command |-> <<>>, skip |-> FALSE]
        ELSE LET a == g[i - 1]  t == argv[i] IN
             IF a.error # "none" THEN a
             ELSE IF a.image # <<>> THEN [a EXCEPT !.command = Append(@, t)]
             ELSE IF a.skip THEN [a EXCEPT !.skip = FALSE, !.vals = Append(@, <<RunCanon(argv[i - 1].s), t>>)]
             ELSE IF i = 1 THEN (IF t.s = "run" /\ ~t.dash THEN a ELSE [a EXCEPT !.error = "not run"])
             ELSE IF t.dash /\ t.s \in RunValueOpts THEN
                    (IF i = Len(argv) THEN [a EXCEPT !.error = "option without value"] ELSE [a EXCEPT !.skip = TRUE])
             ELSE IF t.dash /\ t.eqname \in RunValueOpts THEN       \* --option=value
                    [a EXCEPT !.vals = Append(@, <<t.eqname, W(t.eqval)>>)]
             ELSE IF t.dash /\ t.s \in RunBoolOpts THEN [a EXCEPT !.flags = @ \cup {RunCanon(t.s)}]
             ELSE IF t.dash THEN [a EXCEPT !.error = "unknown option"]
             ELSE [a EXCEPT !.image = <<t>>]
  IN g[Len(argv)]

RunRoundTrip(c) ==
  LET p == ParseRun(RunArgv(c)) IN
  /\ p.error = "none"
  /\ p.image = <<c.image>>
  /\ p.command = c.command
  /\ ValuesOf(p, "--entrypoint") = c.entrypoint
  /\ ValuesOf(p, "--env") = c.env
  /\ ValuesOf(p, "--publish") = c.ports
  /\ ValuesOf(p, "--mount") = c.mounts
  /\ ("--detach" \in p.flags) = c.detach /\ ("--rm" \in p.flags) = c.rm

RunConfigsN(n) == { [name |-> W("n"), detach |-> d, rm |-> ~d, platform |-> W("linux/amd64"), entrypoint |-> ep,
                 env |-> env, ports |-> ports, mounts |-> m, image |-> W("img"), command |-> cmd]
                  : d \in BOOLEAN, ep \in SeqsUpTo(U, 1), env \in SeqsUpTo(U, n),
                    ports \in {<<>>, <<W("127.0.0.1::80")>>}, m \in SeqsUpTo(U, 1), cmd \in SeqsUpTo(U, n) }

-----------------------------------------------------------------------------
(* recorded command lines of the real libcnb-test, decoded here *)
TraceRec == ndJsonDeserialize(IOEnv.TRACE)
Texts(s) == [i \in DOMAIN s |-> s[i].s]
TraceCheck ==
  \A i \in DOMAIN TraceRec :
    LET r == TraceRec[i] IN
    \/ IF r.kind = "pack-build"
       THEN LET p == ParsePack(r.argv) IN
            /\ p.error = "none" /\ Len(p.pos) = 1
            /\ Texts(ValuesOf(p, "--builder")) = <<r.cfg.builder>>
            /\ Texts(ValuesOf(p, "--buildpack")) = r.cfg.buildpacks
            /\ {Texts(ValuesOf(p, "--env"))[k] : k \in 1..Len(ValuesOf(p, "--env"))} = {r.cfg.env[k] : k \in DOMAIN r.cfg.env}
            /\ Len(ValuesOf(p, "--env")) = Len(r.cfg.env)
            /\ Len(ValuesOf(p, "--path")) = 1
       ELSE LET p == ParseRun(r.argv) IN
            /\ p.error = "none"
            /\ Texts(p.image) = <<r.cfg.image>>
            /\ Texts(p.command) = r.cfg.command
            /\ Texts(ValuesOf(p, "--entrypoint")) = r.cfg.entrypoint
            /\ {Texts(ValuesOf(p, "--env"))[k] : k \in 1..Len(ValuesOf(p, "--env"))} = {r.cfg.env[k] : k \in DOMAIN r.cfg.env}
            /\ Len(ValuesOf(p, "--env")) = Len(r.cfg.env)
            /\ {Texts(ValuesOf(p, "--mount"))[k] : k \in 1..Len(ValuesOf(p, "--mount"))} = {r.cfg.mounts[k] : k \in DOMAIN r.cfg.mounts}
    \/ (PrintT(<<"TRACE_MISMATCH", i>>) /\ FALSE)

ASSUME
  CASE Mode = "law" -> (\A c \in PackConfigsN(1) : PackRoundTrip(c)) /\ (\A c \in RunConfigsN(1) : RunRoundTrip(c))
    [] Mode = "law-t" -> (\A c \in PackConfigsN(2) : PackRoundTrip(c)) /\ (\A c \in RunConfigsN(2) : RunRoundTrip(c))
    [] Mode = "trace" -> TraceCheck
    [] OTHER -> TRUE

VARIABLE x
Spec == x = 0 /\ [][UNCHANGED x]_x
=============================================================================
