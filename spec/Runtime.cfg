SPECIFICATION Spec
CONSTANTS
  SbomIds = {"s0", "s1", "s2", "s3"}
  EmitTR = TRUE
CHECK_DEADLOCK FALSE
INVARIANTS DetectExit0 DetectExit100 ErrorHandledOnce BuildWritesExactlyProvided GuardsBeforeUserCode RightPhase
