SPECIFICATION Spec
CONSTANTS
  SbomIds = {"s0", "s1", "s2", "s3"}
  OtherNames = {"foo", "detect.bak", "build.sh", "rebuild", "Detect", "detect-v2"}
  EmitTR = TRUE
CHECK_DEADLOCK FALSE
INVARIANTS DetectExit0 DetectExit100 ErrorHandledOnce BuildWritesExactlyProvided GuardsBeforeUserCode RightPhase TelemetryMatchesExit
