------------------------------ MODULE LayersMC ------------------------------
(* Model-checking instances of Layers: constants as ordinary definitions.   *)
EXTENDS Layers

MCFormats1 == {"spdx"}
MCFormats2 == {"cdx", "spdx"}
MCFormats3 == {"cdx", "spdx", "syft"}

\* result shapes returned by create/update: nothing; everything; a mix
ShapesOver(envs, execs, sbomFull, files) ==
  { NoShape,
    [env |-> CHOOSE e \in envs : TRUE, execd |-> execs, sbom |-> sbomFull, files |-> files] }
ShapesOver4(envs, execs, sbomFull, files) ==
  ShapesOver(envs, execs, sbomFull, files) \cup
  { [env |-> "none", execd |-> {}, sbom |-> sbomFull, files |-> {}],
    [env |-> CHOOSE e \in envs : TRUE, execd |-> execs, sbom |-> NoSbom, files |-> {}] }
MCShapes4 == ShapesOver4(EnvTok, ExecTok \ MissingExec, [f \in Formats |-> CHOOSE s \in SbomTok : TRUE], FileTok)
TraitTypesQuick == {<<TRUE, FALSE, TRUE>>, <<FALSE, TRUE, FALSE>>}
TraitTypesAll == BOOLEAN \X BOOLEAN \X BOOLEAN

MCShapes == ShapesOver(EnvTok, ExecTok \ MissingExec, [f \in Formats |-> CHOOSE s \in SbomTok : TRUE], FileTok)

FlagsQuick == {<<TRUE, FALSE>>, <<FALSE, TRUE>>}
FlagsAll   == BOOLEAN \X BOOLEAN

\* Two-name models: every name in FullNames gets the whole API, the others only a few calls
\* (they are the witnesses for "other layers are untouched").
CONSTANT FullNames
NextLight(n) ==
  \/ \E fl \in Flags : UncachedLayer(n, fl[1], fl[2])
  \/ \E fl \in Flags : CachedLayer(n, fl[1], fl[2], "G")
  \/ \E f \in FileTok : WriteFile(n, f)
  \/ \E e \in EnvTok : WriteEnv(n, e)
  \/ \E s \in SbomVals : WriteSboms(n, s)
MCNext == \/ \E n \in FullNames : NextStructN(n) \/ NextTraitN(n)
          \/ \E n \in Names \ FullNames : NextLight(n)
          \/ NextEnv
MCSpec == Init /\ [][MCNext]_vars

\* hide the observation: it does not influence what can happen next
View == <<L, refs>>
=============================================================================
