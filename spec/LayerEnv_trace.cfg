SPECIFICATION Spec
CONSTANTS
  Names <- TraceNames
  Procs <- MCProcs3
  EnvSet <- MCEmptySet
  Foreign <- MCEmptySet
  EmitTR = FALSE
  Mode = "trace"
CHECK_DEADLOCK FALSE
