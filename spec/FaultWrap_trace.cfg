SPECIFICATION TraceSpec
CHECK_DEADLOCK FALSE
INVARIANT ReportedOrSame
POSTCONDITION TraceAccepted
