------------------------------ MODULE StreamsMC ------------------------------
EXTENDS Streams
Writes == {[s |-> st, n |-> k] : st \in {"out", "err"}, k \in 0..3}
MCScripts == UNION {[1..len -> Writes] : len \in 0..3}
\* a script that fills stderr beyond the pipe before closing stdout
MCBadForSequential == {<<[s |-> "err", n |-> 3], [s |-> "out", n |-> 1]>>}
=============================================================================
