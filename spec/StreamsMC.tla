------------------------------ MODULE StreamsMC ------------------------------
EXTENDS Streams, IOUtils
Writes == {[s |-> st, n |-> k] : st \in {"out", "err"}, k \in 0..3}
MCScripts == UNION {[1..len -> Writes] : len \in 0..3}
MCScripts4 == UNION {[1..len -> Writes] : len \in 0..4}
\* a script that fills stderr beyond the pipe before closing stdout
MCBadForSequential == {<<[s |-> "err", n |-> 3], [s |-> "out", n |-> 1]>>}

\* direction B: what the real output_and_write_streams / spawn_and_write_streams delivered for each script (unit ids decoded
\* from the bytes) must be what the child wrote, per stream and in order, to writers and Output alike
CONSTANT Mode
TraceRec == ndJsonDeserialize(IOEnv.TRACE)
Ids(scr, s) ==
  LET f[k \in 0..Len(scr)] ==
        IF k = 0 THEN [next |-> 1, ids |-> <<>>]
        ELSE LET w == scr[k]  p == f[k - 1]  new == [i \in 1..w.n |-> p.next + i - 1]
             IN  [next |-> p.next + w.n, ids |-> IF w.s = s THEN p.ids \o new ELSE p.ids]
  IN f[Len(scr)].ids
TraceCheck ==
  \A i \in DOMAIN TraceRec :
    LET r == TraceRec[i] IN
    \/ /\ r.done
       /\ r.out = Ids(r.script, "out") /\ r.err = Ids(r.script, "err")
       /\ r.writer_out = r.out /\ r.writer_err = r.err
       \* Returns: the spawn API hands back a lingering child while it is still running
       /\ (r.api = "spawn" /\ r.linger) => r.returned_before_exit
    \/ (PrintT(<<"TRACE_MISMATCH", i>>) /\ FALSE)
ASSUME Mode = "trace" => TraceCheck
=============================================================================
