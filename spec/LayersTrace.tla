----------------------------- MODULE LayersTrace -----------------------------
(***************************************************************************)
(* Trace validation for Layers: a history recorded from the real library   *)
(* (one ndjson line per public call, logged at return, also on the error   *)
(* path, with arguments, callback decisions, result and the full projected *)
(* <layers> directory) must be a behaviour of Layers.  Every property of   *)
(* Layers is evaluated on every step of the trace.                         *)
(***************************************************************************)
EXTENDS Layers, IOUtils

VARIABLE l       \* next line of the trace

Rec == ndJsonDeserialize(IOEnv.TRACE)

ToSet(s) == {s[i] : i \in DOMAIN s}

TrNames   == DOMAIN Rec[1].L     \* every event carries the whole directory
TrFormats == {"cdx", "spdx", "syft"}
Empty     == {}
TrMissingExec == {"gone", "dangling"}   \* the driver's name for an exec.d program whose source file does not exist

LayerOf(j) == [dir |-> j.dir, files |-> ToSet(j.files), env |-> j.env, execd |-> ToSet(j.execd),
               sbom |-> [f \in Formats |-> j.sbom[f]], toml |-> j.toml]
ShapeOf(j) == [env |-> j.env, execd |-> ToSet(j.execd), sbom |-> [f \in Formats |-> j.sbom[f]],
               files |-> ToSet(j.files)]
ResOf(j)   == [k |-> j.k, md |-> j.md, shape |-> ShapeOf(j.shape)]
ArgOf(j)   == [md |-> j.md, env |-> j.env, execd |-> ToSet(j.execd),
               sbom |-> [f \in Formats |-> j.sbom[f]], file |-> j.file]
ObsOf(j)   == [act |-> j.act, n |-> j.n, ty |-> j.ty, T |-> j.T, ima |-> j.ima, rla |-> j.rla,
               strat |-> j.strat, mig |-> j.mig, cres |-> ResOf(j.cres), ures |-> ResOf(j.ures),
               arg |-> ArgOf(j.arg), ret |-> j.ret, calls |-> j.calls]

\* a decision the code consulted; an unscripted ("unused") one matches nothing
Used(d) == IF d.k = "unused" THEN {} ELSE {d}

Step(o) ==
  CASE o.act = "cached_layer"   -> StructRequest("cached_layer", o.n, o.ty, o.T, Used(o.ima),
                                                 Used(o.rla), TRUE)
    [] o.act = "uncached_layer" -> /\ o.ty.set /\ ~o.ty.cache
                                   /\ UncachedLayer(o.n, o.ty.build, o.ty.launch)
    [] o.act = "handle_layer"   -> HandleLayerD(o.n, o.ty, o.T, Used(o.strat), Used(o.mig),
                                                Used(o.cres), Used(o.ures))
    [] o.act = "write_metadata" -> WriteMetadata(o.n, o.arg.md)
    [] o.act = "write_env"      -> WriteEnv(o.n, o.arg.env)
    [] o.act = "read_env"       -> ReadEnv(o.n)
    [] o.act = "write_sboms"    -> WriteSboms(o.n, o.arg.sbom)
    [] o.act = "write_exec_d"   -> WriteExecD(o.n, o.arg.execd)
    [] o.act = "write_file"     -> WriteFile(o.n, o.arg.file)
    [] o.act = "restore"        -> LifecycleRestore
    [] o.act = "cache_lost"     -> CacheLost
    [] o.act = "foreign_garbage"-> ForeignGarbage(o.n)
    [] o.act = "reset"          -> /\ L' = [n \in Names |-> NoLayer] /\ refs' = {}
                                   /\ last' = o
    [] OTHER -> FALSE

TraceNext ==
  /\ l <= Len(Rec)
  /\ l' = l + 1
  /\ LET e == Rec[l]  o == ObsOf(e.obs) IN
     /\ Step(o)
     /\ last' = o                                            \* result and callbacks as observed
     /\ L' = [n \in Names |-> LayerOf(e.L[n])]               \* the directory as observed
     /\ refs' = ToSet(e.refs)

TraceInit == Init /\ l = 1
TraceSpec == TraceInit /\ [][TraceNext]_<<vars, l>>

\* accepted iff every line was consumed; otherwise name the first line that does not fit
TraceAccepted ==
  LET d == TLCGet("stats").diameter IN
  IF d - 1 = Len(Rec) THEN TRUE
  ELSE /\ PrintT(<<"TRACE_REJECTED_AT", d>>)
       /\ FALSE
=============================================================================
