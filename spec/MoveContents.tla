---------------------------- MODULE MoveContents ----------------------------
(***************************************************************************)
(* Extension X01 (not one of the listed properties):                       *)
(* libherokubuildpack::fs::move_directory_contents(src, dst).              *)
(*                                                                         *)
(* The function renames every entry of src into dst, one rename(2) per     *)
(* entry, in the order read_dir happens to return them, and stops at the   *)
(* first failure ("no atomicity guarantees").  The model has one action    *)
(* per rename with POSIX replacement rules, so that TLC explores every     *)
(* order and every failure point.                                          *)
(***************************************************************************)
EXTENDS TLC, Json, Sequences, FiniteSets, Naturals

CONSTANTS Names, EmitTR

\* an entry: kind + an identity token telling where it was created
None == [k |-> "none", id |-> "-"]
Kinds == {"file", "link", "dir", "fulldir"}     \* fulldir: a directory with something inside
E(k, id) == [k |-> k, id |-> id]

VARIABLES src, dst,      \* [Names -> entry]
          srcThere, dstThere,   \* does the directory itself exist?
          todo,          \* names read_dir still has to yield
          res,           \* "-" running, "ok", "err"
          src0, dst0
vars == <<src, dst, srcThere, dstThere, todo, res, src0, dst0>>

DirStates(tag) == [Names -> {None} \cup {E(k, tag) : k \in Kinds}]

Empty == [n \in Names |-> None]
Init == /\ srcThere \in BOOLEAN /\ dstThere \in BOOLEAN
        /\ src0 \in (IF srcThere THEN DirStates("s") ELSE {Empty})
        /\ dst0 \in (IF dstThere THEN DirStates("d") ELSE {Empty})
        /\ src = src0 /\ dst = dst0 /\ res = "-"
        /\ todo = {n \in Names : src0[n] # None}

\* rename(2): may `s` replace `d`?
RenameOk(s, d) ==
  CASE d.k = "none" -> TRUE
    [] s.k \in {"file", "link"} -> d.k \in {"file", "link"}     \* EISDIR otherwise
    [] OTHER -> d.k = "dir"                                     \* ENOTDIR / ENOTEMPTY otherwise

Fail == /\ res = "-" /\ ~srcThere
        /\ res' = "err" /\ UNCHANGED <<src, dst, srcThere, dstThere, todo, src0, dst0>>

MoveOne(n) ==
  /\ res = "-" /\ srcThere /\ n \in todo
  /\ IF dstThere /\ RenameOk(src[n], dst[n])
     THEN /\ dst' = [dst EXCEPT ![n] = src[n]]
          /\ src' = [src EXCEPT ![n] = None]
          /\ todo' = todo \ {n}
          /\ res' = "-"
     ELSE /\ res' = "err" /\ UNCHANGED <<src, dst, todo>>
  /\ UNCHANGED <<src0, dst0, srcThere, dstThere>>

Done == /\ res = "-" /\ srcThere /\ todo = {}
        /\ res' = "ok" /\ UNCHANGED <<src, dst, srcThere, dstThere, todo, src0, dst0>>

Terminal == res # "-"
Emit == /\ Terminal /\ EmitTR
        /\ PrintT(<<"MV", ToJson([srcThere |-> srcThere, dstThere |-> dstThere, src0 |-> src0, dst0 |-> dst0, src |-> src, dst |-> dst, res |-> res])>>)
        /\ UNCHANGED vars

Next == Fail \/ Done \/ (\E n \in Names : MoveOne(n)) \/ Emit
Spec == Init /\ [][Next]_vars

-----------------------------------------------------------------------------
\* "leaving src_dir empty": after success nothing is left in src and every entry arrived
Complete == res = "ok" =>
              /\ \A n \in Names : src[n] = None
              /\ \A n \in Names : src0[n] # None => dst[n] = src0[n]
\* entries of dst that src does not name are never touched, whatever the outcome
FrameDst == \A n \in Names : src0[n] = None => dst[n] = dst0[n]
\* nothing that was in src is ever lost: it is still in src or it is in dst
NothingLost == \A n \in Names : src0[n] # None => (src[n] = src0[n] \/ dst[n] = src0[n])
\* an error is only reported when some rename is really impossible (or a directory is missing)
ErrJustified == res = "err" =>
                  \/ ~srcThere \/ ~dstThere
                  \/ \E n \in Names : src0[n] # None /\ ~RenameOk(src0[n], dst0[n])
\* a failed rename leaves its target as it was
FailedTargetIntact == res = "err" =>
                        \A n \in Names : dst[n] \in {dst0[n], src0[n]}
=============================================================================
