SPECIFICATION TraceSpec
CONSTANTS
  Names <- TrNames
  Formats <- TrFormats
  FileTok <- Empty
  EnvTok <- Empty
  ExecTok <- Empty
  MissingExec <- TrMissingExec
  SbomTok <- Empty
  MdVals <- Empty
  Causes <- Empty
  Flags <- Empty
  TraitTypes <- Empty
  Shapes <- Empty
  EmitTR = FALSE
CHECK_DEADLOCK FALSE
POSTCONDITION TraceAccepted
INVARIANTS RefsHaveDir ContentNeedsDir
PROPERTIES TypesAsRequested StructReport UncachedAlwaysEmpty RestoredKeepsAll EmptyIsEmpty FrameOthers WriterFrame ErrIsReported TraitCallbacksWhenDue PersistedEqualsResult ReturnedEqualsDisk
