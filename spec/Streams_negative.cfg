SPECIFICATION Spec
CONSTANTS
  Cap = 2
  Scripts <- MCBadForSequential
  Sequential = TRUE
  EmitTR = FALSE
INVARIANTS Delivered InOrder
