SPECIFICATION Spec
CONSTANTS
  Cap = 2
  Scripts <- MCBadForSequential
  Sequential = TRUE
  Mode = "mc"
  EmitTR = FALSE
  Api = "output"
  WCaps = {1, 3}
  WriteAll = TRUE
  SpawnWaits = FALSE
INVARIANTS Delivered InOrder
