SPECIFICATION Spec
CONSTANTS
  Names <- PathVarSeq
  Procs <- MCProcs
  EnvSet <- MCEmptySet
  Foreign <- MCEmptySet
  EmitTR = TRUE
  Mode = "c10"
CHECK_DEADLOCK FALSE
