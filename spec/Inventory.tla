------------------------------ MODULE Inventory ------------------------------
(***************************************************************************)
(* C18: libherokubuildpack::inventory - resolve / partial_resolve return a *)
(* maximal matching artifact, for totally and for partially ordered        *)
(* versions; checksum strings are <algorithm>:<hex> of the right length.   *)
(***************************************************************************)
EXTENDS TLC, Json, Sequences, FiniteSets, Naturals

CONSTANTS Mode, EmitTR

\* versions: a diamond with an isolated element (partial order); the chain bot < l < top is
\* used for the total-order API
\* "nan" compares with nothing, not even with itself (Rust's PartialOrd admits that: f32::NAN)
Versions == {"bot", "l", "r", "top", "iso", "nan"}
Same(a, b) == a = b /\ a # "nan"
Less(a, b) == <<a, b>> \in {<<"bot","l">>, <<"bot","r">>, <<"bot","top">>, <<"l","top">>, <<"r","top">>}
Chain == {"bot", "l", "top"}

\* why an artifact does or does not match the query (os linux / arch amd64 / metadata "good")
Classes == {"match", "wrong-os", "wrong-arch", "wrong-meta", "fails-req"}
Kinds(vs, cs) == {[ver |-> v, cls |-> c] : v \in vs, c \in cs}
Matches(a) == a.cls = "match"

\* the property: a matching artifact that no other matching artifact exceeds; nothing iff none
Acceptable(inv) == {i \in DOMAIN inv : Matches(inv[i]) /\ ~\E j \in DOMAIN inv : Matches(inv[j]) /\ Less(inv[i].ver, inv[j].ver)}

\* implementation-shaped: filter + max_by_key (the last of several maxima wins) ...
Resolve(inv) ==
  LET f[k \in 0..Len(inv)] ==
        IF k = 0 THEN 0
        ELSE IF ~Matches(inv[k]) THEN f[k - 1]
        ELSE IF f[k - 1] = 0 THEN k
        ELSE IF Less(inv[k].ver, inv[f[k - 1]].ver) THEN f[k - 1] ELSE k     \* >= : replace
  IN f[Len(inv)]
\* ... and the fold of partial_resolve: replace on Greater or Equal, keep on Less or incomparable
PartialResolve(inv) ==
  LET f[k \in 0..Len(inv)] ==
        IF k = 0 THEN 0
        ELSE IF ~Matches(inv[k]) THEN f[k - 1]
        ELSE IF f[k - 1] = 0 THEN k
        ELSE IF Same(inv[k].ver, inv[f[k - 1]].ver) \/ Less(inv[f[k - 1]].ver, inv[k].ver) THEN k ELSE f[k - 1]
  IN f[Len(inv)]

Law(inv, total) ==
  LET r == IF total THEN Resolve(inv) ELSE PartialResolve(inv) IN
  /\ (r = 0) = (Acceptable(inv) = {})
  /\ (r # 0) => r \in Acceptable(inv)

Invs(kinds, n) == UNION {[1..k -> kinds] : k \in 0..n}

\* three families: every class (short), match / fails-req (medium), and all-matching inventories up to
\* nMatch artifacts - the ones where maximality, duplicates and incomparable versions decide everything
Run(nFull, nSmall, nMatch) ==
  /\ \A inv \in Invs(Kinds(Chain, Classes), nFull) \cup Invs(Kinds(Chain, {"match", "fails-req"}), nSmall)
                \cup Invs(Kinds(Chain, {"match"}), nMatch) :
       /\ Law(inv, TRUE)
       /\ (EmitTR => PrintT(<<"IV", ToJson([total |-> TRUE, inv |-> inv, acceptable |-> Acceptable(inv)])>>))
  /\ \A inv \in Invs(Kinds(Versions, Classes), nFull) \cup Invs(Kinds(Versions, {"match", "fails-req"}), nSmall)
                \cup Invs(Kinds(Versions, {"match"}), nMatch) :
       /\ Law(inv, FALSE)
       /\ (EmitTR => PrintT(<<"IV", ToJson([total |-> FALSE, inv |-> inv, acceptable |-> Acceptable(inv)])>>))

-----------------------------------------------------------------------------
(* checksum strings, described by their shape *)
Names  == {"sha256", "sha512", "SHA256", "md5", ""}
Colons == {0, 1, 2}
Lens   == {0, 1, 63, 64, 65, 127, 128, 129}
Chars  == {"lowerhex", "upperhex", "nonhex", "space"}
\* white space around the whole string is part of the string: "<algorithm>:<hex>" and nothing else
Pads   == {"none", "leading-space", "trailing-newline", "tab-crlf"}
Shapes == [name : Names, colons : Colons, len : Lens, chars : Chars, pad : Pads]
ChecksumOk(s, algo, hexlen) ==
  s.name = algo /\ s.colons = 1 /\ s.len = hexlen /\ s.chars \in {"lowerhex", "upperhex"} /\ s.pad = "none"
ChecksumCases ==
  \A s \in Shapes :
    PrintT(<<"CV", ToJson([shape |-> s, sha256 |-> ChecksumOk(s, "sha256", 64), sha512 |-> ChecksumOk(s, "sha512", 128)])>>)

ASSUME CASE Mode = "q" -> Run(2, 4, 6) /\ ChecksumCases
         [] Mode = "t" -> Run(3, 5, 6) /\ ChecksumCases
         [] OTHER -> TRUE
VARIABLE x
Spec == x = 0 /\ [][UNCHANGED x]_x
=============================================================================
