SPECIFICATION Spec
CONSTANTS
  Budget = 7
  Mode = "mc"
  EmitTR = TRUE
CHECK_DEADLOCK FALSE
INVARIANTS NoGuardViolated CleanAtEnd
