------------------------------- MODULE Streams -------------------------------
(***************************************************************************)
(* C19 (first half): libherokubuildpack::command - a child process writes  *)
(* to two bounded pipes; one copier thread per pipe moves the data, chunk  *)
(* by chunk, to the caller's writer (which may accept only part of a chunk *)
(* per call); the caller joins both copiers and then                       *)
(*   Api = "spawn"  (spawn_and_write_streams)  returns the running child,  *)
(*   Api = "output" (output_and_write_streams) waits for the child's exit. *)
(* A child may close both streams and keep running (linger).               *)
(*                                                                         *)
(* Negative controls (each must violate something):                        *)
(*   Sequential = TRUE  copies stdout to the end before touching stderr    *)
(*   WriteAll   = FALSE one write call per chunk, what was not accepted is *)
(*                      dropped                                            *)
(*   SpawnWaits = TRUE  the spawn API also waits for the child's exit      *)
(***************************************************************************)
EXTENDS TLC, Json, Sequences, FiniteSets, Naturals

CONSTANTS Cap,         \* pipe capacity in units
          Scripts,     \* the child programs explored: sequences of [s |-> "out"|"err", n |-> units]
          Sequential,  \* TRUE: negative control
          EmitTR,
          Api,         \* "output" | "spawn"
          WCaps,       \* how many units the caller's writer may accept per write call
          WriteAll,    \* FALSE: negative control
          SpawnWaits   \* TRUE: negative control

VARIABLES script,   \* what the child still has to write (head = current write)
          pipe,     \* [out, err] -> sequence of unit ids in the pipe
          closed,   \* the child has closed both pipes on the write side
          got,      \* [out, err] -> sequence of unit ids delivered to the writer
          eof,      \* [out, err] -> the copier saw EOF and finished
          sent,     \* [out, err] -> sequence of unit ids the child wrote (history)
          uid,      \* next unit id
          prog,     \* the script this behaviour started with
          buf,      \* [out, err] -> the chunk a copier has read and its writer has not yet accepted
          wcap,     \* units the writer accepts per call
          linger,   \* the child keeps running after closing its streams (it may never exit)
          exited,   \* the child process has exited
          returned  \* the call has returned to the caller
vars == <<script, pipe, closed, got, eof, sent, uid, prog, buf, wcap, linger, exited, returned>>

Streams == {"out", "err"}

Init == /\ script \in Scripts /\ prog = script
        /\ pipe = [s \in Streams |-> <<>>] /\ got = [s \in Streams |-> <<>>] /\ sent = [s \in Streams |-> <<>>]
        /\ buf = [s \in Streams |-> <<>>]
        /\ eof = [s \in Streams |-> FALSE] /\ closed = FALSE /\ uid = 1
        /\ wcap \in WCaps /\ linger \in BOOLEAN /\ exited = FALSE /\ returned = FALSE

\* the child writes one unit of its current write; it blocks while the pipe is full
ChildWrite ==
  /\ script # <<>> /\ Head(script).n > 0
  /\ LET s == Head(script).s IN
     /\ Len(pipe[s]) < Cap
     /\ pipe' = [pipe EXCEPT ![s] = Append(@, uid)]
     /\ sent' = [sent EXCEPT ![s] = Append(@, uid)]
     /\ uid' = uid + 1
     /\ script' = <<[Head(script) EXCEPT !.n = @ - 1]>> \o Tail(script)
  /\ UNCHANGED <<closed, got, eof, prog, buf, wcap, linger, exited, returned>>
ChildNext ==
  /\ script # <<>> /\ Head(script).n = 0
  /\ script' = Tail(script) /\ UNCHANGED <<pipe, closed, got, eof, sent, uid, prog, buf, wcap, linger, exited, returned>>
ChildClose ==
  /\ script = <<>> /\ ~closed
  /\ closed' = TRUE /\ UNCHANGED <<script, pipe, got, eof, sent, uid, prog, buf, wcap, linger, exited, returned>>
ChildExit ==
  /\ closed /\ ~exited
  /\ exited' = TRUE /\ UNCHANGED <<script, pipe, closed, got, eof, sent, uid, prog, buf, wcap, linger, returned>>

\* a copier thread: read a chunk, hand it to the writer until all of it is accepted; EOF once the
\* pipe is empty and closed
CopyRead(s) ==
  /\ ~eof[s] /\ buf[s] = <<>> /\ pipe[s] # <<>>
  /\ Sequential => (s = "out" \/ eof["out"])        \* negative control: stderr only after stdout
  /\ \E k \in 1..Len(pipe[s]) :
       /\ buf' = [buf EXCEPT ![s] = SubSeq(pipe[s], 1, k)]
       /\ pipe' = [pipe EXCEPT ![s] = SubSeq(@, k + 1, Len(@))]
  /\ UNCHANGED <<script, closed, got, eof, sent, uid, prog, wcap, linger, exited, returned>>
CopyWrite(s) ==
  /\ buf[s] # <<>>
  /\ LET n == IF Len(buf[s]) < wcap THEN Len(buf[s]) ELSE wcap IN
     /\ got' = [got EXCEPT ![s] = @ \o SubSeq(buf[s], 1, n)]
     /\ buf' = [buf EXCEPT ![s] = IF WriteAll THEN SubSeq(@, n + 1, Len(@)) ELSE <<>>]
  /\ UNCHANGED <<script, pipe, closed, eof, sent, uid, prog, wcap, linger, exited, returned>>
CopyEof(s) ==
  /\ ~eof[s] /\ buf[s] = <<>> /\ pipe[s] = <<>> /\ closed
  /\ Sequential => (s = "out" \/ eof["out"])
  /\ eof' = [eof EXCEPT ![s] = TRUE]
  /\ UNCHANGED <<script, pipe, closed, got, sent, uid, prog, buf, wcap, linger, exited, returned>>
Copy(s) == CopyRead(s) \/ CopyWrite(s) \/ CopyEof(s)

\* the caller: joins both copiers, then (output API) wait()s for the child
Joined == eof["out"] /\ eof["err"]
Return ==
  /\ ~returned /\ Joined
  /\ (Api = "output" \/ SpawnWaits) => exited
  /\ returned' = TRUE
  /\ UNCHANGED <<script, pipe, closed, got, eof, sent, uid, prog, buf, wcap, linger, exited>>

Done == returned
Finished == /\ Done /\ UNCHANGED vars
            /\ (EmitTR => PrintT(<<"ST", ToJson([script |-> prog, linger |-> linger, wcap |-> wcap])>>))

Next == ChildWrite \/ ChildNext \/ ChildClose \/ ChildExit \/ Copy("out") \/ Copy("err") \/ Return \/ Finished
\* every thread / process makes progress when it can; a lingering child need never exit
Spec == /\ Init /\ [][Next]_vars
        /\ WF_vars(ChildWrite \/ ChildNext \/ ChildClose)
        /\ WF_vars(ChildExit /\ ~linger)
        /\ WF_vars(Copy("out")) /\ WF_vars(Copy("err")) /\ WF_vars(Return)

\* every byte, in order per stream, and nothing else
Delivered == Done => (got = sent)
InOrder == \A s \in Streams : \E k \in 0..Len(sent[s]) : got[s] = SubSeq(sent[s], 1, k)
\* "returns once both streams close": the spawn API does not wait for a child that lingers
Returns == (Joined /\ (Api = "output" => exited)) ~> returned
Terminates == <>[](returned \/ (Api = "output" /\ linger /\ ~exited))
=============================================================================
