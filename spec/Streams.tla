------------------------------- MODULE Streams -------------------------------
(***************************************************************************)
(* C19 (first half): libherokubuildpack::command - a child process writes  *)
(* to two bounded pipes; one copier thread per pipe moves the data to the  *)
(* caller's writer (tee'd into the returned Output); the caller joins both *)
(* copiers and then waits for the child.                                   *)
(*                                                                         *)
(* Sequential = TRUE is the design that copies stdout to the end before    *)
(* touching stderr.  It is kept as a negative control: it must deadlock.   *)
(***************************************************************************)
EXTENDS TLC, Json, Sequences, FiniteSets, Naturals

CONSTANTS Cap,         \* pipe capacity in units
          Scripts,     \* the child programs explored: sequences of [s |-> "out"|"err", n |-> units]
          Sequential,  \* TRUE: negative control
          EmitTR

VARIABLES script,   \* what the child still has to write (head = current write)
          pipe,     \* [out, err] -> sequence of unit ids in the pipe
          closed,   \* the child has exited: both pipes closed on the write side
          got,      \* [out, err] -> sequence of unit ids delivered to the writer
          eof,      \* [out, err] -> the copier saw EOF and finished
          sent,     \* [out, err] -> sequence of unit ids the child wrote (history)
          uid,      \* next unit id
          prog      \* the script this behaviour started with
vars == <<script, pipe, closed, got, eof, sent, uid, prog>>

Streams == {"out", "err"}

Init == /\ script \in Scripts /\ prog = script
        /\ pipe = [s \in Streams |-> <<>>] /\ got = [s \in Streams |-> <<>>] /\ sent = [s \in Streams |-> <<>>]
        /\ eof = [s \in Streams |-> FALSE] /\ closed = FALSE /\ uid = 1

\* the child writes one unit of its current write; it blocks while the pipe is full
ChildWrite ==
  /\ script # <<>> /\ Head(script).n > 0
  /\ LET s == Head(script).s IN
     /\ Len(pipe[s]) < Cap
     /\ pipe' = [pipe EXCEPT ![s] = Append(@, uid)]
     /\ sent' = [sent EXCEPT ![s] = Append(@, uid)]
     /\ uid' = uid + 1
     /\ script' = <<[Head(script) EXCEPT !.n = @ - 1]>> \o Tail(script)
  /\ UNCHANGED <<closed, got, eof, prog>>
ChildNext ==
  /\ script # <<>> /\ Head(script).n = 0
  /\ script' = Tail(script) /\ UNCHANGED <<pipe, closed, got, eof, sent, uid, prog>>
ChildExit ==
  /\ script = <<>> /\ ~closed
  /\ closed' = TRUE /\ UNCHANGED <<script, pipe, got, eof, sent, uid, prog>>

\* a copier thread: read what is there, deliver it; EOF once the pipe is empty and closed
Copy(s) ==
  /\ ~eof[s]
  /\ Sequential => (s = "out" \/ eof["out"])        \* negative control: stderr only after stdout
  /\ \/ /\ pipe[s] # <<>>
        /\ got' = [got EXCEPT ![s] = Append(@, Head(pipe[s]))]
        /\ pipe' = [pipe EXCEPT ![s] = Tail(@)]
        /\ UNCHANGED <<eof>>
     \/ /\ pipe[s] = <<>> /\ closed
        /\ eof' = [eof EXCEPT ![s] = TRUE]
        /\ UNCHANGED <<got, pipe>>
  /\ UNCHANGED <<script, closed, sent, uid, prog>>

\* the caller: joins both copiers, then wait()s for the child
Done == eof["out"] /\ eof["err"] /\ closed
Finished == /\ Done /\ UNCHANGED vars
            /\ (EmitTR => PrintT(<<"ST", ToJson([script |-> prog])>>))

Next == ChildWrite \/ ChildNext \/ ChildExit \/ Copy("out") \/ Copy("err") \/ Finished
Spec == Init /\ [][Next]_vars /\ WF_vars(Next)

\* every byte, in order per stream, and nothing else
Delivered == Done => (got = sent)
InOrder == \A s \in Streams : \E k \in 0..Len(sent[s]) : got[s] = SubSeq(sent[s], 1, k)
Terminates == <>Done
=============================================================================
