------------------------------- MODULE Grammar -------------------------------
(***************************************************************************)
(* C09: the validated string types of libcnb-data.  Recognisers written    *)
(* from the CNB specification text over explicit characters; every string  *)
(* of a bounded enumeration gets a three-valued verdict per type:          *)
(*   "accept" (MUST be accepted), "reject" (MUST be rejected),             *)
(*   "dontcare" (the spec is silent; all entry points must still agree).   *)
(* A string is a sequence of one-character strings.                        *)
(***************************************************************************)
EXTENDS TLC, Json, IOUtils, Sequences, FiniteSets, Naturals

CONSTANTS Mode, EmitTR

Lower == {"a","b","c","d","e","f","g","h","i","j","k","l","m","n","o","p","q","r","s","t","u","v","w","x","y","z"}
Upper == {"A","B","C","D","E","F","G","H","I","J","K","L","M","N","O","P","Q","R","S","T","U","V","W","X","Y","Z"}
Digit == {"0","1","2","3","4","5","6","7","8","9"}
NonAscii == {"é"}
\* one representative of every class that matters to some grammar
Alphabet == {"a", "Z", "7", ".", "_", "-", "/", "+", " ", "NL", "é", "NUL", "!"}

All(s, ok) == \A i \in DOMAIN s : s[i] \in ok
Is(s, w) == s = w            \* w given as a sequence of characters

W(str) == str                \* (reserved words are written as sequences below)
App == <<"a","p","p">>          Config == <<"c","o","n","f","i","g">>   Sbom == <<"s","b","o","m">>
Build == <<"b","u","i","l","d">>  Launch == <<"l","a","u","n","c","h">>  Store == <<"s","t","o","r","e">>

Verdict(mustAccept, mustReject) == IF mustAccept THEN "accept" ELSE IF mustReject THEN "reject" ELSE "dontcare"

\* buildpack id: "MUST only contain numbers, letters, and the characters ., /, and -";
\* "MUST NOT be config, app [or sbom]"
IdVerdict(s) ==
  LET okAscii == All(s, Lower \cup Upper \cup Digit \cup {".", "/", "-"})
      okWide  == All(s, Lower \cup Upper \cup Digit \cup NonAscii \cup {".", "/", "-"})   \* "letters" beyond ASCII: silent
      reserved == s \in {App, Config, Sbom}
  IN Verdict(s # <<>> /\ okAscii /\ ~reserved, s = <<>> \/ ~okWide \/ reserved)

\* process type: "MUST only contain numbers, letters, and the characters ., _, and -"
ProcessVerdict(s) ==
  LET okAscii == All(s, Lower \cup Upper \cup Digit \cup {".", "_", "-"})
      okWide  == All(s, Lower \cup Upper \cup Digit \cup NonAscii \cup {".", "_", "-"})
  IN Verdict(s # <<>> /\ okAscii, s = <<>> \/ ~okWide)

\* exec.d output key (an environment variable name as libcnb documents it): ASCII letters,
\* digits, _ and -
KeyVerdict(s) ==
  LET ok == All(s, Lower \cup Upper \cup Digit \cup {"_", "-"})
  IN Verdict(s # <<>> /\ ok, s = <<>> \/ ~ok)

\* layer name: any non-empty name except build, launch, store; the spec gives no character
\* rule, so names with '/', NUL or a line break are don't-care
LayerVerdict(s) ==
  LET exotic == \E i \in DOMAIN s : s[i] \in {"/", "NUL", "NL"}
      reserved == s \in {Build, Launch, Store}
  IN IF s = <<>> \/ reserved THEN "reject" ELSE IF exotic THEN "dontcare" ELSE "accept"

StringsUpTo(n) == UNION {[1..k -> Alphabet] : k \in 0..n}

\* every printable ASCII punctuation character, alone and next to a letter (a character class
\* written as a range can admit any of them)
Punct == {"!", "DQ", "#", "$", "%", "&", "'", "(", ")", "*", "+", ",", "-", ".", "/", ":", ";", "<", "=", ">", "?", "@",
          "[", "BS", "]", "^", "_", "`", "{", "|", "}", "~"}
PunctStrings == UNION {{<<c>>, <<"a", c>>, <<c, "Z">>, <<"7", c, "a">>} : c \in Punct}

\* reserved words and their one-character neighbours
Reserved == {App, Config, Sbom, Build, Launch, Store}
Edits(w) ==
  {w}
  \cup {<<c>> \o w : c \in Alphabet} \cup {w \o <<c>> : c \in Alphabet}                   \* prefix / suffix
  \cup {SubSeq(w, 1, i - 1) \o SubSeq(w, i + 1, Len(w)) : i \in DOMAIN w}                  \* deletion
  \cup {[w EXCEPT ![i] = "x"] : i \in DOMAIN w}                                            \* substitution
NearReserved == UNION {Edits(w) : w \in Reserved}

NameVector(s) == [s |-> s, id |-> IdVerdict(s), process |-> ProcessVerdict(s), key |-> KeyVerdict(s), layer |-> LayerVerdict(s)]
NameCases(n) == \A s \in StringsUpTo(n) \cup NearReserved \cup PunctStrings : PrintT(<<"NV", ToJson(NameVector(s))>>)

-----------------------------------------------------------------------------
(* versions *)

\* a digit string denoting a non-negative integer without redundant leading zeros
IsDigits(s) == s # <<>> /\ All(s, Digit)
Canonical(s) == IsDigits(s) /\ (Len(s) > 1 => s[1] # "0")

\* split at dots
RECURSIVE Split(_)
Split(s) ==
  LET idx == {i \in DOMAIN s : s[i] = "."} IN
  IF idx = {} THEN <<s>>
  ELSE LET i == CHOOSE j \in idx : \A k \in idx : j <= k
       IN  <<SubSeq(s, 1, i - 1)>> \o Split(SubSeq(s, i + 1, Len(s)))

\* buildpack version: X.Y.Z, non-negative integers, no sign, no whitespace, no redundant zeros
VersionVerdict(s) ==
  LET parts == Split(s) IN
  IF Len(parts) = 3 /\ \A i \in 1..3 : Canonical(parts[i]) THEN "accept" ELSE "reject"
\* API version: N or N.M of plain digits
ApiVerdict(s) ==
  LET parts == Split(s) IN
  IF Len(parts) \in {1, 2} /\ \A i \in DOMAIN parts : IsDigits(parts[i]) THEN "accept" ELSE "reject"

VAlphabetSmall == {"0", "1", ".", "+", " "}
VAlphabetWide  == {"0", "1", "9", ".", "+", "-", " ", "a"}
VStrings(alpha, n) == UNION {[1..k -> alpha] : k \in 0..n}
VersionVector(s) == [s |-> s, version |-> VersionVerdict(s), api |-> ApiVerdict(s)]
VersionCases(nSmall, nWide) ==
  \A s \in VStrings(VAlphabetSmall, nSmall) \cup VStrings(VAlphabetWide, nWide) :
    PrintT(<<"VV", ToJson(VersionVector(s))>>)

\* sanity of the recognisers themselves (examples from the CNB spec and libcnb's docs)
Str(chars) == chars
Examples ==
  /\ VersionVerdict(<<"1",".","2",".","3">>) = "accept" /\ VersionVerdict(<<"0",".","0",".","0">>) = "accept"
  /\ VersionVerdict(<<"0","1",".","2",".","3">>) = "reject" /\ VersionVerdict(<<"+","1",".","2",".","3">>) = "reject"
  /\ VersionVerdict(<<"1",".","2">>) = "reject" /\ VersionVerdict(<<"1",".","2",".","3",".","4">>) = "reject"
  /\ ApiVerdict(<<"0",".","1","0">>) = "accept" /\ ApiVerdict(<<"2">>) = "accept" /\ ApiVerdict(<<"1",".">>) = "reject"
  /\ ApiVerdict(<<"+","0",".","1">>) = "reject" /\ ApiVerdict(<<".","1">>) = "reject"
  /\ IdVerdict(<<"a","/","b","-","7">>) = "accept" /\ IdVerdict(App) = "reject" /\ IdVerdict(<<"a","_">>) = "reject"
  /\ ProcessVerdict(<<"w","e","b">>) = "accept" /\ ProcessVerdict(<<"a","/">>) = "reject"
  /\ LayerVerdict(Build) = "reject" /\ LayerVerdict(<<"b","u","i","l","d","x">>) = "accept" /\ LayerVerdict(<<>>) = "reject"

\* numbers the implementation can hold: at most u64::MAX, decided on the digit string
DigitVal(c) == CASE c = "0" -> 0 [] c = "1" -> 1 [] c = "2" -> 2 [] c = "3" -> 3 [] c = "4" -> 4 [] c = "5" -> 5
                 [] c = "6" -> 6 [] c = "7" -> 7 [] c = "8" -> 8 [] OTHER -> 9
U64Max == <<"1","8","4","4","6","7","4","4","0","7","3","7","0","9","5","5","1","6","1","5">>
StripZeros(s) == LET nz == {i \in DOMAIN s : s[i] # "0"} IN
                 IF nz = {} THEN <<"0">> ELSE SubSeq(s, CHOOSE i \in nz : \A j \in nz : i <= j, Len(s))
LexLeq(a, b) == \* equal lengths
  LET d == {i \in DOMAIN a : a[i] # b[i]} IN
  d = {} \/ LET i == CHOOSE j \in d : \A k \in d : j <= k IN DigitVal(a[i]) < DigitVal(b[i])
FitsU64(s) == LET t == StripZeros(s) IN Len(t) < 20 \/ (Len(t) = 20 /\ LexLeq(t, U64Max))
\* beyond u64 the CNB spec is silent (rejecting is fine) - but what is accepted must be the number written
Fits(s) == \A i \in DOMAIN Split(s) : ~IsDigits(Split(s)[i]) \/ FitsU64(Split(s)[i])
ApiNormal(s) == LET parts == Split(s)
                    n1 == StripZeros(parts[1])
                IN  IF Len(parts) = 1 THEN n1 \o <<".", "0">> ELSE n1 \o <<".">> \o StripZeros(parts[2])

\* direction B: random longer strings parsed by the real code; TLC evaluates the recognisers on each
TraceRec == ndJsonDeserialize(IOEnv.TRACE)
Compatible(verdict, accepted) == verdict = "dontcare" \/ ((verdict = "accept") = accepted)
TraceCheck ==
  \A i \in DOMAIN TraceRec :
    LET r == TraceRec[i] IN
    \/ IF r.kind = "name"
       THEN /\ Compatible(IdVerdict(r.s), r.id) /\ Compatible(ProcessVerdict(r.s), r.process)
            /\ Compatible(KeyVerdict(r.s), r.key) /\ Compatible(LayerVerdict(r.s), r.layer)
       ELSE /\ Compatible(IF Fits(r.s) THEN VersionVerdict(r.s) ELSE "dontcare", r.version)
            /\ Compatible(IF Fits(r.s) THEN ApiVerdict(r.s) ELSE "dontcare", r.api)
            /\ (r.version /\ VersionVerdict(r.s) = "accept") => r.version_display = r.s
            /\ (r.api /\ ApiVerdict(r.s) = "accept") => r.api_display = ApiNormal(r.s)
    \/ (PrintT(<<"TRACE_MISMATCH", i>>) /\ FALSE)

ASSUME Examples
ASSUME CASE Mode = "q" -> NameCases(3) /\ VersionCases(6, 4)
         [] Mode = "t" -> NameCases(4) /\ VersionCases(7, 5)
         [] Mode = "trace" -> TraceCheck
         [] OTHER -> TRUE
VARIABLE x
Spec == x = 0 /\ [][UNCHANGED x]_x
=============================================================================
