SPECIFICATION Spec
CONSTANTS
  Names = {"x"}
  FullNames = {"x"}
  FileTok = {"f2"}
  EnvTok = {"e1", "e2"}
  ExecTok = {"p1", "gone"}
  MissingExec = {"gone"}
  SbomTok = {"s1"}
  Formats <- MCFormats2
  MdVals = {"1"}
  Causes = {"c1"}
  Flags <- FlagsQuick
  TraitTypes <- TraitTypesQuick
  Shapes <- MCShapes4
  EmitTR = TRUE
VIEW View
CHECK_DEADLOCK FALSE
INVARIANTS TypeOK RefsHaveDir ContentNeedsDir
PROPERTIES TypesAsRequested StructReport UncachedAlwaysEmpty RestoredKeepsAll EmptyIsEmpty FrameOthers WriterFrame ErrIsReported TraitCallbacksWhenDue PersistedEqualsResult ReturnedEqualsDisk
