SPECIFICATION DSpec
CONSTANTS
  Nodes = {"n1","n2","n3","n4","n5"}
  Mode = "graph-cases"
  EmitTR = TRUE
CHECK_DEADLOCK FALSE
