SPECIFICATION Spec
CONSTANTS
  FollowRootLink = TRUE
  Wide = FALSE
  EmitTR = FALSE
CHECK_DEADLOCK FALSE
INVARIANTS OutsideUntouched
