SPECIFICATION Spec
CONSTANTS
  FollowRootLink = TRUE
  EmitTR = FALSE
CHECK_DEADLOCK FALSE
INVARIANTS OutsideUntouched
