SPECIFICATION Spec
CONSTANTS
  Mode = "law"
CHECK_DEADLOCK FALSE
