SPECIFICATION Spec
CONSTANTS
  Names = {"x"}
  FileTok = {"f2"}
  EnvTok = {"e1"}
  ExecTok = {"p1", "gone"}
  MissingExec = {"gone"}
  SbomTok = {"s1"}
  Formats <- MCFormats1
  MdVals = {"1"}
  Causes = {"c1"}
  Flags <- FlagsQuick
  TraitTypes <- TraitTypesQuick
  Shapes <- MCShapes
  EmitTR = TRUE
  FullNames = {"x"}
VIEW View
CHECK_DEADLOCK FALSE
INVARIANTS TypeOK RefsHaveDir ContentNeedsDir
PROPERTIES TypesAsRequested StructReport UncachedAlwaysEmpty RestoredKeepsAll EmptyIsEmpty FrameOthers WriterFrame ErrIsReported TraitCallbacksWhenDue PersistedEqualsResult ReturnedEqualsDisk
