SPECIFICATION Spec
CONSTANTS
  Cap = 2
  Scripts <- MCScripts4
  Sequential = FALSE
  Mode = "mc"
  EmitTR = TRUE
INVARIANTS Delivered InOrder
PROPERTY Terminates
