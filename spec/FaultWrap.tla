------------------------------ MODULE FaultWrap ------------------------------
(***************************************************************************)
(* C12: a single failed file-system operation is reported.                 *)
(*                                                                         *)
(* Wrapper over any action A of Layers / Runtime that touches the disk:    *)
(* the fault-free execution makes N watched libc calls and ends in         *)
(* (ret0, dir0).  With the k-th call failing, the action may leave         *)
(* anything behind, but it has to return an error: "ok" is never allowed,  *)
(* neither with a different directory (silent corruption) nor with the     *)
(* fault-free result (a failed operation that was simply ignored).         *)
(* The enumeration protocol itself is                                      *)
(* part of the model: after the fault-free run every k in 1..N must be     *)
(* injected once per errno, so a driver that skips injection points is     *)
(* rejected by trace validation.                                           *)
(***************************************************************************)
EXTENDS TLC, Json, IOUtils, Sequences, FiniteSets, Naturals

Errnos == {"EIO", "EACCES", "ENOSPC"}

VARIABLES action,   \* the action under test ("-" between actions)
          n,        \* number of watched calls of its fault-free execution
          done,     \* set of <<k, errno>> already injected
          last,     \* observation of the last faulted run
          l         \* position in the trace (trace validation only)
vars == <<action, n, done, last>>

Obs(ok, sameret, samedir) == [ok |-> ok, sameret |-> sameret, samedir |-> samedir]
NoObs == Obs(FALSE, FALSE, FALSE)

Init == action = "-" /\ n = 0 /\ done = {} /\ last = NoObs

\* all injection points of the previous action have been visited
Complete == done = (1..n) \X Errnos

FaultFree(a, calls) ==
  /\ Complete
  /\ action' = a /\ n' = calls /\ done' = {} /\ last' = NoObs

\* what the implementation is allowed to do when the k-th call fails: report it.
\* (sameret / samedir only classify a violation: ignored failure vs. silent corruption)
Allowed(o) == ~o.ok

Faulted(k, e, o) ==
  /\ k \in 1..n /\ e \in Errnos /\ <<k, e>> \notin done
  /\ done' = done \cup {<<k, e>>}
  /\ last' = o
  /\ UNCHANGED <<action, n>>

\* the design space (for the model checker): any observation is possible ...
Next == \/ \E a \in {"a1", "a2"}, c \in 0..2 : FaultFree(a, c) /\ UNCHANGED l
        \/ \E k \in 1..n, e \in Errnos, ok \in BOOLEAN, sr \in BOOLEAN, sd \in BOOLEAN :
             Faulted(k, e, Obs(ok, sr, sd)) /\ UNCHANGED l
Spec == Init /\ l = 0 /\ [][Next]_<<vars, l>>

\* ... and the property singles out the allowed ones
ReportedOrSame == Allowed(last)

-----------------------------------------------------------------------------
(* trace validation *)
Rec == ndJsonDeserialize(IOEnv.TRACE)

TraceNext ==
  /\ l <= Len(Rec)
  /\ l' = l + 1
  /\ LET e == Rec[l] IN
     IF e.ev = "faultfree" THEN FaultFree(e.action, e.n)
     ELSE Faulted(e.k, e.errno, Obs(e.ok, e.sameret, e.samedir))
TraceSpec == Init /\ l = 1 /\ [][TraceNext]_<<vars, l>>

TraceAccepted ==
  LET d == TLCGet("stats").diameter IN
  IF d - 1 = Len(Rec) THEN TRUE ELSE PrintT(<<"TRACE_REJECTED_AT", d>>) /\ FALSE
=============================================================================
