SPECIFICATION Spec
CONSTANTS
  Names <- MCNames
  Procs <- MCProcs
  EnvSet <- MCEmptySet
  Foreign <- MCEmptySet
  EmitTR = TRUE
  Mode = "c04t"
CHECK_DEADLOCK FALSE
