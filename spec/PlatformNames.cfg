SPECIFICATION Spec
CONSTANTS
  EmitTR = TRUE
CHECK_DEADLOCK FALSE
