SPECIFICATION Spec
CONSTANTS
  Names <- MCNames
  Procs <- MCProcs
  EnvSet <- MCEmptySet
  Foreign <- MCEmptySet
  EmitTR = TRUE
  Mode = "c04q"
CHECK_DEADLOCK FALSE
