-------------------------- MODULE LocalPackaging --------------------------
(***************************************************************************)
(* libcnb-test, BuildpackReference::CurrentCrate / WorkspaceBuildpack      *)
(* (C16, C17): what TestRunner::build_internal does before it can invoke   *)
(* pack.  All locally packaged buildpacks of ONE build go into ONE         *)
(* temporary directory, one sub-directory per buildpack id.  Each          *)
(* reference is packaged together with its dependency closure, in          *)
(* dependency order (libcnb-test/src/build.rs package_buildpack), so a     *)
(* buildpack that is reachable from two references is packaged twice into  *)
(* the same directory.                                                     *)
(*                                                                         *)
(* Wipe = TRUE is the code after fix 1abf15d (destination removed first),  *)
(* Wipe = FALSE the pinned tree: assembling a libcnb.rs buildpack creates  *)
(* the bin/detect symlink, which fails with EEXIST when it is there        *)
(* already (negative control: NeverFails must be violated).                *)
(***************************************************************************)
EXTENDS TLC, Json, Sequences, FiniteSets, Naturals

CONSTANTS Wipe, MaxRefs, EmitTR

\* the workspace of the conformance harness: two libcnb.rs buildpacks and a composite over both
Ids == {"verif/a", "verif/b", "verif/meta"}
Kind(i) == IF i = "verif/meta" THEN "composite" ELSE "libcnb"
\* dependency order of the closure of one id (dependencies first; package.toml lists b then a)
Order(i) == IF i = "verif/meta" THEN <<"verif/b", "verif/a", "verif/meta">> ELSE <<i>>

\* references as the test author writes them
Refs == {"current", "ws:verif/b", "ws:verif/meta", "other"}
IdOf(r) == CASE r = "current" -> "verif/a" [] r = "ws:verif/b" -> "verif/b" [] r = "ws:verif/meta" -> "verif/meta"
             [] OTHER -> "-"

VARIABLES refs,      \* the configured references, in order
          k, j,      \* reference being processed, position in its build order
          dirs,      \* [Ids -> "absent" | "complete"] inside the build's temporary directory
          args,      \* --buildpack arguments collected so far
          status     \* "packaging" | "pack-invoked" | "panicked"
vars == <<refs, k, j, dirs, args, status>>

RefSeqs == UNION {[1..n -> Refs] : n \in 1..MaxRefs}

Init == /\ refs \in RefSeqs /\ k = 1 /\ j = 1
        /\ dirs = [i \in Ids |-> "absent"] /\ args = <<>> /\ status = "packaging"

\* a reference that needs no packaging is passed through verbatim
PassThrough ==
  /\ status = "packaging" /\ k <= Len(refs) /\ refs[k] = "other"
  /\ args' = Append(args, "other") /\ k' = k + 1 /\ j' = 1
  /\ UNCHANGED <<refs, dirs, status>>

\* one node of the current reference's build order is packaged into its directory
PackageNode ==
  /\ status = "packaging" /\ k <= Len(refs) /\ refs[k] # "other"
  /\ LET ord == Order(IdOf(refs[k]))
         n == ord[j]
         exists == dirs[n] = "complete" /\ ~Wipe          \* what assemble_buildpack_directory finds
     IN  IF exists /\ Kind(n) = "libcnb"
         THEN /\ status' = "panicked"                      \* symlink(build, bin/detect): EEXIST
              /\ UNCHANGED <<refs, k, j, dirs, args>>
         ELSE /\ dirs' = [dirs EXCEPT ![n] = "complete"]   \* (a composite only copies files over)
              /\ IF j = Len(ord)
                 THEN /\ args' = Append(args, "dir:" \o IdOf(refs[k])) /\ k' = k + 1 /\ j' = 1
                 ELSE /\ j' = j + 1 /\ UNCHANGED <<args, k>>
              /\ UNCHANGED <<refs, status>>

InvokePack ==
  /\ status = "packaging" /\ k > Len(refs)
  /\ status' = "pack-invoked"
  /\ (EmitTR => PrintT(<<"LP", ToJson([refs |-> refs, args |-> args])>>))
  /\ UNCHANGED <<refs, k, j, dirs, args>>

Next == PassThrough \/ PackageNode \/ InvokePack
Spec == Init /\ [][Next]_vars

-----------------------------------------------------------------------------
\* C17: every build configuration results in a pack invocation ...
NeverFails == status # "panicked"
\* ... carrying all references in the configured order, local ones as directories that are
\* completely packaged together with everything they depend on
ArgsFaithful ==
  status = "pack-invoked" =>
    /\ Len(args) = Len(refs)
    /\ \A i \in DOMAIN refs :
         IF refs[i] = "other" THEN args[i] = "other"
         ELSE /\ args[i] = "dir:" \o IdOf(refs[i])
              /\ \A m \in DOMAIN Order(IdOf(refs[i])) : dirs[Order(IdOf(refs[i]))[m]] = "complete"
\* dependencies are packaged before what needs them
DepsFirst == dirs["verif/meta"] = "complete" => (dirs["verif/a"] = "complete" /\ dirs["verif/b"] = "complete")
=============================================================================
