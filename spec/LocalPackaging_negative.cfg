SPECIFICATION Spec
CONSTANTS
  Wipe = FALSE
  MaxRefs = 3
  EmitTR = FALSE
CHECK_DEADLOCK FALSE
INVARIANTS NeverFails ArgsFaithful DepsFirst
