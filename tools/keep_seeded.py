#!/usr/bin/env python3
"""tools/keep_seeded.py <PID> [detected-by ...]: copy confirmed mutants of /tmp/mut-<PID>-out into /verif/seeded/"""
import json, os, shutil, sys, re
pid = sys.argv[1]
for m in ("m1", "m2"):
    src = f"/tmp/mut-{pid}-out/{m}"
    if not os.path.exists(os.path.join(src, "patch.diff")):
        continue
    conf = open(os.path.join(src, "confirm.txt")).read() if os.path.exists(os.path.join(src, "confirm.txt")) else ""
    ok = "suite_failures_other_than_network_doctest=0" in conf and re.search(r"demo_with_patch_rc=(?!0 )\d+ demo_without_patch_rc=0", conf)
    if not ok:
        print(f"{pid} {m}: NOT confirmed, not kept: {conf.strip()}")
        continue
    dst = f"/verif/seeded/{pid}-{m}"
    shutil.rmtree(dst, ignore_errors=True)
    os.makedirs(dst)
    for f in os.listdir(src):
        if f.endswith(".log") or f in ("confirm.txt", "try.txt"):
            continue
        p = os.path.join(src, f)
        (shutil.copytree if os.path.isdir(p) else shutil.copy)(p, os.path.join(dst, f))
    meta = json.load(open(os.path.join(src, "meta.json")))
    tries = open(os.path.join(src, "try.txt")).read() if os.path.exists(os.path.join(src, "try.txt")) else ""
    meta["confirmed_by_me"] = {"what_i_ran": "tools/confirm_mutant.sh in the agent's scratch worktree: git apply patch.diff; cargo test --workspace --no-fail-fast --offline; demo_cmd with and without the patch", "result": conf.strip().splitlines()}
    meta["detection"] = [l.strip() for l in tries.splitlines() if l.startswith("==")]
    json.dump(meta, open(os.path.join(dst, "meta.json"), "w"), indent=1)
    print(f"{pid} {m}: kept in {dst}; {meta['detection']}")
