#!/bin/bash
# usage: tools/run_all.sh quick|thorough [ids...]: runs the checks one after the other, prints one line each
tier="$1"; shift
ids="${@:-C01 C02 C03 C04 C05 C06 C07 C08 C09 C10 C11 C12 C13 C14 C15 C16 C17 C18 C19 C20}"
./setup.sh > /dev/null 2>&1
for id in $ids; do
  s=$(date +%s)
  out=$(./check $id --tier $tier 2>&1); rc=$?
  e=$(date +%s)
  echo "$id tier=$tier rc=$rc wall=$((e-s))s $(echo "$out" | grep -E 'VIOLATION|TOOL-ERROR|KNOWN-FINDING' | head -3 | cut -c1-200 | tr '\n' ' ')"
done
