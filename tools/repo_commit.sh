#!/bin/bash
# usage: tools/repo_commit.sh "<message>" <file>...   commits only the named files of /repo, holding the
# same lock as tools/with_patch.sh so that no mutant patch is in the working tree at that moment
msg="$1"; shift
exec 9>/dev/shm/verif-repo.lock; flock 9
cd /repo && git add -- "$@" && git commit -q -m "$msg" -- "$@" && git log --oneline | head -1
