#!/bin/bash
# re-run tries (given as "PID:mN:check,check" items) from the current directory's copy of the framework
./setup.sh > /dev/null 2>&1
for item in "$@"; do
  IFS=: read pid m checks <<< "$item"
  d=/tmp/mut-$pid-out/$m
  tools/try_seeded.sh $d/patch.diff ${checks//,/ } > $d/try.txt 2>&1
  echo "$item: $(grep '==' $d/try.txt | tr '\n' ' ')"
done
