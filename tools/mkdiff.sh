#!/bin/bash
# usage: tools/mkdiff.sh <name> <command...>: run the command in the scratch worktree /tmp/mk-wt (synced to /repo HEAD),
# store the resulting diff as /verif/work/<name>.diff and restore the worktree
name="$1"; shift
[ -d /tmp/mk-wt ] || git -C /repo worktree add -q --detach /tmp/mk-wt HEAD
cd /tmp/mk-wt && git checkout -q --detach "$(git -C /repo rev-parse HEAD)" && git checkout -q -- . && "$@"
git diff > /verif/work/$name.diff; git checkout -q -- .
test -s /verif/work/$name.diff || echo "EMPTY $name"
