#!/bin/bash
# usage: tools/benign_sweep.sh <patch.diff> [ids...] : quick checks against a semantics-preserving change; every line must say rc=0
p="$1"; shift
ids="${@:-C01 C02 C03 C04 C05 C06 C07 C08 C09 C10 C11 C12 C13 C14 C15 C16 C17 C18 C19 C20}"
./setup.sh > /dev/null 2>&1
for id in $ids; do
  out=$(VERIF_NO_EVIDENCE=1 tools/with_patch.sh "$p" ./check $id 2>&1); rc=$?
  echo "benign $(basename $p) $id rc=$rc $(echo "$out" | grep -E '^VIOLATION|TOOL-ERROR' | head -2 | cut -c1-200 | tr '\n' ' ')"
  [ $rc -ne 0 ] && echo "$out" | grep -A2 -E '^VIOLATION|TOOL-ERROR' | head -8 | cut -c1-700
done
