#!/bin/bash
# usage: tools/seed_sweep.sh <seed>... : every quick check under other seeds (no evidence written); prints one line per run
./setup.sh > /dev/null 2>&1
for seed in "$@"; do
  for id in C01 C02 C03 C04 C05 C06 C07 C08 C09 C10 C11 C12 C13 C14 C15 C16 C17 C18 C19 C20 X01 X02 X03 X04 X05; do
    s=$(date +%s)
    out=$(VERIF_SEED=$seed VERIF_NO_EVIDENCE=1 ./check $id 2>&1); rc=$?
    e=$(date +%s)
    echo "seed=$seed $id rc=$rc wall=$((e-s))s $(echo "$out" | grep -E '^VIOLATION|TOOL-ERROR|EXT-VIOLATION' | head -2 | cut -c1-160 | tr '\n' ' ')"
    [ $rc -ne 0 ] && echo "$out" | grep -A2 -E '^VIOLATION|TOOL-ERROR|EXT-VIOLATION' | head -8 | cut -c1-600
  done
done
