#!/bin/bash
# usage: tools/process_mutants.sh <PID> [check ids...]: try + confirm both mutants delivered for PID
pid="$1"; shift; checks="${@:-$pid}"
for m in m1 m2; do
  d=/tmp/mut-$pid-out/$m
  [ -f $d/patch.diff ] || continue
  tools/try_seeded.sh $d/patch.diff $checks > $d/try.txt 2>&1
  tools/confirm_mutant.sh /tmp/mut-$pid $d > $d/confirm.txt 2>&1
done
