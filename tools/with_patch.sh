#!/bin/bash
# usage: tools/with_patch.sh <patch.diff> <command...>
# Applies the patch to /repo's working tree, runs the command, and always restores the tree.
set -u
patch="$(realpath "$1")"; shift
# one user of /repo's working tree at a time
touch /dev/shm/verif-repo.want.$$
exec 9>/dev/shm/verif-repo.lock; flock 9
rm -f /dev/shm/verif-repo.want.$$
export VERIF_REPO_LOCKED=1
git -C /repo apply "$patch" || { echo "patch does not apply"; exit 3; }
trap 'git -C /repo checkout -- . ; git -C /repo clean -fdq -e target >/dev/null 2>&1' EXIT
"$@"
