// LD_PRELOAD shim: fails the k-th mutating / data-reading libc file-system call beneath a path
// prefix with a chosen errno (C12), or counts such calls (k = 0).
//
// Environment:  FAULT_PREFIX  absolute path prefix that is watched
//               FAULT_K       1-based index of the call to fail (0 / unset: only count)
//               FAULT_ERRNO   errno to return (default EIO)
//               FAULT_ACTIVE  "1": active from process start; otherwise the program switches the
//                             shim on/off with faultshim_activate(1/0)
//               FAULT_LOG     file that receives one line per watched call ("<n> <call> <path>")
//               FAULT_KILL    "1": instead of failing, _exit(137) at the k-th call (interruption)
#define _GNU_SOURCE
#include <dirent.h>
#include <dlfcn.h>
#include <errno.h>
#include <fcntl.h>
#include <stdarg.h>
#include <stdio.h>
#include <stdlib.h>
#include <string.h>
#include <sys/stat.h>
#include <sys/types.h>
#include <unistd.h>

#define MAXFD 4096
static int active = 0, inited = 0, kill_mode = 0;
static long counter = 0, fail_at = 0;
static int fail_errno = EIO;
static char prefix[4096];
static size_t prefix_len = 0;
static char tracked[MAXFD];
static int log_fd = -1;

static void init(void) {
    if (inited) return;
    inited = 1;
    const char *p = getenv("FAULT_PREFIX");
    if (p) { strncpy(prefix, p, sizeof(prefix) - 1); prefix_len = strlen(prefix); }
    const char *k = getenv("FAULT_K");
    if (k) fail_at = atol(k);
    const char *e = getenv("FAULT_ERRNO");
    if (e) fail_errno = atoi(e);
    const char *a = getenv("FAULT_ACTIVE");
    if (a && a[0] == '1') active = 1;
    const char *km = getenv("FAULT_KILL");
    if (km && km[0] == '1') kill_mode = 1;
    const char *l = getenv("FAULT_LOG");
    if (l) {
        int (*real_open)(const char *, int, ...) = dlsym(RTLD_NEXT, "open");
        log_fd = real_open(l, O_WRONLY | O_CREAT | O_APPEND | O_CLOEXEC, 0644);
    }
}

void faultshim_activate(int on) { init(); active = on; }
long faultshim_count(void) { return counter; }

static int watched_path(const char *path) {
    return prefix_len > 0 && path && strncmp(path, prefix, prefix_len) == 0;
}
static int watched_fd(int fd) { return fd >= 0 && fd < MAXFD && tracked[fd]; }
static int watched_at(int dirfd, const char *path) {
    if (path && path[0] == '/') return watched_path(path);
    if (dirfd == AT_FDCWD) return 0;
    return watched_fd(dirfd);
}

// returns 1 when this call has to fail
static int hit(const char *call, const char *path) {
    if (!active) return 0;
    counter++;
    if (log_fd >= 0) {
        char buf[4600];
        int n = snprintf(buf, sizeof buf, "%ld %s %s\n", counter, call, path ? path : "-");
        ssize_t (*real_write)(int, const void *, size_t) = dlsym(RTLD_NEXT, "write");
        real_write(log_fd, buf, n);
    }
    if (fail_at > 0 && counter == fail_at) {
        if (kill_mode) _exit(137);
        errno = fail_errno;
        return 1;
    }
    return 0;
}

#define REAL(ret, name, ...) static ret (*real_##name)(__VA_ARGS__); if (!real_##name) real_##name = dlsym(RTLD_NEXT, #name); init();

static void track(int fd, int on) { if (fd >= 0 && fd < MAXFD) tracked[fd] = on; }

static int do_open(const char *name, int (*real)(const char *, int, ...), const char *path, int flags, mode_t mode) {
    if (watched_path(path) && hit(name, path)) return -1;
    int fd = real(path, flags, mode);
    if (fd >= 0) track(fd, watched_path(path));
    return fd;
}
int open(const char *path, int flags, ...) {
    REAL(int, open, const char *, int, ...)
    va_list ap; va_start(ap, flags); mode_t mode = va_arg(ap, mode_t); va_end(ap);
    return do_open("open", real_open, path, flags, mode);
}
int open64(const char *path, int flags, ...) {
    REAL(int, open64, const char *, int, ...)
    va_list ap; va_start(ap, flags); mode_t mode = va_arg(ap, mode_t); va_end(ap);
    return do_open("open", real_open64, path, flags, mode);
}
static int do_openat(int (*real)(int, const char *, int, ...), int dirfd, const char *path, int flags, mode_t mode) {
    int w = watched_at(dirfd, path);
    if (w && hit("openat", path)) return -1;
    int fd = real(dirfd, path, flags, mode);
    if (fd >= 0) track(fd, w);
    return fd;
}
int openat(int dirfd, const char *path, int flags, ...) {
    REAL(int, openat, int, const char *, int, ...)
    va_list ap; va_start(ap, flags); mode_t mode = va_arg(ap, mode_t); va_end(ap);
    return do_openat(real_openat, dirfd, path, flags, mode);
}
int openat64(int dirfd, const char *path, int flags, ...) {
    REAL(int, openat64, int, const char *, int, ...)
    va_list ap; va_start(ap, flags); mode_t mode = va_arg(ap, mode_t); va_end(ap);
    return do_openat(real_openat64, dirfd, path, flags, mode);
}
int creat(const char *path, mode_t mode) {
    REAL(int, creat, const char *, mode_t)
    if (watched_path(path) && hit("creat", path)) return -1;
    int fd = real_creat(path, mode);
    if (fd >= 0) track(fd, watched_path(path));
    return fd;
}
int close(int fd) {
    REAL(int, close, int)
    track(fd, 0);
    return real_close(fd);
}
ssize_t write(int fd, const void *buf, size_t n) {
    REAL(ssize_t, write, int, const void *, size_t)
    if (watched_fd(fd) && hit("write", NULL)) return -1;
    return real_write(fd, buf, n);
}
ssize_t read(int fd, void *buf, size_t n) {
    REAL(ssize_t, read, int, void *, size_t)
    if (watched_fd(fd) && hit("read", NULL)) return -1;
    return real_read(fd, buf, n);
}
ssize_t copy_file_range(int fdin, off64_t *offin, int fdout, off64_t *offout, size_t len, unsigned int flags) {
    REAL(ssize_t, copy_file_range, int, off64_t *, int, off64_t *, size_t, unsigned int)
    if ((watched_fd(fdout) || watched_fd(fdin)) && hit("copy_file_range", NULL)) return -1;
    return real_copy_file_range(fdin, offin, fdout, offout, len, flags);
}
ssize_t sendfile(int out, int in, off_t *off, size_t n) {
    REAL(ssize_t, sendfile, int, int, off_t *, size_t)
    if ((watched_fd(out) || watched_fd(in)) && hit("sendfile", NULL)) return -1;
    return real_sendfile(out, in, off, n);
}
ssize_t sendfile64(int out, int in, off64_t *off, size_t n) {
    REAL(ssize_t, sendfile64, int, int, off64_t *, size_t)
    if ((watched_fd(out) || watched_fd(in)) && hit("sendfile", NULL)) return -1;
    return real_sendfile64(out, in, off, n);
}
int mkdir(const char *path, mode_t mode) {
    REAL(int, mkdir, const char *, mode_t)
    if (watched_path(path) && hit("mkdir", path)) return -1;
    return real_mkdir(path, mode);
}
int mkdirat(int dirfd, const char *path, mode_t mode) {
    REAL(int, mkdirat, int, const char *, mode_t)
    if (watched_at(dirfd, path) && hit("mkdirat", path)) return -1;
    return real_mkdirat(dirfd, path, mode);
}
int unlink(const char *path) {
    REAL(int, unlink, const char *)
    if (watched_path(path) && hit("unlink", path)) return -1;
    return real_unlink(path);
}
int unlinkat(int dirfd, const char *path, int flags) {
    REAL(int, unlinkat, int, const char *, int)
    if (watched_at(dirfd, path) && hit("unlinkat", path)) return -1;
    return real_unlinkat(dirfd, path, flags);
}
int rmdir(const char *path) {
    REAL(int, rmdir, const char *)
    if (watched_path(path) && hit("rmdir", path)) return -1;
    return real_rmdir(path);
}
int rename(const char *a, const char *b) {
    REAL(int, rename, const char *, const char *)
    if ((watched_path(a) || watched_path(b)) && hit("rename", a)) return -1;
    return real_rename(a, b);
}
int renameat(int fa, const char *a, int fb, const char *b) {
    REAL(int, renameat, int, const char *, int, const char *)
    if ((watched_at(fa, a) || watched_at(fb, b)) && hit("renameat", a)) return -1;
    return real_renameat(fa, a, fb, b);
}
int chmod(const char *path, mode_t mode) {
    REAL(int, chmod, const char *, mode_t)
    if (watched_path(path) && hit("chmod", path)) return -1;
    return real_chmod(path, mode);
}
int fchmod(int fd, mode_t mode) {
    REAL(int, fchmod, int, mode_t)
    if (watched_fd(fd) && hit("fchmod", NULL)) return -1;
    return real_fchmod(fd, mode);
}
int fchmodat(int dirfd, const char *path, mode_t mode, int flags) {
    REAL(int, fchmodat, int, const char *, mode_t, int)
    if (watched_at(dirfd, path) && hit("fchmodat", path)) return -1;
    return real_fchmodat(dirfd, path, mode, flags);
}
int symlink(const char *target, const char *path) {
    REAL(int, symlink, const char *, const char *)
    if (watched_path(path) && hit("symlink", path)) return -1;
    return real_symlink(target, path);
}
int symlinkat(const char *target, int dirfd, const char *path) {
    REAL(int, symlinkat, const char *, int, const char *)
    if (watched_at(dirfd, path) && hit("symlinkat", path)) return -1;
    return real_symlinkat(target, dirfd, path);
}
DIR *opendir(const char *path) {
    REAL(DIR *, opendir, const char *)
    if (watched_path(path) && hit("opendir", path)) return NULL;
    return real_opendir(path);
}
