#!/bin/bash
# usage: tools/try_seeded.sh <patch.diff> <ID> [<ID>...] : runs the quick checks against the patched /repo
p="$1"; shift
for id in "$@"; do
  out=$(VERIF_NO_EVIDENCE=1 tools/with_patch.sh "$p" ./check "$id" --tier quick 2>&1); rc=$?
  echo "== $id rc=$rc $(echo "$out" | grep -c '^VIOLATION') violation line(s); $(echo "$out" | grep -E 'TOOL-ERROR' | head -1)"
  echo "$out" | grep -A1 '^VIOLATION' | head -4
done
