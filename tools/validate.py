#!/usr/bin/env python3
"""Validates MANIFEST.json and every evidence file against the schemas in /root/.vp."""
import json, sys, glob
import jsonschema
ok = True
m = json.load(open('/verif/MANIFEST.json'))
jsonschema.validate(m, json.load(open('/root/.vp/MANIFEST.schema.json')))
sch = json.load(open('/root/.vp/EVIDENCE.schema.json'))
for f in sorted(glob.glob('/verif/evidence/*.json')):
    try:
        jsonschema.validate(json.load(open(f)), sch)
        print("ok", f)
    except jsonschema.ValidationError as e:
        ok = False
        print("INVALID", f, e.message[:300])
props = [json.loads(l)['id'] for l in open('/verif/properties.jsonl')]
claimed = {c['property_id'] for c in m['checks']}
na = {c['property_id'] for c in m.get('not_applicable', [])}
for p in props:
    if (p in claimed) == (p in na):
        ok = False
        print("property", p, "must be either claimed or not_applicable")
sys.exit(0 if ok else 1)
