#!/usr/bin/env python3
"""prints the markdown table of seeded changes from seeded/*/meta.json"""
import glob, json, os
print("| id | property | change (written independently by a sub-agent) | needs to manifest | caught by |")
print("|---|---|---|---|---|")
for d in sorted(glob.glob('/verif/seeded/C*-m*')):
    m = json.load(open(os.path.join(d, 'meta.json')))
    det = "; ".join(x.replace("== ", "").replace(" violation line(s);", " viol.").strip() for x in m.get("detection", []))
    clean = lambda t: " ".join(str(t).split()).replace("|", "\\|")
    print(f"| {os.path.basename(d)} | {m.get('property')} | {clean(m.get('summary',''))[:260]} | {clean(m.get('needs_to_manifest',''))[:200]} | {det} |")
