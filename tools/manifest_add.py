#!/usr/bin/env python3
"""tools/manifest_add.py <json-file-with-entries>: add/replace check entries and engines in MANIFEST.json"""
import json, sys
m = json.load(open('/verif/MANIFEST.json'))
spec = json.load(open(sys.argv[1]))
for e in spec.get("checks", []):
    pid = e["property_id"]
    m['checks'] = [c for c in m['checks'] if c['property_id'] != pid]
    m['checks'].append({
        "property_id": pid,
        "quick_cmd": f"./check {pid} --tier quick",
        "thorough_cmd": f"./check {pid} --tier thorough",
        "evidence_file": f"/verif/evidence/{pid}.json",
        "replay_cmd_template": f"./check {pid} --replay {{path}}",
        "engine": e["engine"],
        "level_claimed": {"category": e["category"], "text": e["text"], "design_ref": e["design_ref"]},
        "level_note": e["note"],
        "technique": e["technique"]})
    m['not_applicable'] = [n for n in m['not_applicable'] if n['property_id'] != pid]
m['checks'].sort(key=lambda c: c['property_id'])
for g in spec.get("engines", []):
    m['engines'] = [x for x in m['engines'] if x['name'] != g['name']] + [g]
json.dump(m, open('/verif/MANIFEST.json', 'w'), indent=1)
