#!/usr/bin/env python3
"""round-N prompt (N >= 3): tools/mutant_prompt3.py <PID> <round-tag, e.g. r3>
like mutant_prompt2.py, but lists every earlier change (all rounds) with the files it touched"""
import glob, json, os, re, subprocess, sys
pid, tag = sys.argv[1], sys.argv[2]
base = subprocess.run(['python3', '/verif/tools/mutant_prompt.py', pid, tag], stdout=subprocess.PIPE, text=True).stdout
tried, files = [], set()
for d in sorted(glob.glob(f'/verif/seeded/{pid}-m*') + glob.glob(f'/verif/seeded/{pid}-r*-m*')):
    m = json.load(open(os.path.join(d, 'meta.json')))
    fs = re.findall(r'^\+\+\+ b/(\S+)', open(os.path.join(d, 'patch.diff')).read(), re.M)
    files.update(fs)
    tried.append("- [" + ", ".join(fs) + "] " + " ".join(str(m.get('summary', '')).split())[:330])
extra = ("\n\nIMPORTANT: other developers already tried the following changes for this property (files touched in brackets); do NOT repeat them "
         "or close variants of them. This is a late round: the obvious places are used up. Read the anchored files AND the code they call into "
         "completely before choosing, and look for what is still untouched: helper functions, trait impls (Display/FromStr/From/Drop/Default/"
         "PartialEq/Ord/Serialize/Deserialize), builder methods, `?`-propagation and error conversion, iteration order, boundary values, "
         "behaviour on the second / third call or build rather than the first, combinations of two options that are each fine alone, "
         "platform paths (symlinks, relative vs absolute, trailing separators), and defaults. A change in a Cargo.toml (feature flags) or in a "
         "macro also counts as long as the property breaks, everything compiles and the existing suite passes.\n"
         + "\n".join(tried) +
         "\n\nNever use `git stash` (the stash is shared between all worktrees of /repo and other developers work in parallel); use `git diff > file`, `git apply -R` or `git checkout -- .` instead.\n\nAlso note: the existing suite has one pre-existing failure offline (the doctest libherokubuildpack/src/download.rs download_file needs network); that one is acceptable.\n")
print(base + extra)
