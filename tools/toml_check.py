#!/usr/bin/env python3
"""Independent decoding of the TOML libcnb wrote (C07): tools/toml_check.py <outdir>
Reads <outdir>/expected.ndjson, parses every file with Python's tomllib, applies the CNB spec's field
names and defaults, and compares with the intended document. Prints one JSON summary line."""
import datetime
import json
import struct
import sys
import tomllib


def tag(v):
    if isinstance(v, bool):
        return {"b": v}
    if isinstance(v, str):
        return {"s": v}
    if isinstance(v, int):
        return {"i": v}
    if isinstance(v, float):
        return {"f": str(struct.unpack(">Q", struct.pack(">d", v))[0])}
    if isinstance(v, datetime.datetime):
        s = v.isoformat()
        return {"d": s.replace("+00:00", "Z")}
    if isinstance(v, (datetime.date, datetime.time)):
        return {"d": v.isoformat()}
    if isinstance(v, list):
        return {"a": [tag(x) for x in v]}
    if isinstance(v, dict):
        return {"t": {k: tag(x) for k, x in v.items()}}
    raise ValueError(f"unexpected TOML value {v!r}")


def keys_ok(d, allowed, where, problems):
    extra = set(d) - set(allowed)
    if extra:
        problems.append(f"{where}: keys {sorted(extra)} are not defined by the CNB spec")


def norm_process(p, problems):
    keys_ok(p, ["type", "command", "args", "default", "working-dir"], "process", problems)
    return {"type": p.get("type"), "command": p.get("command"), "args": p.get("args", []), "default": p.get("default", False),
            "working-dir": p.get("working-dir", "app")}


def norm(kind, t, problems):
    if kind == "build_plan":
        keys_ok(t, ["provides", "requires", "or"], "build plan", problems)
        def grp(g):
            keys_ok(g, ["provides", "requires", "or"], "build plan group", problems)
            for p in g.get("provides", []):
                keys_ok(p, ["name"], "provides", problems)
            for r in g.get("requires", []):
                keys_ok(r, ["name", "metadata"], "requires", problems)
            return {"provides": [p.get("name") for p in g.get("provides", [])],
                    "requires": [{"name": r.get("name"), "metadata": tag(r.get("metadata", {}))} for r in g.get("requires", [])]}
        top = grp(t)
        return {"provides": top["provides"], "requires": top["requires"], "or": [grp(g) for g in t.get("or", [])]}
    if kind == "launch":
        keys_ok(t, ["processes", "labels", "slices"], "launch", problems)
        for l in t.get("labels", []):
            keys_ok(l, ["key", "value"], "label", problems)
        for s in t.get("slices", []):
            keys_ok(s, ["paths"], "slice", problems)
        return {"processes": [norm_process(p, problems) for p in t.get("processes", [])],
                "labels": [{"key": l.get("key"), "value": l.get("value")} for l in t.get("labels", [])],
                "slices": [{"paths": s.get("paths")} for s in t.get("slices", [])]}
    if kind == "layer":
        keys_ok(t, ["types", "metadata"], "layer content metadata", problems)
        ty = t.get("types")
        if ty is not None:
            keys_ok(ty, ["build", "launch", "cache"], "types", problems)
            ty = {"build": ty.get("build", False), "launch": ty.get("launch", False), "cache": ty.get("cache", False)}
        return {"types": ty, "metadata": tag(t.get("metadata", {}))}
    if kind == "store":
        keys_ok(t, ["metadata"], "store", problems)
        return {"metadata": tag(t.get("metadata", {}))}
    if kind == "package":
        keys_ok(t, ["buildpack", "dependencies", "platform"], "package descriptor", problems)
        return {"buildpack": t.get("buildpack", {}).get("uri"), "dependencies": [d.get("uri") for d in t.get("dependencies", [])],
                "os": t.get("platform", {}).get("os", "linux")}
    if kind == "execd":
        return dict(t)
    raise ValueError(kind)


def main():
    outdir = sys.argv[1]
    total = 0
    bad = []
    kinds = {}
    for line in open(f"{outdir}/expected.ndjson"):
        e = json.loads(line)
        total += 1
        kinds[e["kind"]] = kinds.get(e["kind"], 0) + 1
        problems = []
        try:
            with open(e["file"], "rb") as f:
                t = tomllib.load(f)
        except Exception as ex:  # noqa
            bad.append({"signature": f"{e['kind']}: not valid TOML 1.0", "detail": f"{ex}: {open(e['file'], errors='replace').read()[:300]!r}", "case": e})
            continue
        got = norm(e["kind"], t, problems)
        if got != e["expected"]:
            problems.append(f"decoded document {json.dumps(got)[:500]} differs from the intended {json.dumps(e['expected'])[:500]}")
        for p in problems:
            bad.append({"signature": f"{e['kind']}: {p.split(':')[0][:60]}", "detail": p + " | file text: " + repr(open(e["file"], errors="replace").read()[:300]), "case": e})
    print("SUMMARY " + json.dumps({"evaluations": total, "distinct_nontrivial": total, "mismatches": bad[:50], "mismatches_total": len(bad),
                                   "samples": [], "extra": {"kinds": kinds}}))


if __name__ == "__main__":
    main()
