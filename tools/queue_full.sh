#!/bin/bash
# usage: tools/queue_full.sh "PID:checks" ...  : try + confirm m1/m2 of each PID, then keep
./setup.sh > /dev/null 2>&1
for item in "$@"; do
  IFS=: read pid checks <<< "$item"
  for m in m1 m2; do
    d=/tmp/mut-$pid-out/$m; [ -f $d/patch.diff ] || continue
    tools/try_seeded.sh $d/patch.diff ${checks//,/ } > $d/try.txt 2>&1
    [ -f $d/confirm.txt ] || /verif/tools/confirm_mutant.sh /tmp/mut-$pid $d > $d/confirm.txt 2>&1
    echo "$pid $m: $(grep '==' $d/try.txt | tr '\n' ' ') | $(cat $d/confirm.txt | tr '\n' ' ')"
  done
done
