#!/bin/bash
# usage: tools/coverage.sh [ids...]   (development aid, not a registered check)
# Builds the harness with source-based coverage instrumentation (nightly toolchain, its llvm-tools),
# runs the quick checks against that build and reports, per source file of /repo, the functions no
# check ever executed.  Output: /dev/shm/cov/report.txt and /dev/shm/cov/uncovered.txt
set -u
ids="${@:-C01 C02 C03 C04 C05 C06 C07 C08 C09 C10 C11 C12 C13 C14 C16 C17 C18 C19 C20 X01}"
T=/dev/shm/cov-target; C=/dev/shm/cov
LLVM=$(dirname $(find ~/.rustup/toolchains/nightly-x86_64-unknown-linux-gnu -name llvm-profdata | head -1))
rm -rf $C; mkdir -p $C; chmod 1777 $C
(cd /verif/harness && RUSTFLAGS="-C instrument-coverage --cfg heroku_libcnb_rs_verif --check-cfg cfg(heroku_libcnb_rs_verif)" CARGO_TARGET_DIR=$T cargo +nightly build --offline 2>&1 | tail -2)
export VERIF_BIN=$T/debug VERIF_NO_EVIDENCE=1 LLVM_PROFILE_FILE="$C/%8m.profraw"
cd /verif
for id in $ids; do ./check $id 2>&1 | tail -1; done
$LLVM/llvm-profdata merge -sparse $C/*.profraw -o $C/all.profdata
objs=""; for b in $T/debug/*; do [ -f "$b" ] && [ -x "$b" ] && objs="$objs -object $b"; done
$LLVM/llvm-cov report $objs -instr-profile=$C/all.profdata --ignore-filename-regex='(\.cargo|rustc|verif/harness)' > $C/report.txt 2>/dev/null
$LLVM/llvm-cov export $objs -instr-profile=$C/all.profdata --ignore-filename-regex='(\.cargo|rustc|verif/harness)' -format=lcov > $C/all.lcov 2>/dev/null
python3 - <<'PY'
import re,collections
fn=collections.defaultdict(dict); cur=None
for l in open('/dev/shm/cov/all.lcov'):
    l=l.strip()
    if l.startswith('SF:'): cur=l[3:]
    elif l.startswith('FNDA:'):
        n,name=l[5:].split(',',1); fn[cur][name]=fn[cur].get(name,0)+int(n)
out=open('/dev/shm/cov/uncovered.txt','w')
for f in sorted(fn):
    un=[n for n,c in fn[f].items() if c==0]
    if un: out.write(f"{f}: {len(un)}/{len(fn[f])} functions never executed\n" + "".join(f"    {n}\n" for n in un))
PY
tail -3 $C/report.txt
