#!/bin/bash
# usage: tools/coverage.sh [ids...]   (development aid, not a registered check)
# Builds the harness with source-based coverage instrumentation (nightly toolchain, its llvm-tools),
# runs the quick checks against that build and reports, per source file of /repo, the functions no
# check ever executed.  Output: /dev/shm/cov/report.txt and /dev/shm/cov/uncovered.txt
set -u
ids="${@:-C01 C02 C03 C04 C05 C06 C07 C08 C09 C10 C11 C12 C13 C14 C15 C16 C17 C18 C19 C20 X01 X02 X04 X05}"
T=/dev/shm/cov-target; C=/dev/shm/cov
LLVM=$(dirname $(find ~/.rustup/toolchains/nightly-x86_64-unknown-linux-gnu -name llvm-profdata | head -1))
rm -rf $C; mkdir -p $C; chmod 1777 $C
(cd /verif/harness && RUSTFLAGS="-C instrument-coverage --cfg heroku_libcnb_rs_verif --check-cfg cfg(heroku_libcnb_rs_verif)" CARGO_TARGET_DIR=$T cargo +nightly build --offline 2>&1 | tail -2)
export VERIF_BIN=$T/debug VERIF_NO_EVIDENCE=1 LLVM_PROFILE_FILE="$C/%8m.profraw"
cd /verif
for id in $ids; do ./check $id 2>&1 | tail -1; done
$LLVM/llvm-profdata merge -sparse $C/*.profraw -o $C/all.profdata
objs=""; for b in $T/debug/*; do [ -f "$b" ] && [ -x "$b" ] && objs="$objs -object $b"; done
$LLVM/llvm-cov report $objs -instr-profile=$C/all.profdata --ignore-filename-regex='(\.cargo|rustc|verif/harness)' > $C/report.txt 2>/dev/null
$LLVM/llvm-cov export $objs -instr-profile=$C/all.profdata --ignore-filename-regex='(\.cargo|rustc|verif/harness)' -format=lcov > $C/all.lcov 2>/dev/null
python3 - <<'PY'
import collections
da=collections.defaultdict(dict); cur=None
for l in open('/dev/shm/cov/all.lcov'):
    l=l.strip()
    if l.startswith('SF:'): cur=l[3:]
    elif l.startswith('DA:'):
        n,c=l[3:].split(',')[:2]; da[cur][int(n)]=max(da[cur].get(int(n),0),int(c))
out=open('/dev/shm/cov/uncovered.txt','w')
tot=cov=0
for f in sorted(da):
    if not f.startswith('/repo/'): continue
    src=open(f).read().splitlines()
    # skip the files' own unit tests
    cut=next((i for i,l in enumerate(src) if l.startswith('#[cfg(test)]')), len(src))
    lines={n:c for n,c in da[f].items() if n<=cut}
    un=sorted(n for n,c in lines.items() if c==0)
    tot+=len(lines); cov+=len(lines)-len(un)
    out.write(f"== {f}: {len(un)} of {len(lines)} executable lines never executed\n")
    # ranges
    k=0
    while k<len(un):
        a=un[k]; b=a
        while k+1<len(un) and un[k+1]<=b+2: k+=1; b=un[k]
        k+=1
        for n in range(a,b+1):
            out.write(f"   {n:4d}  {src[n-1][:150]}\n")
        out.write("   ----\n")
out.write(f"TOTAL (non-test lines of /repo): {cov}/{tot}\n")
print(f"covered {cov}/{tot} non-test executable lines of /repo")
PY
tail -3 $C/report.txt
find /repo /verif -name "*.profraw" -not -path "*/target/*" -delete 2>/dev/null   # children that run with a cleared environment leave default-named profiles in their working directory
