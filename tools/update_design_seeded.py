#!/usr/bin/env python3
"""rewrites the table of seeded changes in DESIGN.md section 10 from seeded/*/meta.json (idempotent)"""
import subprocess
s = open('/verif/DESIGN.md').read()
table = subprocess.run(['python3', '/verif/tools/design_seeded_table.py'], stdout=subprocess.PIPE, text=True).stdout
a = s.index("| id | property | change (written independently by a sub-agent)")
b = s.index("Checks that had to be strengthened because a seeded change was first missed")
s = s[:a] + table + "\n" + s[b:]
open('/verif/DESIGN.md', 'w').write(s)
print(table.count("\n") - 2, "rows")
