#!/bin/bash
# usage: tools/confirm_mutant.sh <worktree> <mutant-dir (patch.diff, meta.json, demo files)> [--skip-suite]
# Confirms in the scratch worktree: patch applies+compiles, existing suite still passes (only the
# network doctest may fail), demo fails with the patch and passes without. Prints CONFIRM lines.
wt="$1"; m="$(realpath "$2")"; skip="${3:-}"
export CARGO_TARGET_DIR="$wt/target" CARGO_NET_OFFLINE=true
cd "$wt" || exit 3
git checkout -q -- . ; git clean -fdq -e target
cmd=$(python3 -c "import json,sys; print(json.load(open('$m/meta.json'))['demo_cmd'])")
stage() { for f in "$m"/*; do case "$(basename "$f")" in patch.diff|meta.json|suite.log|*.log) ;; *) cp -r "$f" "$wt/";; esac; done; }
git apply "$m/patch.diff" || { echo "CONFIRM patch=DOES-NOT-APPLY"; exit 1; }
if [ "$skip" != "--skip-suite" ]; then
  cargo test --workspace --no-fail-fast --offline > "$m/confirm_suite.log" 2>&1
  fails=$(grep -E "^test .* FAILED$|^test .*\.\.\. FAILED" "$m/confirm_suite.log" | grep -v "download::download_file" | wc -l)
  passed=$(grep -E "^test result:" "$m/confirm_suite.log" | awk '{s+=$4} END {print s}')
  builderr=$(grep -c "^error" "$m/confirm_suite.log")
  echo "CONFIRM suite_passed=$passed suite_failures_other_than_network_doctest=$fails build_errors=$builderr"
fi
stage
( eval "$cmd" ) > "$m/confirm_demo_with.log" 2>&1; with=$?
git checkout -q -- . ; git clean -fdq -e target
stage
( eval "$cmd" ) > "$m/confirm_demo_without.log" 2>&1; without=$?
git checkout -q -- . ; git clean -fdq -e target
echo "CONFIRM demo_with_patch_rc=$with demo_without_patch_rc=$without"
