#!/usr/bin/env python3
"""prints the prompt for a mutation sub-agent: tools/mutant_prompt.py C01 [variant-hint]"""
import sys
pid = sys.argv[1]
hint = sys.argv[2] if len(sys.argv) > 2 else ""
prop = open(f'/verif/work/prop_{pid}.txt').read()
print(f"""You are helping to evaluate a verification effort for the Rust project heroku/libcnb.rs (a framework for writing Cloud Native Buildpacks). Your job is to play the role of a developer who introduces a subtle regression.

Set up your own scratch git worktree of the repository (do NOT work in /repo itself, and do NOT read or write anything under /verif):

    git -C /repo worktree add --detach /tmp/mut-{pid}{hint and '-'+hint} HEAD
    cd /tmp/mut-{pid}{hint and '-'+hint}
    export CARGO_TARGET_DIR=/tmp/mut-{pid}{hint and '-'+hint}/target CARGO_NET_OFFLINE=true

There is no network; `cargo build/test --offline` works with the cached crates. The existing test suite is run with
`cargo test --workspace --no-fail-fast --offline` (takes a few minutes the first time; run it only when you need it, e.g. restricted with `-p <crate>` first).

Here is a semantic property the library is supposed to satisfy:

---
{prop}---

Task: produce TWO different, independent changes (mutations) to the library's non-test source code, each of which
  (a) BREAKS this property,
  (b) still COMPILES, and
  (c) still PASSES the whole existing test suite unchanged (you must actually run `cargo test --workspace --no-fail-fast --offline` with the change applied and confirm 0 failures; ignored tests stay ignored).
The changes should look like plausible refactorings/bug introductions a maintainer could make (a dropped call, swapped order, wrong condition, an `.ok()` swallowing an error, a wrong default, an off-by-one, two sites that each look fine alone), NOT sabotage that any use would expose at once. Prefer changes that need something specific to manifest: a particular sequence of operations across several calls/builds, an unusual but legal input, a particular combination of options, a failure at a particular point, a particular interleaving. The two mutations should use different mechanisms / touch different code paths. {('Focus hint: ' + hint + '.') if hint else ''}

For each mutation i in (1, 2) write into /tmp/mut-{pid}{hint and '-'+hint}-out/m<i>/ :
  - patch.diff   : `git diff` of the change against HEAD (library source only; must apply with `git apply` to a clean checkout of HEAD)
  - a demonstration: a self-contained Rust test file (e.g. demo.rs meant to be dropped into the relevant crate's `tests/` directory, or a small example program) that FAILS with the change and PASSES without it; verify both directions yourself. Say in meta.json exactly where the file must be placed and which command runs it (e.g. `cp demo.rs libcnb/tests/demo_mutant.rs && cargo test -p libcnb --test demo_mutant --offline`). The demo may use the crate's public API and dev-dependencies only (tempfile, serde_json, toml are available).
  - meta.json    : {{"property": "{pid}", "summary": "...what was changed...", "needs_to_manifest": "...the specific sequence/input/fault...", "demo_place": "...", "demo_cmd": "...", "suite_result": "...e.g. 189 passed 0 failed..."}}

When finished, revert your source changes in the worktree (git checkout -- .), delete the target directory (rm -rf /tmp/mut-{pid}{hint and '-'+hint}/target) to free disk space, but leave the worktree and the -out directory in place. Reply with a short summary of the two mutations and the paths. If you can only find one valid mutation, deliver one and say so.""")
