#!/usr/bin/env python3
"""round-2 prompt: like mutant_prompt.py but tells the agent which mechanisms were already used"""
import glob, json, os, subprocess, sys
pid = sys.argv[1]
base = subprocess.run(['python3', '/verif/tools/mutant_prompt.py', pid, 'r2'], stdout=subprocess.PIPE, text=True).stdout
tried = []
for d in sorted(glob.glob(f'/verif/seeded/{pid}-m*')):
    m = json.load(open(os.path.join(d, 'meta.json')))
    tried.append("- " + " ".join(str(m.get('summary', '')).split())[:400])
extra = ("\n\nIMPORTANT: other developers already tried the following changes for this property; do NOT repeat them or close variants of them. "
         "Find changes that use different mechanisms, touch different functions / code paths among the anchored files (or files they call into), "
         "and need different circumstances to manifest (think of: rarely used API entry points, error paths, unusual but legal inputs, "
         "state left by an earlier operation, interactions between two features):\n" + "\n".join(tried) +
         "\n\nAlso note: the existing suite has one pre-existing failure offline (the doctest libherokubuildpack/src/download.rs download_file needs network); that one is acceptable.\n")
print(base + extra)
